"""Mutation demonstrations for C14: apply one edit at a time in /tmp/wt_c14, run the quick tier, list NEW finding keys."""
import os, re, subprocess, sys, time
WT = "/tmp/wt_c14"
MUTS = {
 "M1-style-except-dropped": ("rich/style.py",
   '''                try:
                    Color.parse(word)
                except ColorParseError as error:
                    raise errors.StyleSyntaxError(
                        f"unable to parse {word!r} as color; {error}"
                    ) from None
''', '''                Color.parse(word)
'''),
 "M2-get_style-wrong-except": ("rich/console.py",
   "        except errors.StyleSyntaxError as error:\n            if default is not None:",
   "        except errors.MissingStyle as error:\n            if default is not None:"),
 "M3-markup-implicit-close-except": ("rich/markup.py",
   "                    except IndexError:\n", "                    except KeyError:\n"),
 "M4-render-guard-removed": ("rich/console.py",
   "        if _options.max_width < 1:\n            # No space to render anything. This prevents potential recursion errors.\n            return\n", ""),
 "M5-measure-guard-removed": ("rich/measure.py",
   "        if _max_width < 1:\n            return Measurement(0, 0)\n", ""),
 "M6-ansi-suppress-dropped": ("rich/ansi.py",
   "                        #  Foreground\n                        with suppress(StopIteration):\n",
   "                        #  Foreground\n                        if True:\n"),
 "M7-table-measure-column-guard-removed": ("rich/table.py",
   "        if max_width < 1:\n            return Measurement(0, 0)\n", ""),
 "M8-ratio-reduce-guard-removed": ("rich/_ratio.py",
   "    if not total_ratio:\n        return values[:]\n", ""),
 "M9-pbar-total-guard-removed": ("rich/progress_bar.py",
   "            int(width * 2 * completed / self.total) if self.total else width * 2\n",
   "            int(width * 2 * completed / self.total)\n"),
 "M10-color-number-regex-widened": ("rich/color.py",
   "color\\(([0-9]{1,3})\\)$|", "color\\(([0-9 ]{1,3})\\)$|"),
 "M11-markup-explicit-close-no-except": ("rich/markup.py",
   "                    except KeyError:\n                        raise MarkupError(", "                    except IndexError:\n                        raise MarkupError("),
 "M12-chop-cells-no-progress": ("rich/cells.py",
   "            lines.append([character])\n            append = lines[-1].append\n            total_size = size\n",
   "            lines.append([])\n            append = lines[-1].append\n            total_size = 0\n            characters.append((character, size))\n"),
}
def run(name):
    path, old, new = MUTS[name]
    subprocess.run(["git", "-C", WT, "checkout", "--", "."], check=True)
    if name != "BASE":
        p = os.path.join(WT, path); s = open(p).read()
        assert s.count(old) >= 1, (name, "pattern not found")
        open(p, "w").write(s.replace(old, new, 1))
    t = time.time()
    env = dict(os.environ, VF_REPO=WT, VF_WORKERS=os.environ.get("VF_WORKERS", "4"))
    out = subprocess.run(["/venv/bin/python", "-m", "vf", "check", "C14", "--tier", "quick"], cwd="/verif", env=env,
                         capture_output=True, text=True).stdout
    keys = set(re.findall(r"^  key=(\S+)", out, re.M))
    subprocess.run(["git", "-C", WT, "checkout", "--", "."], check=True)
    return keys, time.time() - t, out.strip().splitlines()[-1]
if __name__ == "__main__":
    MUTS["BASE"] = None
    names = sys.argv[1:] or ["BASE"] + [m for m in MUTS if m != "BASE"]
    base = None
    if os.path.exists("/verif/.c14_base_keys"):
        base = set(open("/verif/.c14_base_keys").read().split())
    for n in names:
        if n == "BASE":
            MUTS["BASE"] = ("", "", "")
            base, dt, last = run("BASE")
            open("/verif/.c14_base_keys", "w").write("\n".join(sorted(base)))
            print("BASE keys=%d  %s" % (len(base), last), flush=True)
            continue
        keys, dt, last = run(n)
        new = sorted(keys - (base or set()))
        print("%s: %s  new keys: %s   [%s]" % (n, "CAUGHT" if new else "MISSED", new, last), flush=True)
