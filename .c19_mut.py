"""Mutation demonstrations for C19 (scratch; removed at the end). Each mutant = the proposed
flush fix + one realistic slip in the anchored code, applied in /tmp/wt_c19."""
import os
import subprocess
import sys

WT = "/tmp/wt_c19"
FIX = ("rich/file_proxy.py",
       '            self.__console.print("".join(buffer))\n',
       '            output = self.__ansi_decoder.decode_line("".join(buffer))\n'
       '            self.__console.print(output, markup=False, emoji=False, highlight=False)\n')

MUTANTS = [
    ("M1 decoder map 3 -> bold", "rich/ansi.py", '    3: "italic",\n', '    3: "bold",\n'),
    ("M2 write forgets the pending buffer", "rich/file_proxy.py",
     '                lines.append("".join(buffer) + line)\n', '                lines.append(line)\n'),
    ("M3 decoder style reset at every line", "rich/ansi.py",
     '        text = Text()\n        append = text.append\n',
     '        text = Text()\n        self.style = _Style.null()\n        append = text.append\n'),
    ("M4 decoder 48;5 sets the foreground", "rich/ansi.py",
     '                                self.style += _Style.from_color(\n                                    None, from_ansi(next(iter_codes))\n                                )\n',
     '                                self.style += _Style.from_color(\n                                    from_ansi(next(iter_codes)), None\n                                )\n'),
    ("M5 lines of one write joined without newline", "rich/file_proxy.py",
     '                output = Text("\\n").join(\n', '                output = Text("").join(\n'),
    ("M6 flush keeps the buffer", "rich/file_proxy.py", '            del buffer[:]\n', '            pass\n'),
    ("M7 progress does not redirect stderr", "rich/progress.py",
     '                sys.stderr = FileProxy(self.console, sys.stderr)\n',
     '                sys.stderr = sys.stderr\n'),
    ("M8 tokenizer drops a final single character", "rich/ansi.py",
     '    if position < len(ansi_text):\n', '    if position < len(ansi_text) - 1:\n'),
    ("M9 decoder ignores OSC 8 links", "rich/ansi.py", '                    if semicolon:\n', '                    if not semicolon:\n'),
    ("M10 decoder bright colours off by one", "rich/ansi.py", '    91: "color(9)",\n', '    91: "color(8)",\n'),
    ("M11 partial write overwrites the pending buffer", "rich/file_proxy.py",
     '                buffer.append(line)\n', '                buffer[:] = [line]\n'),
    ("M12 live wraps stderr proxy into stdout", "rich/live.py",
     '                sys.stderr = FileProxy(self.console, sys.stderr)\n',
     '                sys.stdout = FileProxy(self.console, sys.stderr)\n'),
]


def patch(path, old, new, count=None):
    p = os.path.join(WT, path)
    s = open(p).read()
    assert old in s, (path, old)
    if count is None:
        s = s.replace(old, new)
    else:
        # replace only the LAST occurrence (M6: the del in flush, not the one in write)
        i = s.rindex(old)
        s = s[:i] + new + s[i + len(old):]
    open(p, "w").write(s)


def main():
    sel = sys.argv[1:]
    for m in MUTANTS:
        name, path, old, new = m
        if sel and name.split()[0] not in sel:
            continue
        subprocess.run(["git", "-C", WT, "checkout", "--", "."], check=True)
        patch(*FIX)
        patch(path, old, new, count="last" if name.startswith("M6") else None)
        env = dict(os.environ, VF_REPO=WT, VF_WORKERS=os.environ.get("VF_WORKERS", "6"))
        r = subprocess.run(["/venv/bin/python", "-m", "vf", "check", "C19", "--tier", "quick"],
                           cwd="/verif", env=env, capture_output=True, text=True)
        keys = [l.strip() for l in r.stdout.splitlines() if l.strip().startswith("key=")]
        last = r.stdout.strip().splitlines()[-1] if r.stdout.strip() else r.stderr[-500:]
        print("== %s\n   exit=%d %s\n   %s" % (name, r.returncode, "; ".join(keys), last), flush=True)
    subprocess.run(["git", "-C", WT, "checkout", "--", "."], check=True)


main()
