"""usage: .c08_mut.py <name> <file> <old> <new> [fams...]  -- applies one edit in /tmp/wt_c08, runs the dbg families, resets"""
import subprocess, sys, os
name, f, old, new = sys.argv[1:5]
fams = sys.argv[5:]
p = "/tmp/wt_c08/" + f
s = open(p).read()
assert s.count(old) >= 1, "pattern not found"
open(p, "w").write(s.replace(old, new, 1))
try:
    if fams and fams[0] == "OFFICIAL":
        r = subprocess.run("cd /verif && VF_WORKERS=4 VF_REPO=/tmp/wt_c08 /venv/bin/python -m vf check C08 --tier quick 2>&1 | grep -E 'key=|C08 quick|MACHINERY' ", shell=True, capture_output=True, text=True)
    else:
        r = subprocess.run(["/venv/bin/python", "/verif/.c08_dbg.py", "quick"] + fams, capture_output=True, text=True, env=dict(os.environ, VF_REPO="/tmp/wt_c08", N=os.environ.get("N", "4")))
    print("### MUTANT", name)
    print(r.stdout[-3000:], r.stderr[-2000:])
finally:
    subprocess.run(["git", "-C", "/tmp/wt_c08", "checkout", "--", "."])
