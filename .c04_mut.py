import json, subprocess, sys, os
WT="/tmp/wt_c04"
M = [
 ("M1 pop_style pops the oldest matching tag", "rich/markup.py",
  "        for index, (_, tag) in enumerate(reversed(style_stack), 1):\n            if tag.name == style_name:\n                return pop(-index)\n",
  "        for index, (_, tag) in enumerate(style_stack):\n            if tag.name == style_name:\n                return pop(index)\n"),
 ("M2 escape drops the doubling of preceding backslashes", "rich/markup.py",
  'return f"{backslashes}{backslashes}\\\\{text}"', 'return f"{backslashes}\\\\{text}"'),
 ("M3 _parse: dropped 'position = end' after an escaped tag", "rich/markup.py",
  "                yield start, full_text[len(escapes) :], None\n                position = end\n",
  "                yield start, full_text[len(escapes) :], None\n"),
 ("M4 implicit close pops the bottom of the stack", "rich/markup.py",
  "                        start, open_tag = pop()\n", "                        start, open_tag = pop(0)\n"),
 ("M5 closing tag name no longer normalised", "rich/markup.py",
  "                    style_name = normalize(style_name)\n", ""),
 ("M6 unclosed tags end one character early", "rich/markup.py",
  "        append_span(_Span(start, text_length, str(tag)))\n", "        append_span(_Span(start, text_length - 1, str(tag)))\n"),
 ("M7 escape regex out of sync with RE_TAGS ('#' dropped)", "rich/markup.py",
  'def escape(markup: str, _escape=re.compile(r"(\\\\*)(\\[[a-z#\\/].*?\\])").sub)', 'def escape(markup: str, _escape=re.compile(r"(\\\\*)(\\[[a-z\\/].*?\\])").sub)'),
 ("M8 odd/even swapped: divmod(len(escapes)+1, 2)", "rich/markup.py",
  "backslashes, escaped = _divmod(len(escapes), 2)", "backslashes, escaped = _divmod(len(escapes) + 1, 2)"),
 ("M9 explicit/implicit close span ends one late", "rich/markup.py",
  "                append_span(_Span(start, len(text), str(open_tag)))\n", "                append_span(_Span(start, len(text) + 1, str(open_tag)))\n"),
 ("M10 RE_TAGS greedy .* instead of .*?", "rich/markup.py",
  'r"""((\\\\*)\\[([a-z#\\/].*?)\\])"""', 'r"""((\\\\*)\\[([a-z#\\/].*)\\])"""'),
 ("M11 escape only captures one preceding backslash", "rich/markup.py",
  'def escape(markup: str, _escape=re.compile(r"(\\\\*)(', 'def escape(markup: str, _escape=re.compile(r"(\\\\?)('),
 ("M12 MarkupError swallowed for unmatched explicit close (treated as text-less no-op)", "rich/markup.py",
  "                    except KeyError:\n                        raise MarkupError(\n                            f\"closing tag '{tag.markup}' at position {position} doesn't match any open tag\"\n                        ) from None\n",
  "                    except KeyError:\n                        continue\n"),
]

M += [
 ("M13 Tag.__str__ renders parameters with '=' (style string unparsable)", "rich/markup.py",
  'self.name if self.parameters is None else f"{self.name} {self.parameters}"', 'self.name if self.parameters is None else f"{self.name}={self.parameters}"'),
 ("M14 Style.normalize returns the definition unparsed", "rich/style.py",
  "            return str(cls.parse(style))\n        except errors.StyleSyntaxError:", "            cls.parse(style)\n            return style.strip().lower()\n        except errors.StyleSyntaxError:"),
 ("M15 emoji flag inverted for text between tags", "rich/markup.py",
  "            append(emoji_replace(plain_text) if emoji else plain_text)", "            append(plain_text if emoji else emoji_replace(plain_text))"),
 ("M16 Text.render: boundary sort ignores the leaving flag", "rich/text.py",
  "        spans.sort(key=itemgetter(0, 1))\n\n        stack: List[int] = []", "        spans.sort(key=itemgetter(0))\n\n        stack: List[int] = []"),
]
sel = sys.argv[1:]
for name, f, a, b in M:
    if sel and name.split()[0] not in sel: continue
    subprocess.run(["git","-C",WT,"checkout","--","."],check=True)
    p=os.path.join(WT,f); t=open(p).read()
    assert t.count(a)==1, (name, t.count(a))
    open(p,"w").write(t.replace(a,b))
    env=dict(os.environ, VF_REPO=WT, VF_WORKERS="4", PYTHONDONTWRITEBYTECODE="1")
    r=subprocess.run(["/venv/bin/python","-m","vf","check","C04","--tier","quick","--quiet"],cwd="/verif",env=env,capture_output=True,text=True)
    ev=json.load(open("/verif/evidence/C04.json"))
    print(name, "-> exit", r.returncode, "wall", ev["wall_s"])
    for k,v in ev["coverage"]["violating_cases_by_key"].items(): print("     ", k, v)
    if r.returncode not in (0,1): print(r.stderr[-2000:])
subprocess.run(["git","-C",WT,"checkout","--","."],check=True)
