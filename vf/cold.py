"""Cold-state executions: every execution of a harness runs in a fork of a *zygote* -- a fresh interpreter
that has imported the code under test and installed the scheduler, but has never called it.  Lazily built
module state (tables filled on first use, memo dictionaries, first-call flags) is therefore cold at the
start of every execution, which a long-lived worker cannot offer: its module state was warmed by earlier
shards and executions, and `cache_clear()` only resets the caches one knows about.

    zy = Zygote("vf.checks.c13", "_e_setup")            # python -m vf.cold vf.checks.c13 _e_setup
    rec = zy.call("_e_child", hid, prefix)              # runs vf.checks.c13._e_child(hid, prefix) in a fork
    zy.close()

explore_cold() is sched.explore() over such records (plain data instead of live Sched objects): the same
deviation accounting -- switching away from a runnable thread or firing a timeout costs one -- and the same
guarantee: every schedule with <= bound deviations is executed exactly once.
"""
import importlib
import os
import pickle
import struct
import subprocess
import sys
import traceback

from . import ROOT
from .par import MachineryError


def _send(f, obj):
    data = pickle.dumps(obj)
    f.write(struct.pack("<I", len(data)))
    f.write(data)
    f.flush()


def _recv(f):
    head = f.read(4)
    if len(head) < 4:
        return None
    (n,) = struct.unpack("<I", head)
    data = f.read(n)
    if len(data) < n:
        return None
    return pickle.loads(data)


class Zygote:
    def __init__(self, module, setup):
        env = dict(os.environ)
        env["PYTHONHASHSEED"] = "0"
        env["PYTHONPATH"] = ROOT + (os.pathsep + env["PYTHONPATH"] if env.get("PYTHONPATH") else "")
        self.p = subprocess.Popen([sys.executable, "-m", "vf.cold", module, setup], stdin=subprocess.PIPE,
                                  stdout=subprocess.PIPE, env=env, cwd=ROOT)
        hello = _recv(self.p.stdout)
        if hello != ("ready", None):
            raise MachineryError("zygote for %s did not start: %r" % (module, hello))

    def call(self, fn, *args):
        _send(self.p.stdin, (fn, args))
        ans = _recv(self.p.stdout)
        if ans is None:
            raise MachineryError("zygote died during %s%r" % (fn, args))
        st, out = ans
        if st != "ok":
            raise MachineryError("cold child failed in %s: %s" % (fn, out))
        return out

    def close(self):
        try:
            self.p.stdin.close()
            self.p.wait(timeout=10)
        except Exception:
            self.p.kill()


def _serve(module, setup):
    from . import use_repo
    use_repo()
    out = sys.stdout.buffer
    sys.stdout = sys.stderr               # nothing the code under test prints may reach the protocol stream
    mod = importlib.import_module(module)
    try:
        getattr(mod, setup)()
    except BaseException:
        _send(out, ("setup-failed", traceback.format_exc()))
        return 1
    _send(out, ("ready", None))
    inp = sys.stdin.buffer
    while True:
        req = _recv(inp)
        if req is None:
            return 0
        fn, args = req
        r, w = os.pipe()
        pid = os.fork()
        if pid == 0:
            try:
                os.close(r)
                try:
                    data = pickle.dumps(("ok", getattr(mod, fn)(*args)))
                except BaseException:
                    data = pickle.dumps(("err", traceback.format_exc()))
                with os.fdopen(w, "wb") as f:
                    f.write(data)
            finally:
                os._exit(0)
        os.close(w)
        with os.fdopen(r, "rb") as f:
            data = f.read()
        os.waitpid(pid, 0)
        ans = pickle.loads(data) if data else ("err", "child died without an answer")
        _send(out, ans)


def record_of(s, **extra):
    """plain-data record of a finished vf.sched execution (what explore_cold needs, plus extras)"""
    rec = {"choices": list(s.choices), "cp": [tuple(c) for c in s.cp], "problem": s.problem, "steps": s.steps}
    rec.update(extra)
    return rec


def _cost(cp_i, alt):
    _nopt, running_enabled, kinds = cp_i
    return 1 if (running_enabled or kinds[alt] == "fire") else 0


def explore_cold(run, bound, on_exec, stop=None, max_execs=None, shard=(0, 1)):
    """run(prefix) -> record (see record_of).  on_exec(record) is called once per execution (by shard 0
    for the shared root); return False from it to stop early.  The root's children are dealt round-robin
    over the shards.  -> stats"""
    stats = {"executions": 0, "max_choice_points": 0, "complete": True}
    shard_i, shard_n = shard

    def children(rec, plen):
        """-> [(prefix, deviations used by that prefix)]"""
        out = []
        cp, ch = rec["cp"], rec["choices"]
        dev = sum(_cost(cp[j], ch[j]) for j in range(plen) if ch[j] != 0)
        for i in range(plen, len(cp)):
            if dev > bound:
                break
            for alt in range(1, cp[i][0]):
                c = dev + _cost(cp[i], alt)
                if c <= bound:
                    out.append((ch[:i] + [alt], c))
            if ch[i] != 0:
                dev += _cost(cp[i], ch[i])
        return out

    def execute(prefix, count):
        rec = run(prefix)
        if rec["problem"] and rec["problem"].startswith("divergence"):
            raise MachineryError("schedule replay diverged: %s prefix=%r" % (rec["problem"], prefix[-20:]))
        if len(rec["choices"]) < len(prefix) or rec["choices"][:len(prefix)] != list(prefix):
            raise MachineryError("schedule prefix not replayed: asked %r got %r" % (prefix[-20:], rec["choices"][:len(prefix)][-20:]))
        if count:
            stats["executions"] += 1
            stats["max_choice_points"] = max(stats["max_choice_points"], len(rec["choices"]))
            if on_exec(rec) is False:
                stats["complete"] = False
                return None
        return rec

    # deterministic frontier, as in sched.explore(): the root and (to depth 4) its zero-cost descendants -- which
    # thread goes first / next when the running one ends -- are executed by every shard and judged by shard 0 only;
    # the sub-trees below them are dealt round-robin (one zero-cost child alone holds half of all schedules)
    expand = [([], 0)]
    frontier = []
    while expand:
        prefix, depth = expand.pop(0)
        rec = execute(prefix, shard_i == 0)
        if rec is None:
            return stats
        for child, cost in children(rec, len(prefix)):
            if cost == 0 and depth < 4:
                expand.append((child, depth + 1))
            else:
                frontier.append(child)
    stack = frontier[shard_i::shard_n]
    stack.reverse()
    while stack:
        prefix = stack.pop()
        if (stop is not None and stop()) or (max_execs is not None and stats["executions"] >= max_execs):
            stats["complete"] = False
            break
        rec = execute(prefix, True)
        if rec is None:
            break
        kids = [c for c, _ in children(rec, len(prefix))]
        kids.reverse()
        stack.extend(kids)
    return stats


if __name__ == "__main__":
    sys.exit(_serve(sys.argv[1], sys.argv[2]))
