"""Renderable-tree descriptions (pure data) -> fresh Rich objects, and the
bounded-exhaustive enumeration of such trees (DESIGN 2.1).  Shared by C01, C09, C14.

A *description* is a JSON-able nested list  [kind, opts, kids]:

    kind   one of LEAF_KINDS      "text" "rule" "bar" "pbar"
                  WRAPPER_KINDS   "nomeasure" "cast"            (C09: one kid)
                  CONTAINER_KINDS "panel" "padding" "align" "constrain" "styled"   (one kid)
                                  "group" "columns" "tree" "table"                 (1..n kids)
    opts   dict holding ONLY the options that differ from DEFAULTS[kind] (one key = one
           *deviation*), plus the structural keys of STRUCTURAL[kind] which are content, not
           options:  text: "s" (the string);  tree: "shape" ("flat" | "chain" | "mixed");
           table: "ncols" (int) and "cols" (list of ncols dicts of per-column options, each key
           one deviation).  A tree's "collapsed" option lists node indices that are not
           expanded (one deviation per index).
           A title-like option (panel / rule / columns title, table title / caption / hdr / ftr) is a str, or
           {"text": s} = "pass a rich Text object", or {"text": s, "share": key} = "pass THE Text object named
           key" (see build(desc, bind)); a text leaf may carry "share": key as well (structural).
    kids   list of child descriptions.  tree: the node labels in index order (node 0 is the
           root; parent of node i: flat -> 0, chain -> i-1, mixed -> (i-1)//2).  table: the
           cells row-major (nrows = len(kids) // ncols); headers/footers are the fixed strings
           HEADERS[i] / FOOTERS[i].

Public functions
    build(desc, bind=None)            -> a FRESH Rich renderable (never cached).  bind=None: every Text use is its
                                         own object ("copies").  bind={}: uses with the same "share" key get ONE
                                         Text object (created on first use, kept in bind) -- the shared-argument
                                         histories of family SH; pass the same dict to several build() calls to
                                         share an object between separately rendered parts
    optstr(v)                         -> the string of a title-like option value (str | {"text": s, ...} | None)
    make_console(kind)                -> Console for kind in CONSOLE_KINDS ("utf8" | "ascii" | "legacy"),
                                         width 200, deterministic (one per kind and process)
    render_widths(console, obj, W)    -> [cell width of every "\\n"-delimited line] of
                                         console.render(obj, console.options.update(width=W));
                                         control segments skipped; widths by vf/width.py
    render_text_lines(console, obj, W)-> the same lines as plain strings
    kids_of(desc), depth(desc), size(desc), deviations(desc), ends_with_newline(desc), valid(desc)
    T(s, **opts), leaf_menu(n_texts, others=True)
    skeletons(depth, max_children, leaves, kinds=CONTAINER_KINDS, inner_leaves=None, exact_depth=False,
              root_kinds=None)        -> every default-option tree of depth <= `depth` (== with exact_depth)
    chains(length, leaves, kinds=CONTAINER_KINDS)
                                      -> every single-child container chain of exactly `length` containers
    sites(desc, alts=None, include_fixed=False)
                                      -> [(path, option name, [alternative values])] of a tree
    variants(desc, k, alts=None, include_fixed=False, exactly=False, only=None)
                                      -> every tree obtained from `desc` by <= k (or exactly k) deviations
                                         (`only`: restrict the sites to these option names)
    wrap_leaves(desc, wrapper)        -> desc with every leaf wrapped in "nomeasure" / "cast"
    families(tier, seed=0, include_fixed=False)
                                      -> ordered list of family descriptors (small dicts) that make up the
                                         C01 tree space of a tier; `include_fixed=True` (C14) adds the
                                         legal-but-odd options: Columns(width=..), Table(width=..),
                                         fixed-width / min_width / no_wrap columns, and zero-column / zero-row tables
    family_trees(fam)                 -> iterator over the descriptions of one family (deterministic order)
    family_size(fam)                  -> number of trees in the family
    trees(tier, seed=0, include_fixed=False)
                                      -> iterator over (family name, desc) of all families
    FIXED_OPTIONS                     -> the option names only offered with include_fixed=True

Harness rules built into valid(): ProgressBar emits no trailing newline, so a description
whose output does not end in a newline is never a direct child of a Group (it would be glued
to its sibling's first line -- an artefact of the harness, not of Rich).  Everything else the
grammar can express is legal input for the documented constructors.
"""
import io
import itertools

from .width import sw
from . import dyn

LEAF_KINDS = ("text", "rule", "bar", "pbar")
WRAPPER_KINDS = ("nomeasure", "cast")
SINGLE_KINDS = ("panel", "padding", "align", "constrain", "styled")
MULTI_KINDS = ("group", "columns", "tree", "table")
CONTAINER_KINDS = SINGLE_KINDS + MULTI_KINDS
CONSOLE_KINDS = ("utf8", "ascii", "legacy")

def _edge_chars():
    """Code points at the edges of the width table's ranges, taken from the table data (not from the lookup
    under test): the first double-width range that is a single code point, the LAST code point of the first
    multi-code-point double-width range, the last code point of the first multi-code-point zero-width range."""
    from rich._cell_widths import CELL_WIDTHS
    single = next(chr(a) for a, b, w in CELL_WIDTHS if a == b and w == 2)
    last = next(chr(b) for a, b, w in CELL_WIDTHS if a < b and w == 2)
    zero_last = next(chr(b) for a, b, w in CELL_WIDTHS if a < b and w == 0)
    return single, last, zero_last


WIDE_SINGLE, WIDE_LAST, ZERO_LAST = _edge_chars()
WIDE_IN = "\u3042"                                   # a double-width code point inside its range
# one unbreakable word mixing wide + combining + ASCII; as many double-width as zero-width code points, so
# cells == len although a cut prefix is not one cell per character
MIXED_WORD = WIDE_IN + "-cafe\u0301-abcdefghij"

# leaf strings, most width-relevant first (a tier takes a prefix)
TEXTS = ["ab cd", WIDE_IN + WIDE_LAST, "a\nbb c", "a" + WIDE_SINGLE + " b", MIXED_WORD, "", "a", "e\u0301x",
         "\u3042\u3042\u3042\u3042", " lead", "tab\tx", "\u3042\u3044", "a\u3042 b", "abcdefgh",
         "ab\u00a0cd\u3000ef\u2003g"]          # words separated by non-ASCII whitespace (NBSP, ideographic, em space)
HEADERS = ["h", "hd x", "\u3042h", "h4"]
FOOTERS = ["f", "\u3042", "f g", "f4"]

STRUCTURAL = {"text": ("s", "share"), "tree": ("shape",), "table": ("ncols", "cols")}

DEFAULTS = {
    "text": {"justify": None, "overflow": None, "no_wrap": None},
    "rule": {"title": "", "characters": "─", "align": "center"},
    "bar": {"size": 10, "begin": 2, "end": 7, "width": None},
    "pbar": {"total": 10, "completed": 5, "width": None, "pulse": False},
    "nomeasure": {}, "cast": {},
    "panel": {"box": "ROUNDED", "title": None, "title_align": "center", "expand": True, "width": None,
              "padding": [0, 1]},
    "padding": {"pad": 1, "expand": True},
    "align": {"align": "left", "pad": True, "width": None},
    "constrain": {"width": 80},
    "styled": {"style": "none"},
    "group": {"fit": True},
    "columns": {"equal": False, "expand": False, "column_first": False, "right_to_left": False, "align": None,
                "padding": [0, 1], "title": None, "width": None},
    "tree": {"collapsed": []},
    "table": {"box": "HEAVY_HEAD", "show_header": True, "show_footer": False, "show_edge": True,
              "show_lines": False, "leading": 0, "padding": [0, 1], "pad_edge": True, "collapse_padding": False,
              "expand": False, "min_width": None, "title": None, "caption": None, "width": None,
              "hdr": None, "ftr": None},       # hdr / ftr: header / footer of column 0 instead of HEADERS[0] / FOOTERS[0]
    "column": {"justify": "left", "overflow": "ellipsis", "ratio": None, "max_width": None, "min_width": None,
               "width": None, "no_wrap": False},
}

# alternative values per option, most interesting first; `alts=n` takes the first n of each
ALTS = {
    "text": [("justify", ["full", "right", "center", "left"]), ("overflow", ["ellipsis", "crop", "fold"]),
             ("no_wrap", [True])],
    "rule": [("title", ["ti", "あ", "a long title"]), ("characters", ["あ", "=-"]), ("align", ["left", "right"])],
    "bar": [("width", [3, 30]), ("end", [10, 2])],
    "pbar": [("width", [3, 30]), ("pulse", [True]), ("completed", [10, 0, 20]), ("total", [0])],
    "nomeasure": [], "cast": [],
    "panel": [("title", ["ti", "あ t", "a long title", {"text": "ti", "justify": "right"}, {"text": "a long title", "justify": "left"}]), ("expand", [False]), ("width", [5, 12, 50, 3]),
              ("padding", [0, [1, 2], [0, 0, 0, 3]]), ("box", ["ASCII", "DOUBLE"]),
              ("title_align", ["left", "right"])],
    "padding": [("pad", [[0, 2], [1, 0, 1, 3], 0]), ("expand", [False])],
    "align": [("align", ["center", "right"]), ("width", [4, 12, 50, 1]), ("pad", [False])],
    "constrain": [("width", [4, 2, 12, None, 50])],
    "styled": [("style", ["on blue"])],
    "group": [("fit", [False])],
    "columns": [("equal", [True]), ("expand", [True]), ("padding", [[0, 3], 0, [1, 2]]), ("align", ["center", "right", "left"]),
                ("column_first", [True]), ("right_to_left", [True]), ("title", ["ti tle", "あ"]),
                ("width", [3, 1, 30, 50])],
    "table": [("expand", [True]), ("leading", [1, 2]), ("box", [None, "SIMPLE", "ASCII", "MINIMAL"]),
              ("padding", [0, [0, 2], [1, 1]]), ("collapse_padding", [True]), ("pad_edge", [False]),
              ("show_edge", [False]), ("show_lines", [True]), ("show_header", [False]), ("show_footer", [True]),
              ("min_width", [12, 30]), ("title", ["ti tle", "あ"]), ("caption", ["あ cap"]),
              ("width", [10, 1, 30, 50])],
    "column": [("ratio", [1, 2]), ("max_width", [1, 3]), ("min_width", [4, 9]), ("justify", ["right", "center", "full"]),
               ("overflow", ["fold", "crop"]), ("width", [1, 5]), ("no_wrap", [True])],
}

# offered only with include_fixed=True (outside C01's "columns free to wrap")
# (a column with width / min_width / no_wrap is not free to shrink to one character)
FIXED_OPTIONS = {("columns", "width"), ("table", "width"), ("column", "width"), ("column", "no_wrap"),
                 ("column", "min_width")}


# ------------------------------------------------------------------ consoles / rendering
class _AsciiFile(io.StringIO):
    encoding = "ascii"


_CONSOLES = {}


def make_console(kind="utf8"):
    con = _CONSOLES.get(kind)
    if con is None:
        from rich.console import Console
        con = Console(file=_AsciiFile() if kind == "ascii" else io.StringIO(), width=200, height=50,
                      force_terminal=True, color_system="truecolor", legacy_windows=(kind == "legacy"),
                      _environ={})
        _CONSOLES[kind] = con
    return con


def render_text_lines(console, obj, W):
    """Plain text of every line of console.render(obj, width=W): the non-control segments' text
    concatenated and cut at "\\n".  A trailing unterminated remainder counts as a line when non-empty."""
    parts = []
    for seg in console.render(obj, console.options.update(width=W)):
        if not seg.is_control:
            parts.append(seg.text)
    lines = "".join(parts).split("\n")
    if lines and lines[-1] == "":
        lines.pop()
    return lines


def render_widths(console, obj, W):
    return [sw(line) for line in render_text_lines(console, obj, W)]


# ------------------------------------------------------------------ description helpers
def T(s, **opts):
    o = {"s": s}
    o.update(opts)
    return ["text", o, []]


def kids_of(d):
    return d[2]


def depth(d):
    """0 for a leaf; wrappers do not count."""
    if d[0] in LEAF_KINDS:
        return 0
    if d[0] in WRAPPER_KINDS:
        return depth(d[2][0])
    return 1 + max([depth(k) for k in d[2]] or [0])


def size(d):
    return 1 + sum(size(k) for k in d[2])


def deviations(d):
    kind, o, kids = d
    n = 0
    for k, v in o.items():
        if k in STRUCTURAL.get(kind, ()):
            if k == "cols":
                n += sum(len(c) for c in v)
            continue
        n += len(v) if k == "collapsed" else 1
    return n + sum(deviations(k) for k in kids)


def ends_with_newline(d):
    kind = d[0]
    if kind == "pbar":
        return False
    if kind in ("constrain", "styled", "nomeasure", "cast"):
        return ends_with_newline(d[2][0])
    if kind == "group":
        return ends_with_newline(d[2][-1]) if d[2] else True
    return True


def valid(d):
    if d[0] == "group" and not all(ends_with_newline(k) for k in d[2]):
        return False
    return all(valid(k) for k in d[2])


def opt(d, name):
    kind = d[0]
    return d[1].get(name, DEFAULTS[kind].get(name))


def leaf_menu(n_texts, others=True):
    m = [T(s) for s in TEXTS[:n_texts]]
    if others:
        m += [["rule", {}, []], ["pbar", {}, []], ["bar", {}, []]]
    return m


def wrap_leaves(d, wrapper):
    if d[0] in LEAF_KINDS:
        return [wrapper, {}, [d]]
    return [d[0], d[1], [wrap_leaves(k, wrapper) for k in d[2]]]


# ------------------------------------------------------------------ build
def _tup(p):
    return p if isinstance(p, int) or p is None else tuple(p)


class NoMeasure:
    """Renders exactly like its child but has no __rich_measure__."""

    def __init__(self, child):
        self.child = child

    def __rich_console__(self, console, options):
        yield self.child


class Cast:
    """An object that is not renderable itself; __rich__ returns the renderable."""

    def __init__(self, child):
        self.child = child

    def __rich__(self):
        return self.child


def tree_parent(shape, i):
    if shape == "flat":
        return 0
    if shape == "chain":
        return i - 1
    return (i - 1) // 2


def optstr(v):
    """string of a title-like option value: str | {"text": s[, "share": key]} | None"""
    return v["text"] if isinstance(v, dict) else v


def _targ(v, bind):
    """title-like option value -> constructor argument"""
    if not isinstance(v, dict):
        return v
    from rich.text import Text
    key = v.get("share")
    if key is None or bind is None:
        return Text(v["text"], justify=v.get("justify"))     # a caller-owned Text title may carry its own justify
    if key not in bind:
        bind[key] = Text(v["text"], justify=v.get("justify"))
    return bind[key]


def build(d, bind=None):
    kind, o, kids = d
    g = lambda name: dyn(o.get(name, DEFAULTS[kind][name]))  # noqa: E731  (string options as run-time strings)
    if kind == "text":
        from rich.text import Text
        key = o.get("share")
        if key is not None and bind is not None:
            if key not in bind:
                bind[key] = Text(o["s"], justify=g("justify"), overflow=g("overflow"), no_wrap=g("no_wrap"))
            return bind[key]
        return Text(o["s"], justify=g("justify"), overflow=g("overflow"), no_wrap=g("no_wrap"))
    if kind == "rule":
        from rich.rule import Rule
        return Rule(_targ(g("title"), bind), characters=g("characters"), align=g("align"))
    if kind == "bar":
        from rich.bar import Bar
        return Bar(g("size"), g("begin"), g("end"), width=g("width"))
    if kind == "pbar":
        from rich.progress_bar import ProgressBar
        return ProgressBar(total=g("total"), completed=g("completed"), width=g("width"), pulse=g("pulse"),
                           animation_time=0.0)
    if kind == "nomeasure":
        return NoMeasure(build(kids[0], bind))
    if kind == "cast":
        return Cast(build(kids[0], bind))
    if kind == "panel":
        from rich.panel import Panel
        from rich import box
        return Panel(build(kids[0], bind), getattr(box, g("box")), title=_targ(g("title"), bind), title_align=g("title_align"),
                     expand=g("expand"), width=g("width"), padding=_tup(g("padding")))
    if kind == "padding":
        from rich.padding import Padding
        return Padding(build(kids[0], bind), _tup(g("pad")), expand=g("expand"))
    if kind == "align":
        from rich.align import Align
        return Align(build(kids[0], bind), g("align"), pad=g("pad"), width=g("width"))
    if kind == "constrain":
        from rich.constrain import Constrain
        return Constrain(build(kids[0], bind), g("width"))
    if kind == "styled":
        from rich.styled import Styled
        return Styled(build(kids[0], bind), g("style"))
    if kind == "group":
        from rich.console import RenderGroup
        return RenderGroup(*[build(k, bind) for k in kids], fit=g("fit"))
    if kind == "columns":
        from rich.columns import Columns
        return Columns([build(k, bind) for k in kids], padding=_tup(g("padding")), width=g("width"), expand=g("expand"),
                       equal=g("equal"), column_first=g("column_first"), right_to_left=g("right_to_left"),
                       align=g("align"), title=_targ(g("title"), bind))
    if kind == "tree":
        from rich.tree import Tree
        shape = o.get("shape", "flat")
        collapsed = set(g("collapsed"))
        nodes = []
        for i, k in enumerate(kids):
            if i == 0:
                nodes.append(Tree(build(k, bind), expanded=0 not in collapsed))
            else:
                nodes.append(nodes[tree_parent(shape, i)].add(build(k, bind), expanded=i not in collapsed))
        return nodes[0]
    if kind == "table":
        from rich.table import Table
        from rich import box
        ncols = o["ncols"]
        cols = o.get("cols") or [{}] * ncols
        bx = g("box")
        t = Table(title=_targ(g("title"), bind), caption=_targ(g("caption"), bind), width=g("width"), min_width=g("min_width"),
                  box=getattr(box, bx) if bx else None, padding=_tup(g("padding")),
                  collapse_padding=g("collapse_padding"), pad_edge=g("pad_edge"), expand=g("expand"),
                  show_header=g("show_header"), show_footer=g("show_footer"), show_edge=g("show_edge"),
                  show_lines=g("show_lines"), leading=g("leading"))
        cd = DEFAULTS["column"]
        for i in range(ncols):
            c = cols[i]
            hdr, ftr = HEADERS[i % len(HEADERS)], FOOTERS[i % len(FOOTERS)]
            if i == 0 and g("hdr") is not None:
                hdr = _targ(g("hdr"), bind)
            if i == 0 and g("ftr") is not None:
                ftr = _targ(g("ftr"), bind)
            t.add_column(hdr, ftr,
                         **{name: dyn(c.get(name, cd[name])) for name in cd})
        if ncols:
            for r in range(len(kids) // ncols):
                t.add_row(*[build(k, bind) for k in kids[r * ncols:(r + 1) * ncols]])
        return t
    raise ValueError("unknown kind %r" % (kind,))


# ------------------------------------------------------------------ skeleton enumeration
TABLE_SHAPES = {1: [(1, 1)], 2: [(1, 1), (2, 1), (1, 2)], 3: [(1, 1), (2, 1), (1, 2), (3, 1), (1, 3)],
                4: [(1, 1), (2, 1), (1, 2), (3, 1), (1, 3), (2, 2)]}
TREE_SHAPES = {1: ["flat"], 2: ["flat"], 3: ["flat", "chain"], 4: ["flat", "chain", "mixed"]}


def _containers_over(pool, max_children, kinds):
    """every default-option container (one level) whose kids are drawn from `pool`"""
    for kind in kinds:
        if kind in SINGLE_KINDS:
            for k in pool:
                yield [kind, {}, [k]]
        elif kind in ("group", "columns"):
            for n in range(1, max_children + 1):
                for ks in itertools.product(pool, repeat=n):
                    yield [kind, {}, list(ks)]
        elif kind == "tree":
            for n in range(1, max_children + 1):
                for shape in TREE_SHAPES[min(n, 4)]:
                    for ks in itertools.product(pool, repeat=n):
                        yield ["tree", {"shape": shape}, list(ks)]
        elif kind == "table":
            for (nc, nr) in TABLE_SHAPES[min(max_children, 4)]:
                for ks in itertools.product(pool, repeat=nc * nr):
                    yield ["table", {"ncols": nc, "cols": [{}] * nc}, list(ks)]


def skeletons(depth_, max_children, leaves, kinds=CONTAINER_KINDS, inner_leaves=None, exact_depth=False,
              root_kinds=None):
    """All default-option trees of depth <= depth_ (== depth_ with exact_depth) with at most
    `max_children` kids per container.  Leaves directly under the root container come from `leaves`;
    deeper leaves from `inner_leaves` (default: `leaves`); the root's kind from `root_kinds` (default:
    `kinds`).  Invalid placements (see valid()) are skipped.  Only the levels below the root are
    materialised; the root level is generated lazily."""
    inner_leaves = leaves if inner_leaves is None else inner_leaves

    def below(dp):
        """list of all *containers* of depth <= dp whose leaves come from inner_leaves"""
        if dp < 1:
            return []
        pool = list(inner_leaves) + below(dp - 1)
        return [c for c in _containers_over(pool, max_children, kinds) if valid(c)]

    if not exact_depth or depth_ == 0:
        for t in leaves:
            yield t
    if depth_ >= 1:
        pool = list(leaves) + below(depth_ - 1)
        for c in _containers_over(pool, max_children, root_kinds or kinds):
            if not valid(c):
                continue
            if exact_depth and depth(c) != depth_:
                continue
            yield c


def chains(length, leaves, kinds=CONTAINER_KINDS):
    """Every chain c1(c2(...(leaf))) of exactly `length` single-child containers; multi-child kinds
    appear with one kid (table 1x1, tree = a lone root)."""
    def wrap(kind, k):
        if kind == "table":
            return ["table", {"ncols": 1, "cols": [{}]}, [k]]
        if kind == "tree":
            return ["tree", {"shape": "flat"}, [k]]
        return [kind, {}, [k]]
    for ks in itertools.product(kinds, repeat=length):
        for leaf in leaves:
            d = leaf
            for kind in reversed(ks):
                d = wrap(kind, d)
            if valid(d):
                yield d


# ------------------------------------------------------------------ deviations
def sites(d, alts=None, include_fixed=False, _path=(), only=None):
    """[(path, option, [alternative values])]; path = tuple of kid indices from the root; option is a
    name, or ("col", i, name) for a table column option, or ("collapsed", i) for a tree node."""
    kind, o, kids = d
    out = []
    for name, values in ALTS.get(kind, []):
        if (kind, name) in FIXED_OPTIONS and not include_fixed:
            continue
        if name in o:
            continue            # already deviated: not offered again
        if only is not None and name not in only:
            continue
        out.append((_path, name, values[:alts] if alts else values))
    if kind == "table":
        for i in range(o["ncols"]):
            for name, values in ALTS["column"]:
                if ("column", name) in FIXED_OPTIONS and not include_fixed:
                    continue
                if name in o["cols"][i] or (only is not None and name not in only):
                    continue
                out.append((_path, ("col", i, name), values[:alts] if alts else values))
    if kind == "tree":
        for i in range(len(kids)):
            if i not in o.get("collapsed", []) and (only is None or "collapsed" in only):
                out.append((_path, ("collapsed", i), [True]))
    for i, k in enumerate(kids):
        out.extend(sites(k, alts, include_fixed, _path + (i,), only))
    return out


def set_option(d, path, name, value):
    """new description (structure shared with d outside the path) with one option changed"""
    kind, o, kids = d
    if path:
        i = path[0]
        nk = list(kids)
        nk[i] = set_option(kids[i], path[1:], name, value)
        return [kind, o, nk]
    no = dict(o)
    if isinstance(name, tuple) and name[0] == "col":
        cols = [dict(c) for c in o["cols"]]
        cols[name[1]][name[2]] = value
        no["cols"] = cols
    elif isinstance(name, tuple) and name[0] == "collapsed":
        no["collapsed"] = sorted(set(o.get("collapsed", [])) | {name[1]})
    else:
        no[name] = value
    return [kind, no, kids]


def variants(d, k, alts=None, include_fixed=False, exactly=False, only=None):
    """Every description reachable from d by choosing j <= k distinct option sites (j == k with
    `exactly`) and one alternative value for each.  j = 0 yields d itself."""
    ss = sites(d, alts, include_fixed, only=only)
    for j in range(k if exactly else 0, k + 1):
        for combo in itertools.combinations(ss, j):
            for vals in itertools.product(*[c[2] for c in combo]):
                t = d
                for (path, name, _), v in zip(combo, vals):
                    t = set_option(t, path, name, v)
                yield t


# ------------------------------------------------------------------ families (the C01 tree space)
def _fam(name, **kw):
    kw["name"] = name
    return kw


def families(tier, seed=0, include_fixed=False):
    """The tree space of a tier as an ordered list of families.  Each family is exhaustive:
    base trees (skeletons or chains) x every choice of exactly `dev` deviations (`dev` is a list of
    deviation counts) with the first `alts` alternatives per option.

    quick     D1: depth<=1, <=2 kids, 6 texts + rule/pbar/bar, 0..1 deviations, 2 alternatives/option
              D1x2: depth<=1, <=2 kids, 3 texts + rule/pbar, exactly 2 deviations, 1 alternative/option
              D2: depth 2, <=2 kids, 2 texts (+ rule/pbar/bar directly under the root), default options
              D2x1: depth 2 with a single-kid root over 2 texts, exactly 1 deviation, 1 alternative
              CH3 / CH4: all 9^3 (3 leaves) / 9^4 (2 leaves) single-kid chains, default options
              ROT: rotating slice (seed mod 9): D1 with 0..2 deviations over one further leaf string
    thorough  D1: depth<=1, <=3 kids, all 14 texts + rule/pbar/bar, default options
              D1x1 / D1x2 / D1x3: depth<=1, <=2 kids, exactly 1 / 2 / 3 deviations over 14 / 5 / 2 texts
                    (+ rule/pbar/bar for 1 and 2) with all / 2 / 1 alternatives per option
              D2: depth 2, <=2 kids, 4 texts + rule/pbar/bar under the root, 3 texts below, default options
              D2x1: depth 2, <=2 kids, 2 texts under the root, 1 text below, exactly 1 deviation
              D2x2: depth 2 single-kid containers over 2 texts, exactly 2 deviations
              D3: depth 3, <=2 kids, single-kid root, 1 text, default options
              CH3: 9^3 chains x 14 texts; CH4: 9^4 chains x 5 texts; CH4x1: 9^4 chains x 1 text, exactly 1 deviation
    both      CON: Tree of 3 nodes (flat, chain) and 4 nodes (flat, chain, mixed) x labels over {"a\\nbb c", "ab cd",
                  Panel("ab cd")}; meant to be rendered on all of CONSOLE_KINDS
              WT: {panel, align, constrain} over {2 texts, rule, panel, columns, 1x1 table} (with include_fixed also
                  table / columns over a text), 0..2 (thorough 0..3) deviations among the options width / title /
                  caption / expand with ALL their alternatives (widths include 50 = above most available widths)
              SH: group [host, t, other] where the text leaf t and an argument or kid of the host carry the same
                  "share" key: hosts = SHARE_HOSTS (title / caption / header / footer / label / kid slots) x SHARE_TEXTS.
                  build(desc) gives copies, build(desc, bind={}) gives the one-object form (see C01 / C09)
    include_fixed additionally offers FIXED_OPTIONS in every family with deviations and adds the family ZT
    (zero-column / zero-row tables, alone and inside each single-kid container, 0..1 deviations)."""
    fx = bool(include_fixed)
    F = []
    if tier == "quick":
        F.append(_fam("D1", base="skel", depth=1, kids=2, texts=6, others=True, dev=[0, 1], alts=2, fixed=fx))
        F.append(_fam("D1x2", base="skel", depth=1, kids=2, texts=3, others=2, dev=[2], alts=1, fixed=fx))
        F.append(_fam("D2", base="skel", depth=2, kids=2, texts=2, others=True, inner_texts=2, inner_others=False,
                      exact=True, dev=[0], alts=1, fixed=fx))
        F.append(_fam("D2x1", base="skel", depth=2, kids=1, texts=2, others=False, exact=True, dev=[1], alts=1,
                      fixed=fx))
        F.append(_fam("CH3", base="chain", length=3, texts=3, dev=[0], alts=1, fixed=fx))
        F.append(_fam("CH4", base="chain", length=4, texts=2, dev=[0], alts=1, fixed=fx))
        r = seed % (len(TEXTS) - 6)
        F.append(_fam("ROT%d" % r, base="skel", depth=1, kids=2, text_list=[TEXTS[6 + r]], others=False,
                      dev=[0, 1, 2], alts=1, fixed=fx))
    else:
        F.append(_fam("D1", base="skel", depth=1, kids=3, texts=15, others=True, dev=[0], alts=None, fixed=fx))
        F.append(_fam("D1x1", base="skel", depth=1, kids=2, texts=15, others=True, dev=[1], alts=None, fixed=fx))
        F.append(_fam("D1x2", base="skel", depth=1, kids=2, texts=5, others=True, dev=[2], alts=2, fixed=fx))
        F.append(_fam("D1x3", base="skel", depth=1, kids=2, texts=2, others=False, dev=[3], alts=1, fixed=fx))
        F.append(_fam("D2", base="skel", depth=2, kids=2, texts=4, others=True, inner_texts=3, inner_others=False,
                      exact=True, dev=[0], alts=1, fixed=fx))
        F.append(_fam("D2x1", base="skel", depth=2, kids=2, texts=2, others=False, inner_texts=1, inner_others=False,
                      exact=True, dev=[1], alts=1, fixed=fx))
        F.append(_fam("D2x2", base="skel", depth=2, kids=1, texts=2, others=False, exact=True, dev=[2], alts=1,
                      fixed=fx))
        F.append(_fam("D3", base="skel", depth=3, kids=2, texts=1, others=False, exact=True, dev=[0], alts=1,
                      fixed=fx, root_single=True))
        F.append(_fam("CH3", base="chain", length=3, texts=15, dev=[0], alts=1, fixed=fx))
        F.append(_fam("CH4", base="chain", length=4, texts=5, dev=[0], alts=1, fixed=fx))
        F.append(_fam("CH4x1", base="chain", length=4, texts=1, dev=[1], alts=1, fixed=fx))
    # both tiers: fixed `width=` options (incl. values above the available width) x titles x expand, all alternatives
    F.append(_fam("WT", base="wt", dev=[0, 1, 2] if tier == "quick" else [0, 1, 2, 3], alts=None, fixed=fx,
                  only=["width", "title", "caption", "expand"]))
    # both tiers: console dimension -- trees of 3 and 4 nodes, every shape, labels incl. multi-line text and a panel;
    # the checks render this family on the utf8, ascii-only and legacy_windows consoles (guides / boxes differ)
    F.append(_fam("CON", base="con", dev=[0], alts=1, fixed=fx))
    # both tiers: ONE Text object used as an argument / kid of a host and again as its sibling (shared-argument histories)
    F.append(_fam("SH", base="shared", dev=[0], alts=1, fixed=fx))
    if fx:
        F.append(_fam("ZT", base="zero", dev=[0, 1], alts=2, fixed=True))
    return F


def _fam_leaves(fam, key_texts="texts", key_others="others"):
    if "text_list" in fam and key_texts == "texts":
        m = [T(s) for s in fam["text_list"]]
    else:
        m = [T(s) for s in TEXTS[:fam[key_texts]]]
    oth = fam.get(key_others, False)
    if oth:
        extra = [["rule", {}, []], ["pbar", {}, []], ["bar", {}, []]]
        m += extra if oth is True else extra[:oth]
    return m


def _zero_tables():
    zs = [["table", {"ncols": 0, "cols": []}, []],
          ["table", {"ncols": 1, "cols": [{}]}, []],
          ["table", {"ncols": 2, "cols": [{}, {}]}, []]]
    for z in zs:
        yield z
        for kind in SINGLE_KINDS:
            yield [kind, {}, [z]]
        yield ["group", {}, [z, T("ab cd")]]
        yield ["columns", {}, [z, T("ab cd")]]
        yield ["tree", {"shape": "flat"}, [T("ab cd"), z]]
        yield ["table", {"ncols": 1, "cols": [{}]}, [z]]


SHARE_TEXTS = ["Status", "a long title here", WIDE_IN + " t", "ab\ncd"]
SHARE_OTHER = "other words here"


def share_hosts(s):
    """(slot name, host description) for every place a caller-owned Text(s) can be handed to a host"""
    a = {"text": s, "share": "t"}                     # as an argument
    k = ["text", {"s": s, "share": "t"}, []]          # as a kid
    body = T("body x")
    one = {"ncols": 1, "cols": [{}]}
    return [
        ("panel.title", ["panel", {"title": a}, [body]]),
        ("panel.title+fit", ["panel", {"title": a, "expand": False}, [body]]),
        ("rule.title", ["rule", {"title": a}, []]),
        ("table.title", ["table", dict(one, title=a), [body]]),
        ("table.caption", ["table", dict(one, caption=a), [body]]),
        ("table.header", ["table", dict(one, hdr=a), [body]]),
        ("table.footer", ["table", dict(one, ftr=a, show_footer=True), [body]]),
        ("columns.title", ["columns", {"title": a}, [body, body]]),
        ("panel.kid", ["panel", {}, [k]]),
        ("padding.kid", ["padding", {}, [k]]),
        ("align.kid", ["align", {"align": "center"}, [k]]),
        ("constrain.kid", ["constrain", {"width": 6}, [k]]),
        ("styled.kid", ["styled", {"style": "on blue"}, [k]]),
        ("table.cell", ["table", dict(one), [k]]),
        ("columns.item", ["columns", {}, [k, body]]),
        ("tree.label", ["tree", {"shape": "flat"}, [k, body]]),
        ("tree.child", ["tree", {"shape": "flat"}, [body, k]]),
    ]


def share_slot(d):
    """slot name of an SH description"""
    s = d[2][1][1]["s"]
    for name, host in share_hosts(s):
        if host == d[2][0]:
            return name
    return "?"


def _shared_groups():
    for s in SHARE_TEXTS:
        for _name, host in share_hosts(s):
            yield ["group", {}, [host, ["text", {"s": s, "share": "t"}, []], T(SHARE_OTHER)]]


def _wt_bases(fixed):
    leaves = [T(s) for s in TEXTS[:2]]
    one = {"ncols": 1, "cols": [{}]}
    inner = [["rule", {}, []], ["panel", {}, [leaves[0]]], ["columns", {}, [leaves[0]]],
             ["table", dict(one), [leaves[0]]]]
    for x in ("panel", "align", "constrain"):
        for k in leaves + inner:
            yield [x, {}, [k]]
    if fixed:
        yield ["table", dict(one), [leaves[0]]]
        yield ["columns", {}, [leaves[0], leaves[1]]]


def _con_trees():
    labels = [T("a\nbb c"), T("ab cd"), ["panel", {}, [T("ab cd")]]]
    for n in (3, 4):
        for shape in TREE_SHAPES[n]:
            for ks in itertools.product(labels, repeat=n):
                yield ["tree", {"shape": shape}, list(ks)]


def family_bases(fam):
    if fam["base"] == "con":
        return _con_trees()
    if fam["base"] == "wt":
        return _wt_bases(fam["fixed"])
    if fam["base"] == "shared":
        return _shared_groups()
    if fam["base"] == "chain":
        return chains(fam["length"], [T(s) for s in TEXTS[:fam["texts"]]])
    if fam["base"] == "zero":
        return _zero_tables()
    leaves = _fam_leaves(fam)
    inner = _fam_leaves(fam, "inner_texts", "inner_others") if "inner_texts" in fam else None
    return skeletons(fam["depth"], fam["kids"], leaves, inner_leaves=inner, exact_depth=fam.get("exact", False),
                     root_kinds=SINGLE_KINDS if fam.get("root_single") else None)


def family_trees(fam):
    devs = fam["dev"]
    for base in family_bases(fam):
        for k in devs:
            if k == 0:
                yield base
            else:
                for t in variants(base, k, fam["alts"], fam["fixed"], exactly=True, only=fam.get("only")):
                    yield t


def family_size(fam):
    return sum(1 for _ in family_trees(fam))


def trees(tier, seed=0, include_fixed=False):
    for fam in families(tier, seed, include_fixed):
        for t in family_trees(fam):
            yield fam["name"], t
