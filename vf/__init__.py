"""vf -- bounded-exhaustive model checking of willmcgugan/rich (see ../DESIGN.md)."""
import os
import sys

ROOT = os.path.dirname(os.path.dirname(os.path.abspath(__file__)))


def use_repo():
    """Make `import rich` resolve to VF_REPO (default: /repo, already on sys.path
    through the editable install). A scratch worktree can be checked with
    VF_REPO=/tmp/x python -m vf check ..."""
    repo = os.environ.get("VF_REPO")
    if repo and repo not in sys.path[:1]:
        sys.path.insert(0, repo)
    return repo or "/repo"


def dyn(v):
    """An equal but NOT identical (not interned) copy of a string option value, as a program gets from a
    config file, argv or JSON: `x is "fold"` style identity tests in the library then behave as they do for such
    callers. One-character strings are cached by CPython and returned as they are."""
    if type(v) is str and len(v) > 1:
        return (v + "\0")[:-1]
    return v
