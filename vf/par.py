"""Fork pool over deterministic shards + result aggregation.

A check module provides
    plan(tier, seed)              -> list of shard descriptors (picklable, deterministic)
    run_shard(shard, tier, seed)  -> Result
Each worker is a forked process; a worker handles one shard at a time
(maxtasksperchild=1 on request, so object-level caches start cold per shard).
"""
import json
import multiprocessing as mp
import os
import signal
import sys
import time
import traceback


class Result:
    """What one shard reports. Everything is plain data."""

    __slots__ = ("evaluations", "sigs", "violations", "vcount", "samples",
                 "counters", "capped", "nontrivial")

    def __init__(self):
        self.evaluations = 0
        self.sigs = {}        # outcome signature -> count
        self.nontrivial = set()  # signatures that are non-trivial by the check's rule
        self.violations = {}  # key -> (size, case_json, detail)
        self.vcount = {}      # key -> count
        self.samples = []
        self.counters = {}
        self.capped = False

    def sig(self, s, nontrivial=True):
        self.sigs[s] = self.sigs.get(s, 0) + 1
        if nontrivial:
            self.nontrivial.add(s)

    def count(self, name, n=1):
        self.counters[name] = self.counters.get(name, 0) + n

    def sample(self, case, limit=3):
        if len(self.samples) < limit:
            self.samples.append(case)

    def violate(self, key, case, detail):
        """Record a violation under finding key `key`. Per key the smallest case
        (by JSON length, then lexicographically) is kept: deterministic and
        close to minimal because alphabets are ordered simplest first."""
        cj = json.dumps(case, sort_keys=True, ensure_ascii=True, default=repr)
        self.vcount[key] = self.vcount.get(key, 0) + 1
        cand = (len(cj), cj, str(detail)[:2000])
        old = self.violations.get(key)
        if old is None or cand[:2] < old[:2]:
            self.violations[key] = cand

    def merge(self, other):
        self.evaluations += other.evaluations
        for k, v in other.sigs.items():
            self.sigs[k] = self.sigs.get(k, 0) + v
        self.nontrivial |= other.nontrivial
        for k, v in other.vcount.items():
            self.vcount[k] = self.vcount.get(k, 0) + v
        for k, cand in other.violations.items():
            old = self.violations.get(k)
            if old is None or cand[:2] < old[:2]:
                self.violations[k] = cand
        for s in other.samples:
            if len(self.samples) < 6:
                self.samples.append(s)
        for k, v in other.counters.items():
            if isinstance(v, (int, float)):
                if k.startswith("max_"):
                    self.counters[k] = max(self.counters.get(k, v), v)
                else:
                    self.counters[k] = self.counters.get(k, 0) + v
            elif isinstance(v, (set, frozenset)):
                self.counters[k] = set(self.counters.get(k, set())) | set(v)
            else:
                self.counters[k] = v
        self.capped = self.capped or other.capped


class MachineryError(Exception):
    """The checking machinery itself failed (exit 2) -- never a verdict."""


_DEADLINE = [None]


def deadline_passed():
    d = _DEADLINE[0]
    return d is not None and time.time() > d


def _work(args):
    modname, shard, tier, seed, deadline = args
    _DEADLINE[0] = deadline
    try:
        mod = __import__(modname, fromlist=["x"])
        if deadline is not None and time.time() > deadline:
            r = Result()
            r.capped = True
            r.count("shards_skipped_by_cap")
            return ("ok", r)
        r = mod.run_shard(shard, tier, seed)
        return ("ok", r)
    except BaseException:
        return ("err", "shard %r: %s" % (shard, traceback.format_exc()))


def run(modname, shards, tier, seed, workers=None, cap_s=None, fresh_worker_per_shard=False):
    """Run all shards; returns the merged Result. Raises MachineryError when a
    shard crashed (as opposed to reporting violations)."""
    workers = workers or int(os.environ.get("VF_WORKERS", "0")) or (os.cpu_count() or 4)
    workers = max(1, min(workers, len(shards))) if shards else 1
    deadline = time.time() + cap_s if cap_s else None
    total = Result()
    # rotate hand-out order by seed: never changes what is explored
    if shards:
        k = seed % len(shards)
        order = shards[k:] + shards[:k]
    else:
        order = []
    jobs = [(modname, s, tier, seed, deadline) for s in order]
    errors = []
    if workers == 1 or os.environ.get("VF_INPROC"):
        for j in jobs:
            st, r = _work(j)
            if st == "ok":
                total.merge(r)
            else:
                errors.append(r)
    else:
        ctx = mp.get_context("fork")
        with ctx.Pool(workers, maxtasksperchild=1 if fresh_worker_per_shard else None) as pool:
            for st, r in pool.imap_unordered(_work, jobs, chunksize=1):
                if st == "ok":
                    total.merge(r)
                else:
                    errors.append(r)
    if errors:
        raise MachineryError("\n".join(errors[:3]))
    return total


class CaseTimeout(BaseException):
    pass


class alarm:
    """with alarm(5): ...  -> raises CaseTimeout in the main thread of a worker."""

    def __init__(self, seconds):
        self.seconds = seconds

    def _h(self, signum, frame):
        raise CaseTimeout()

    def __enter__(self):
        self.old = signal.signal(signal.SIGALRM, self._h)
        signal.setitimer(signal.ITIMER_REAL, self.seconds)

    def __exit__(self, *a):
        signal.setitimer(signal.ITIMER_REAL, 0)
        signal.signal(signal.SIGALRM, self.old)
        return False


def split_round_robin(n_items, n_shards):
    return [{"i": i, "n": n_shards} for i in range(n_shards)]
