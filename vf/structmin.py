"""struct_min(desc): the conservative structural-minimum width of a renderable-tree
description (vf/gen.py format), DESIGN section 3 / C01:

    "its borders and padding plus room for one character (two if double-width
     characters occur) in every innermost column"

It is computed from the *description* alone (never from Rich's measurements).  It may err on the
large side (that only removes a few widths from the judged range), never on the small side:
wherever the statement is vague (titles, collapsed/edge padding, min_width columns) the larger
reading is taken.

    text          2 if the string has a double-width character else 1
    rule          2 if title or characters have a double-width character else 1
    bar, pbar     1
    nomeasure, cast, align, constrain, styled     the child
    padding       child + left + right
    panel         max(child + 2 + pad_left + pad_right, 4 + widest title character + 2)
    group         max over children
    columns       max over children (one column is always possible; edge padding is dropped), title's own minimum
    tree          max over nodes shown (4 * depth + label); a node below a collapsed ancestor is not shown
    table         sum over columns of (max(1, cell minima, header/footer minima, min_width) + left + right padding,
                  the non-first left padding reduced by collapse_padding, pad_edge NOT deducted)
                  + 2 if box and show_edge + (ncols - 1) if box; at least the title's / caption's own minimum
"""
from .width import cw
from . import gen


def _wide(s):
    return any(cw(c) == 2 for c in s)


def _text_min(s):
    return 2 if _wide(s) else 1


def unpack(pad):
    """CSS-style padding -> (top, right, bottom, left)"""
    if isinstance(pad, int):
        return (pad, pad, pad, pad)
    pad = tuple(pad)
    if len(pad) == 1:
        return (pad[0],) * 4
    if len(pad) == 2:
        return (pad[0], pad[1], pad[0], pad[1])
    return pad


def struct_min(d):
    kind, o, kids = d
    g = lambda name: o.get(name, gen.DEFAULTS[kind][name])  # noqa: E731
    if kind == "text":
        return _text_min(o["s"])
    if kind == "rule":
        return 2 if _wide(gen.optstr(g("title")) or "") or _wide(g("characters")) else 1
    if kind in ("bar", "pbar"):
        return 1
    if kind in ("nomeasure", "cast", "align", "constrain", "styled"):
        return struct_min(kids[0])
    if kind == "padding":
        _, r, _, l = unpack(g("pad"))
        return struct_min(kids[0]) + l + r
    if kind == "panel":
        _, r, _, l = unpack(g("padding"))
        m = struct_min(kids[0]) + 2 + l + r
        title = gen.optstr(g("title"))
        if title:
            m = max(m, 4 + max(cw(c) for c in title) + 2)
        return m
    if kind == "group":
        return max([struct_min(k) for k in kids] or [1])
    if kind == "columns":
        m = max([struct_min(k) for k in kids] or [1])
        if g("title"):
            m = max(m, _text_min(gen.optstr(g("title"))))
        return m
    if kind == "tree":
        shape = o.get("shape", "flat")
        collapsed = set(g("collapsed"))
        level = {}
        shown = {}
        m = 1
        for i, k in enumerate(kids):
            if i == 0:
                level[i], shown[i] = 0, True
            else:
                p = gen.tree_parent(shape, i)
                level[i] = level[p] + 1
                shown[i] = shown[p] and p not in collapsed
            if shown[i]:
                m = max(m, 4 * level[i] + struct_min(k))
        return m
    if kind == "table":
        ncols = o["ncols"]
        cols = o.get("cols") or [{}] * ncols
        nrows = len(kids) // ncols if ncols else 0
        _, pr, _, pl = unpack(g("padding"))
        total = 0
        for i in range(ncols):
            cm = max(1, _text_min(gen.HEADERS[i % len(gen.HEADERS)]), _text_min(gen.FOOTERS[i % len(gen.FOOTERS)]))
            if i == 0:
                for name in ("hdr", "ftr"):
                    if g(name) is not None:
                        cm = max(cm, _text_min(gen.optstr(g(name))))
            for r in range(nrows):
                cm = max(cm, struct_min(kids[r * ncols + i]))
            mw = cols[i].get("min_width")
            if mw:
                cm = max(cm, mw)
            w = cols[i].get("width")
            if w:
                cm = max(cm, w)
            left = max(0, pl - pr) if (g("collapse_padding") and i > 0) else pl
            total += cm + left + pr
        if g("box"):
            total += (2 if g("show_edge") else 0) + max(0, ncols - 1)
        for name in ("title", "caption"):
            if g(name):
                total = max(total, _text_min(gen.optstr(g(name))))
        return max(1, total)
    raise ValueError("unknown kind %r" % (kind,))
