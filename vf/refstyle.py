"""RefStyle: the reference model of a style -- a dict of explicitly specified
attributes, a canonical foreground/background and a link. "Right wins where it
specifies." Built from rich Styles through public accessors only."""

ATTRS = ("bold", "dim", "italic", "underline", "blink", "blink2", "reverse",
         "conceal", "strike", "underline2", "frame", "encircle", "overline")


def canon_color(color):
    """rich.color.Color -> canonical tuple (what its SGR means), or None."""
    if color is None:
        return None
    t = color.type.name
    if t == "DEFAULT":
        return ("default",)
    if t in ("STANDARD", "WINDOWS"):
        return ("std", color.number)
    if t == "EIGHT_BIT":
        return ("idx", color.number)
    if t == "TRUECOLOR":
        tr = color.triplet
        return ("rgb", tr[0], tr[1], tr[2])
    raise ValueError(t)


class RefStyle:
    __slots__ = ("attrs", "color", "bgcolor", "link")

    def __init__(self, attrs=None, color=None, bgcolor=None, link=None):
        self.attrs = dict(attrs or {})
        self.color = color
        self.bgcolor = bgcolor
        self.link = link or None

    @classmethod
    def from_rich(cls, style, system=None):
        """style: rich Style or None. system: optional ColorSystem to down-convert colours to
        (uses Color.downgrade, the documented conversion decided separately by C18)."""
        if style is None:
            return cls()
        attrs = {}
        for a in ATTRS:
            v = getattr(style, a)
            if v is not None:
                attrs[a] = bool(v)
        c, b = style.color, style.bgcolor
        if system is not None:
            c = c.downgrade(system) if c is not None else None
            b = b.downgrade(system) if b is not None else None
        return cls(attrs, canon_color(c), canon_color(b), style.link)

    def __add__(self, other):
        if other is None:
            return self
        attrs = dict(self.attrs)
        attrs.update(other.attrs)
        return RefStyle(attrs,
                        other.color if other.color is not None else self.color,
                        other.bgcolor if other.bgcolor is not None else self.bgcolor,
                        other.link if other.link else self.link)

    def key(self):
        """exact (tri-state) identity"""
        return (tuple(sorted(self.attrs.items())), self.color, self.bgcolor, self.link)

    def visible(self, color=True, link=True):
        """what a terminal shows: attributes that are on, colours with default == unset."""
        fg = self.color if color and self.color != ("default",) else None
        bg = self.bgcolor if color and self.bgcolor != ("default",) else None
        return (tuple(sorted(a for a, v in self.attrs.items() if v)), fg, bg, self.link if link else None)

    def __eq__(self, other):
        return isinstance(other, RefStyle) and self.key() == other.key()

    def __hash__(self):
        return hash(self.key())

    def __repr__(self):
        parts = [("" if v else "not ") + a for a, v in sorted(self.attrs.items())]
        if self.color:
            parts.append("fg=%s" % (self.color,))
        if self.bgcolor:
            parts.append("bg=%s" % (self.bgcolor,))
        if self.link:
            parts.append("link=%s" % self.link)
        return "<Ref %s>" % (" ".join(parts) or "null")


NULL = RefStyle()
