"""known_findings.txt: committed list of genuine defects that are recorded rather
than repaired ("known:") and of repaired ones ("fixed:"). Never written at run time.

    known: property=C10 key=<finding key> :: <what fails>
    fixed: property=C06 <commit> <what failed>

A "fixed:" line suppresses nothing. A "known:" line suppresses exactly the
violations whose finding key equals its key; every other key is reported.
"""
import os
import re

from . import ROOT

PATH = os.path.join(ROOT, "known_findings.txt")
_RE_KNOWN = re.compile(r"^known:\s+property=(C\d+)\s+key=(\S+)\s*(?:::)?\s*(.*)$")
_RE_FIXED = re.compile(r"^fixed:\s+property=(C\d+)\s+(\S+)\s+(.*)$")


def load(path=PATH):
    known = {}
    fixed = []
    if not os.path.exists(path):
        return known, fixed
    with open(path, encoding="utf-8") as f:
        for line in f:
            line = line.strip()
            if not line or line.startswith("#"):
                continue
            m = _RE_KNOWN.match(line)
            if m:
                known[(m.group(1), m.group(2))] = m.group(3)
                continue
            m = _RE_FIXED.match(line)
            if m:
                fixed.append((m.group(1), m.group(2), m.group(3)))
                continue
            raise ValueError("known_findings.txt: unparsable line: %r" % line)
    return known, fixed
