"""Reference cell-width oracle: Rich's width *table data* scanned linearly into a
flat bytearray (no binary search, no cache, no ASCII shortcut). The property
(C13) is about lookup and arithmetic, not about the table's Unicode correctness."""
_W = None
_PROBLEMS = []


def _build():
    global _W
    from rich._cell_widths import CELL_WIDTHS
    w = bytearray(b"\x01") * 0x110000
    prev_end = -1
    for start, end, width in CELL_WIDTHS:
        if start <= prev_end:
            _PROBLEMS.append("table not sorted/disjoint at %x" % start)
        if end < start:
            _PROBLEMS.append("empty range at %x" % start)
        if width not in (-1, 0, 1, 2):
            _PROBLEMS.append("width %r at %x" % (width, start))
        prev_end = max(prev_end, end)
        v = 0 if width == -1 else width
        for cp in range(start, min(end, 0x10FFFF) + 1):
            w[cp] = v
    _W = w


def table():
    if _W is None:
        _build()
    return _W


def table_problems():
    table()
    return list(_PROBLEMS)


def cw(ch):
    """cells of one character"""
    return table()[ord(ch)]


def sw(s):
    """cells of a string"""
    t = table()
    return sum(t[ord(c)] for c in s)
