"""RefText: the reference model of a styled text -- an ordinary Python list of
(character, style) plus a base style -- and the editing operations of
rich.text.Text written as ordinary list / str operations on it.

    chars : list of (ch, st)   st = the EFFECTIVE RefStyle of the character (base
                               style overlaid by every style applied to it, in
                               order, "right wins where it specifies"), or WILD
                               (None) when the property statement puts no
                               obligation on the style of that character
                               (characters *invented* by an operation: the
                               ellipsis, the space that replaces a halved wide
                               character, tab-expansion spaces, text written
                               through the `plain` setter)
    base  : RefStyle           the style of the Text as a whole: what newly added
                               characters start from

Nothing here imports rich.text. Cell widths come from vf/width.py (raw table scan),
styles are vf/refstyle.RefStyle values. Offsets follow Python slice semantics
(negative = from the end, clamped at both ends). Every operation says in its
docstring which ordinary-string operation it is.

Padding (pad*, set_length, align, truncate(pad=True), fit) inserts characters that
lie in no span: they show the base style only.

Operations whose result may legitimately vary (a zero-width character exactly at
a cell-crop boundary may be kept or dropped) take `observed=<plain string the
implementation produced>` and choose the tolerated variant that matches it; when
none matches they return the canonical variant and the caller reports the
difference.
"""
import re

from .refstyle import RefStyle, NULL
from .width import cw

WILD = None
STRIPPED = "\x08\x0b\x0c\r"          # documented: backspace, vertical tab, form feed, carriage return


class RefIndexError(Exception):
    """The ordinary-string operation raises IndexError here."""


def strip_control(s):
    return "".join(c for c in s if c not in STRIPPED)


_INTERN = {}
_SUM = {}


def intern(rs):
    """one canonical instance per RefStyle value (so that equal styles are identical objects)"""
    if rs is WILD:
        return WILD
    k = rs.key()
    got = _INTERN.get(k)
    if got is None:
        got = _INTERN[k] = rs
    return got


NULL = intern(NULL)


def _add(a, b):
    """style a overlaid by b (both interned); WILD is absorbing"""
    if a is WILD or b is WILD:
        return WILD
    if b is NULL or a is b:
        return a
    if a is NULL:
        return b
    k = (id(a), id(b))
    got = _SUM.get(k)
    if got is None:
        got = _SUM[k] = intern(a + b)
    return got


class RefText:
    __slots__ = ("chars", "base")

    def __init__(self, chars=(), base=NULL):
        self.chars = list(chars)
        self.base = intern(base)

    # ------------------------------------------------------------ construction
    @classmethod
    def from_str(cls, s, base=NULL, spans=()):
        """Text(s, style=base, spans=...): control codes stripped, spans (start, end,
        RefStyle) index the stripped string and apply in list order."""
        base = intern(base)
        t = cls([(c, base) for c in strip_control(s)], base)
        for a, b, st in spans:
            t._paint(a, b, st)
        return t

    @classmethod
    def assemble(cls, parts, base=NULL):
        """Text.assemble(*parts, style=base); a part is str | (str, RefStyle|None) | RefText"""
        t = cls([], base)
        for p in parts:
            if isinstance(p, RefText):
                t.append_ref(p)
            elif isinstance(p, str):
                t.append_str(p)
            else:
                t.append_str(p[0], p[1])
        return t

    def copy(self):
        return RefText(self.chars, self.base)

    # ------------------------------------------------------------ observation
    @property
    def plain(self):
        return "".join(c for c, _ in self.chars)

    def __len__(self):
        return len(self.chars)

    def cells(self):
        return sum(cw(c) for c, _ in self.chars)

    def effective(self):
        """[(ch, RefStyle | WILD)]"""
        return list(self.chars)

    def wild_mask(self):
        return tuple(st is WILD for _, st in self.chars)

    def __eq__(self, other):
        return isinstance(other, RefText) and self.base == other.base and self.chars == other.chars

    def __repr__(self):
        return "<RefText %r base=%r %r>" % (self.plain, self.base,
                                            [("?" if st is WILD else repr(st)) for _, st in self.chars])

    # ------------------------------------------------------------ helpers
    def _paint(self, a, b, style):
        style = intern(style)
        ch = self.chars
        for i in range(max(a, 0), min(b, len(ch))):
            c, st = ch[i]
            if st is not WILD:
                ch[i] = (c, _add(st, style))

    # ------------------------------------------------------------ styling only
    def stylize(self, style, start=0, end=None):
        """style the characters s[start:end] (Python slice semantics)"""
        n = len(self.chars)
        if start < 0:
            start = max(n + start, 0)
        if end is None:
            end = n
        elif end < 0:
            end = n + end
        self._paint(start, end, style)

    def highlight_words(self, words, style, case_sensitive=True):
        pat = "|".join(re.escape(w) for w in words)
        for m in re.finditer(pat, self.plain, 0 if case_sensitive else re.IGNORECASE):
            self._paint(m.start(), m.end(), style)

    def highlight_regex(self, pattern, style=None, group_styles=None):
        """whole match gets `style` (if given), then every named group that took
        part gets group_styles[name]; in match order"""
        for m in re.finditer(pattern, self.plain):
            if style is not None and m.end() > m.start():
                self._paint(m.start(), m.end(), style)
            for name in m.groupdict():
                a, b = m.span(name)
                if a != -1 and b > a:
                    self._paint(a, b, group_styles[name])

    def copy_styles(self, other):
        """the styles of an equally long text WITHOUT base style are laid over this one"""
        assert other.base == NULL
        for i, (c, st) in enumerate(self.chars):
            if i < len(other.chars):
                self.chars[i] = (c, _add(st, other.chars[i][1]))

    # ------------------------------------------------------------ appending
    def append_str(self, s, style=None):
        """s + strip_control(t), new characters carry `style`"""
        st = _add(self.base, NULL if style is None else intern(style))
        self.chars.extend((c, st) for c in strip_control(s))

    def append_tokens(self, tokens):
        for s, style in tokens:
            st = _add(self.base, NULL if style is None else intern(style))
            self.chars.extend((c, st) for c in s)

    def append_ref(self, other):
        """s + t; the appended characters lie inside this text now: its base overlaid
        by the effective style they had"""
        b = self.base
        self.chars.extend((c, _add(b, st)) for c, st in other.chars)

    def concat(self, other_or_str):
        """self + x -> new"""
        t = self.copy()
        if isinstance(other_or_str, RefText):
            t.append_ref(other_or_str)
        else:
            t.append_str(other_or_str)
        return t

    @staticmethod
    def join(sep, items):
        """sep.join(items) -> new text with sep's base"""
        out = RefText([], sep.base)
        items = list(items)
        for i, it in enumerate(items):
            if i and sep.chars:
                out.append_ref(sep)
            out.append_ref(it)
        return out

    # ------------------------------------------------------------ padding / cropping by characters
    def pad_left(self, count, ch=" "):
        """ch*count + s"""
        if count > 0:
            self.chars[:0] = [(ch, self.base)] * count

    def pad_right(self, count, ch=" "):
        """s + ch*count"""
        if count > 0:
            self.chars.extend([(ch, self.base)] * count)

    def pad(self, count, ch=" "):
        self.pad_left(count, ch)
        self.pad_right(count, ch)

    def right_crop(self, amount=1):
        """s[:len(s)-amount] (nothing left when amount >= len)"""
        self.chars = self.chars[:max(len(self.chars) - amount, 0)]

    def set_length(self, n):
        """s[:n].ljust(n)"""
        k = len(self.chars)
        if k < n:
            self.pad_right(n - k)
        else:
            self.chars = self.chars[:n]

    def rstrip(self):
        """s.rstrip()"""
        self.chars = self.chars[:len(self.plain.rstrip())]

    def rstrip_end(self, size):
        """remove trailing whitespace, but never below `size` characters"""
        n = len(self.chars)
        if n > size:
            ws = n - len(self.plain.rstrip())
            self.right_crop(min(ws, n - size))

    def remove_suffix(self, suffix):
        """s.removesuffix(suffix)"""
        if suffix and self.plain.endswith(suffix):
            self.right_crop(len(suffix))

    def set_plain(self, new):
        """text.plain = new: the common prefix survives with its styles, everything
        after it is new text without style obligation"""
        old = self.plain
        if new == old:
            return
        k = 0
        while k < len(old) and k < len(new) and old[k] == new[k]:
            k += 1
        self.chars = self.chars[:k] + [(c, WILD) for c in new[k:]]

    # ------------------------------------------------------------ cell based
    def crop_cells(self, n, observed=None):
        """longest prefix that fits in n cells; one (WILD) space when a wide character
        was halved. Zero-width characters sitting exactly at the boundary may be
        kept or dropped (`observed` picks the variant)."""
        tot = 0
        k = 0
        for c, _ in self.chars:
            w = cw(c)
            if tot + w > n:
                break
            tot += w
            k += 1
        kmin = k
        while kmin > 0 and cw(self.chars[kmin - 1][0]) == 0:
            kmin -= 1
        tail = [(" ", WILD)] * (max(n - tot, 0) if k < len(self.chars) else 0)
        choice = k
        if observed is not None:
            for kk in range(k, kmin - 1, -1):
                if "".join(c for c, _ in self.chars[:kk]) + " " * len(tail) == observed:
                    choice = kk
                    break
        self.chars = self.chars[:choice] + tail

    def truncate(self, max_width, overflow=None, pad=False, observed=None):
        """Documented rule: when the text is wider than max_width cells crop it to
        max_width cells (ellipsis: to max_width-1 cells plus the ellipsis character);
        pad=True fills a narrower text with spaces up to max_width cells;
        overflow "ignore" leaves the text alone."""
        ov = overflow or "fold"
        if ov == "ignore":
            return
        width = self.cells()
        if width > max_width:
            if ov == "ellipsis":
                obs = observed[:-1] if observed and observed.endswith("…") else None
                self.crop_cells(max_width - 1, obs)
                self.chars.append(("…", WILD))
            else:
                self.crop_cells(max_width, observed)
        elif pad and width < max_width:
            self.pad_right(max_width - width)

    def align(self, method, width, ch=" ", observed=None):
        """crop to `width` cells, then fill the missing cells with `ch` on the right
        (left), on the left (right) or floor(half) left / rest right (center)"""
        if self.cells() > width:
            # a cropped text fills all `width` cells, nothing is padded: observed is the crop itself
            self.crop_cells(width, observed)
        excess = width - self.cells()
        if excess > 0:
            if method == "left":
                self.pad_right(excess, ch)
            elif method == "center":
                self.pad_left(excess // 2, ch)
                self.pad_right(excess - excess // 2, ch)
            else:
                self.pad_left(excess, ch)

    def expand_tabs(self, tab_size):
        """s.expandtabs(tab_size): columns count characters, a newline restarts the
        column; the spaces that replace a tab are new characters (WILD)"""
        if not any(c == "\t" for c, _ in self.chars):
            return
        out = []
        col = 0
        for c, st in self.chars:
            if c == "\t":
                n = tab_size - (col % tab_size)
                out.extend([(" ", WILD)] * n)
                col += n
            elif c == "\n":
                out.append((c, st))
                col = 0
            else:
                out.append((c, st))
                col += 1
        self.chars = out

    # ------------------------------------------------------------ taking apart
    def getitem(self, i):
        """s[i] as a one-character text"""
        n = len(self.chars)
        if not -n <= i < n:
            raise RefIndexError(i)
        return RefText([self.chars[i]], self.base)

    def slice(self, i, j):
        """s[i:j]"""
        return RefText(self.chars[i:j], self.base)

    def divide(self, offsets):
        """[s[0:o1], s[o1:o2], ..., s[on:]] for ascending offsets"""
        offsets = list(offsets)
        if not offsets:
            return [self.copy()]
        bounds = [0] + offsets + [len(self.chars)]
        return [RefText(self.chars[a:b], self.base) for a, b in zip(bounds, bounds[1:])]

    def split(self, sep="\n", include_separator=False, allow_blank=False):
        """s.split(sep); include_separator leaves each separator at the end of its
        piece; unless allow_blank, the empty piece after a final separator is dropped"""
        s = self.plain
        if sep not in s:
            return [self.copy()]
        pieces = []
        pos = 0
        i = 0
        while True:
            j = s.find(sep, i)
            if j < 0:
                break
            e = j + len(sep)
            pieces.append(RefText(self.chars[pos:e if include_separator else j], self.base))
            pos = i = e
        last = RefText(self.chars[pos:], self.base)
        if last.chars or allow_blank:
            pieces.append(last)
        return pieces

    def fit(self, width):
        """every line of s.split('\\n') cut or space-filled to `width` characters"""
        out = self.split("\n")
        for p in out:
            p.set_length(width)
        return out


# ---------------------------------------------------------------------- selftest
def selftest():
    red = RefStyle(color=("std", 1))
    blue = RefStyle(color=("std", 4))
    bold = RefStyle({"bold": True})
    t = RefText.from_str("a\x08b c", bold, [(0, 2, red), (1, 4, blue)])
    assert t.plain == "ab c" and len(t) == 4
    eff = t.effective()
    assert eff[0] == ("a", bold + red) and eff[1] == ("b", bold + red + blue) and eff[3][1] == bold + blue
    u = t.copy()
    u.pad_left(2, "-")
    assert u.plain == "--ab c" and u.effective()[0] == ("-", bold) and u.effective()[2] == eff[0]
    u.right_crop(9)
    assert u.plain == ""
    u = t.copy()
    u.stylize(red, -9, 1)
    u.stylize(blue, 3)
    assert u.chars[0][1] == bold + red and u.chars[3][1] == bold + blue and u.chars[2][1] == bold + blue
    assert [p.plain for p in t.split(" ")] == ["ab", "c"]
    assert [p.plain for p in RefText.from_str("a\n").split("\n")] == ["a"]
    assert [p.plain for p in RefText.from_str("a\n").split("\n", allow_blank=True)] == ["a", ""]
    assert [p.plain for p in RefText.from_str("a\nb\n").split("\n", include_separator=True)] == ["a\n", "b\n"]
    assert [p.plain for p in t.divide([1, 9])] == ["a", "b c", ""]
    w = RefText.from_str("aあb")
    w.truncate(2)
    assert w.plain == "a " and w.chars[1][1] is WILD
    w = RefText.from_str("aあb")
    w.truncate(3, "ellipsis")
    assert w.plain == "a …"
    w = RefText.from_str("ab́c")
    w.truncate(2, observed="ab")
    assert w.plain == "ab"
    w = RefText.from_str("ab́c")
    w.truncate(2)
    assert w.plain == "ab́"
    w = RefText.from_str("a\tbc\n\td")
    w.expand_tabs(4)
    assert w.plain == "a\tbc\n\td".expandtabs(4)
    w = RefText.from_str("ab")
    w.align("center", 5, "-")
    assert w.plain == "-ab--"
    w = RefText.from_str("abc  ")
    w.rstrip_end(4)
    assert w.plain == "abc "
    j = RefText.join(RefText.from_str("-", bold), [t, RefText.from_str("x")])
    assert j.plain == "ab c-x" and j.base == bold and j.effective()[0] == eff[0]
    try:
        t.getitem(4)
        raise AssertionError("no RefIndexError")
    except RefIndexError:
        pass
    assert t.getitem(-1).effective() == [eff[3]]
    return 0


if __name__ == "__main__":
    raise SystemExit(selftest())
