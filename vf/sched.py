"""E3 -- stateless, preemption-bounded schedule explorer over REAL threads.

Exactly one harness thread runs at a time (it holds the baton). Scheduling points:
  * every executed line of the whitelisted rich modules (sys.monitoring local LINE events),
  * every bytecode of the functions named in FINE (local INSTRUCTION events) -- a lost update
    such as `task.completed += n` lives inside one line,
  * every cooperative lock acquire/release, event set/wait, thread start/join,
  * every write()/flush() on a RecFile.
At a point the scheduler either lets the running thread continue (choice 0) or hands the baton
to another enabled thread.  An execution is identified by the list of choices taken at its
*choice points* (points with >= 2 options).  explore() enumerates all executions with at most
`bound` deviations (a deviation = switching away from a thread that could continue, or firing
the timeout of an Event.wait), running every execution to completion.

No file of /repo is touched: the library's `threading.RLock/Event/Thread` are replaced by
cooperative versions through module-global rebinding (install()).
"""
import io
import sys
import threading
import types

_RealThread = threading.Thread
_RealSemaphore = threading.Semaphore
_get_ident = threading.get_ident

_CUR = None          # the execution in progress (one per process)
_INSTALLED = False
TOOL = 4
mon = sys.monitoring


class ReplayDivergence(Exception):
    pass


class Abort(BaseException):
    """Unwinds a harness thread when the execution is abandoned (deadlock, livelock)."""


# ----------------------------------------------------------------------------- execution
class Sched:
    def __init__(self, prefix=(), granularity="line", timeout_budget=0, max_steps=200000, trace=False):
        self.prefix = list(prefix)
        self.granularity = granularity      # "line" (lines + bytecodes of FINE + sync) | "coarse" (sync + writes only)
        self.timeout_budget = timeout_budget
        self.max_steps = max_steps
        self.choices = []        # choice taken at each choice point
        self.cp = []             # per choice point: (n_options, running_enabled)
        self.order = []          # tids in creation order
        self.sems = {}
        self.by_ident = {}
        self.finished = set()
        self.blocked = {}        # tid -> predicate (enabled when it returns True)
        self.timed = {}          # tid -> True while in a timed Event.wait that may fire
        self.fired = set()       # tids whose timed wait was fired by the scheduler
        self.errors = []         # (tid, exception)
        self.problem = None      # "deadlock" | "livelock" | None
        self.aborting = False
        self.steps = 0
        self.timeouts_fired = 0
        self.main_sem = _RealSemaphore(0)
        self.trace = [] if trace else None
        self.current = None
        self.real_threads = []

    # -- threads
    def spawn(self, tid, fn):
        """Register a harness thread (before run())."""
        self._register(tid)

        def body():
            self.by_ident[_get_ident()] = tid
            self.sems[tid].acquire()
            try:
                if not self.aborting:
                    fn()
            except Abort:
                pass
            except BaseException as e:  # noqa
                self.errors.append((tid, e))
            finally:
                self._thread_done(tid)
        t = _RealThread(target=body, daemon=True)
        self.real_threads.append(t)
        t.start()

    def _register(self, tid):
        self.order.append(tid)
        self.sems[tid] = _RealSemaphore(0)

    def _thread_done(self, tid):
        self.finished.add(tid)
        self.by_ident.pop(_get_ident(), None)
        if self.aborting:
            self._abort_next()
            return
        try:
            nxt = self._decide(tid, False)
        except ReplayDivergence as e:
            self.problem = "divergence: %s" % e
            self._abort_all()
            return
        if nxt is None:
            self._end()
        else:
            self.current = nxt
            self.sems[nxt].release()

    def me(self):
        return self.by_ident.get(_get_ident())

    # -- decisions
    def _options(self, running, running_enabled):
        en = []
        for tid in self.order:
            if tid in self.finished:
                continue
            pred = self.blocked.get(tid)
            if pred is not None and not pred():
                continue
            en.append(("run", tid))
        if running_enabled and ("run", running) in en:
            en.remove(("run", running))
            en.insert(0, ("run", running))
        # timed waiters whose timeout may fire
        timed = [("fire", tid) for tid in self.order
                 if tid in self.timed and tid not in self.finished and ("run", tid) not in en]
        if timed:
            if not en:
                # nothing else can run: time passes, the first timed wait fires (no choice, no cost)
                return [timed[0]], True
            if self.timeouts_fired < self.timeout_budget:
                en = en + timed
        return en, False

    def _decide(self, running, running_enabled):
        opts, forced = self._options(running, running_enabled)
        if not opts:
            return None
        if len(opts) == 1:
            kind, tid = opts[0]
        else:
            i = len(self.choices)
            if i < len(self.prefix):
                c = self.prefix[i]
                if c >= len(opts):
                    raise ReplayDivergence("choice %d=%d but only %d options" % (i, c, len(opts)))
            else:
                c = 0
            self.choices.append(c)
            self.cp.append((len(opts), bool(running_enabled), tuple(k for k, _ in opts)))
            kind, tid = opts[c]
        if kind == "fire":
            self.fired.add(tid)
            if not forced:
                self.timeouts_fired += 1
        return tid

    def _end(self):
        if len(self.finished) != len(self.order):
            self.problem = "deadlock"
            self._abort_all()
        else:
            self.main_sem.release()

    def _abort_all(self):
        self.aborting = True
        self._abort_next()

    def _abort_next(self):
        for tid in self.order:
            if tid not in self.finished:
                self.current = tid
                self.sems[tid].release()
                return
        self.main_sem.release()

    def _switch(self, tid, running_enabled):
        try:
            nxt = self._decide(tid, running_enabled)
        except ReplayDivergence as e:
            self.problem = "divergence: %s" % e
            self._abort_all()
            self.sems[tid].acquire()
            raise Abort()
        if nxt is None:
            self.problem = "deadlock"
            self._abort_all()
            self.sems[tid].acquire()
            raise Abort()
        if nxt != tid:
            self.current = nxt
            self.sems[nxt].release()
            self.sems[tid].acquire()
            if self.aborting:
                raise Abort()

    def point(self, label=None):
        """A scheduling point reached by the running thread."""
        tid = self.me()
        if tid is None or self.aborting:
            return
        self.steps += 1
        if self.trace is not None and label is not None:
            self.trace.append((tid, label))
        if self.steps > self.max_steps:
            self.problem = "livelock"
            self._abort_all()
            self.sems[tid].acquire()
            raise Abort()
        self._switch(tid, True)

    def block_until(self, pred, label=None, timed=False):
        """Block the running thread until pred() holds; returns "fired" if a timed wait was fired."""
        tid = self.me()
        if tid is None:
            return None
        if self.aborting:
            raise Abort()
        if self.trace is not None and label is not None:
            self.trace.append((tid, label))
        self.blocked[tid] = pred
        if timed:
            self.timed[tid] = True
        try:
            while True:
                if tid in self.fired:
                    self.fired.discard(tid)
                    return "fired"
                if pred():
                    return None
                self._switch(tid, False)
        finally:
            self.blocked.pop(tid, None)
            self.timed.pop(tid, None)

    def run(self, wait_s=60):
        global _CUR
        _CUR = self
        try:
            first = self._decide(None, False)
            if first is not None:
                self.current = first
                self.sems[first].release()
                if not self.main_sem.acquire(timeout=wait_s):
                    self.problem = "harness-hang"
                    self.aborting = True
                    for tid in self.order:
                        self.sems[tid].release()
            for t in self.real_threads:
                t.join(timeout=5)
        finally:
            _CUR = None

    # preemption accounting ------------------------------------------------
    def deviations_before(self, i):
        n = 0
        for j in range(i):
            nopt, ren, kinds = self.cp[j]
            c = self.choices[j]
            if c != 0 and (ren or kinds[c] == "fire"):
                n += 1
        return n

    def alt_cost(self, i, alt):
        nopt, ren, kinds = self.cp[i]
        return 1 if (ren or kinds[alt] == "fire") else 0


# ----------------------------------------------------------------------------- cooperative primitives
class CoopRLock:
    def __init__(self):
        self.owner = None
        self.count = 0

    def acquire(self, blocking=True, timeout=-1):
        s = _CUR
        tid = s.me() if s is not None else None
        if tid is None:
            me = ("ext", _get_ident())
            if self.owner in (None, me):
                self.owner = me
                self.count += 1
                return True
            raise RuntimeError("CoopRLock contended outside the scheduler")
        s.point(("acquire", id(self) & 0xFFFF))
        if self.owner is not None and self.owner != tid:
            if not blocking:
                return False
            s.block_until(lambda: self.owner is None, ("wait-lock",))
        self.owner = tid
        self.count += 1
        return True

    def release(self):
        self.count -= 1
        if self.count == 0:
            self.owner = None
        s = _CUR
        if s is not None and s.me() is not None and not s.aborting:
            s.point(("release", id(self) & 0xFFFF))

    __enter__ = acquire

    def __exit__(self, *a):
        self.release()


class CoopEvent:
    def __init__(self):
        self._flag = False

    def is_set(self):
        return self._flag

    def set(self):
        self._flag = True
        s = _CUR
        if s is not None and s.me() is not None and not s.aborting:
            s.point(("event-set",))

    def clear(self):
        self._flag = False

    def wait(self, timeout=None):
        s = _CUR
        if s is None or s.me() is None:
            return self._flag
        s.point(("event-wait",))
        if self._flag:
            return True
        r = s.block_until(lambda: self._flag, ("event-block",), timed=timeout is not None)
        if r == "fired":
            return self._flag
        return True


def _coop_start(self):
    s = _CUR
    if s is None:
        return _RealThread.start(self)
    tid = "%s#%d" % (type(self).__name__, len(s.order))
    s._register(tid)
    self._coop_tid = tid
    self._coop_sched = s
    run = self.run

    def body():
        s.by_ident[_get_ident()] = tid
        s.sems[tid].acquire()
        try:
            if not s.aborting:
                run()
        except Abort:
            pass
        except BaseException as e:  # noqa
            s.errors.append((tid, e))
        finally:
            s._thread_done(tid)
    self.run = body
    self.daemon = True
    s.real_threads.append(self)
    _RealThread.start(self)
    me = s.me()
    if me is not None and not s.aborting:
        # eager start: the new thread runs first, up to its first blocking operation, at no cost
        # (the library's helper threads do nothing before their first Event.wait; without this a
        # schedule would have to spend one preemption just to let the helper reach that wait)
        if s.trace is not None:
            s.trace.append((me, ("thread-start", tid)))
        s.current = tid
        s.sems[tid].release()
        s.sems[me].acquire()
        if s.aborting:
            raise Abort()


def _coop_join(self, timeout=None):
    s = _CUR
    tid = getattr(self, "_coop_tid", None)
    if s is None or tid is None or s.me() is None or getattr(self, "_coop_sched", None) is not s:
        if tid is not None:
            return None
        return _RealThread.join(self, timeout)
    s.point(("join", tid))
    s.block_until(lambda: tid in s.finished, ("join-block", tid))


class _ThreadingShim(types.ModuleType):
    """stands in for the `threading` module as seen by rich.console"""

    def __init__(self):
        super().__init__("threading")

    def __getattr__(self, name):
        return getattr(threading, name)

    RLock = CoopRLock
    Lock = CoopRLock
    Event = CoopEvent


class RecFile(io.StringIO):
    """Recording file: every write is a scheduling point and is logged with its thread."""

    def __init__(self):
        super().__init__()
        self.writes = []

    def write(self, text):
        s = _CUR
        tid = None
        if s is not None:
            tid = s.me()
            if tid is not None and not s.aborting:
                s.point(("write",))
        self.writes.append((tid, text))
        return super().write(text)

    def flush(self):
        s = _CUR
        if s is not None and s.me() is not None and not s.aborting:
            s.point(("flush",))


# ----------------------------------------------------------------------------- installation
WHITELIST = ("rich.console", "rich.live", "rich.live_render", "rich.progress", "rich.file_proxy")
FINE = {
    "rich.progress": ["Progress.advance", "Progress.update", "Progress.reset", "Progress.add_task",
                      "Progress.remove_task", "Progress.start_task", "Progress.stop_task", "_TrackThread.run",
                      "Progress.track"],
    "rich.console": ["Console._check_buffer", "Console._render_buffer", "Console._enter_buffer",
                     "Console._exit_buffer", "Console.begin_capture", "Console.end_capture",
                     "Console.export_text"],
    "rich.live": ["Live.update", "Live.refresh", "Live.start", "Live.stop", "Live.process_renderables",
                  "_LiveRender.__rich_console__"],
    "rich.live_render": ["LiveRender.position_cursor", "LiveRender.__rich_console__", "LiveRender.set_renderable"],
}
_CODES = {"line": [], "fine": []}


def _code_objects(mod):
    seen = {}

    def add_code(co, qual):
        if co in seen:
            return
        seen[co] = qual
        for c in co.co_consts:
            if isinstance(c, types.CodeType):
                add_code(c, qual + "." + c.co_name)

    def visit(obj, qual):
        if isinstance(obj, (staticmethod, classmethod)):
            obj = obj.__func__
        if isinstance(obj, property):
            for f in (obj.fget, obj.fset, obj.fdel):
                if f is not None:
                    visit(f, qual)
            return
        f = getattr(obj, "__wrapped__", None)
        if f is not None and isinstance(f, types.FunctionType):
            visit(f, qual)
        if isinstance(obj, types.FunctionType):
            if obj.__code__.co_filename == mod.__file__:
                add_code(obj.__code__, qual)
        elif isinstance(obj, type) and obj.__module__ == mod.__name__:
            for k, v in vars(obj).items():
                visit(v, qual + "." + k)
    for k, v in vars(mod).items():
        visit(v, k)
    return seen


SKIP_CODES = frozenset()   # code objects whose LINE events are not scheduling points (set by a check)


def _on_line(code, line):
    s = _CUR
    if s is None or s.granularity != "line" or code in SKIP_CODES:
        return
    if _get_ident() in s.by_ident:
        s.point((code.co_name, line))


def _on_instr(code, offset):
    s = _CUR
    if s is None or s.granularity != "line":
        return
    if _get_ident() in s.by_ident:
        s.point((code.co_name, "@", offset))


def install():
    """Rebind the library's synchronisation names to the cooperative versions and switch on
    the local monitoring events. Idempotent; stays for the life of the (worker) process."""
    global _INSTALLED
    if _INSTALLED:
        return
    import importlib
    mods = {name: importlib.import_module(name) for name in WHITELIST}
    import rich.console, rich.live, rich.progress
    rich.console.threading = _ThreadingShim()
    for m in (rich.live, rich.progress):
        m.RLock = CoopRLock
        m.Event = CoopEvent
    for cls in (rich.live._RefreshThread, rich.progress._RefreshThread, rich.progress._TrackThread):
        cls.start = _coop_start
        cls.join = _coop_join
    mon.use_tool_id(TOOL, "vf-sched")
    mon.register_callback(TOOL, mon.events.LINE, _on_line)
    mon.register_callback(TOOL, mon.events.INSTRUCTION, _on_instr)
    n_line = n_fine = 0
    for name, mod in mods.items():
        fine = set(FINE.get(name, ()))
        for co, qual in _code_objects(mod).items():
            base = ".".join(qual.split(".")[:2])
            if base in fine:
                mon.set_local_events(TOOL, co, mon.events.INSTRUCTION)
                n_fine += 1
            else:
                mon.set_local_events(TOOL, co, mon.events.LINE)
                n_line += 1
    _CODES["line"] = n_line
    _CODES["fine"] = n_fine
    _INSTALLED = True


# ----------------------------------------------------------------------------- exploration
class Execution:
    __slots__ = ("choices", "cp", "obs", "problem", "errors", "steps", "sched")


def run_once(make, prefix, granularity="line", timeout_budget=0, trace=False):
    """make(sched) -> (dict tid -> callable, finish() -> observation). Runs ONE execution."""
    install()
    global _CUR
    s = Sched(prefix, granularity, timeout_budget, trace=trace)
    _CUR = s      # construction of the objects sees the execution (cooperative primitives are inert until run())
    try:
        threads, finish = make(s)
    finally:
        _CUR = None
    for tid, fn in threads.items():
        s.spawn(tid, fn)
    old_out, old_err = sys.stdout, sys.stderr
    try:
        s.run()
    finally:
        sys.stdout, sys.stderr = old_out, old_err
    obs = finish()
    return s, obs


def explore(make, bound, judge, granularity="line", timeout_budget=0, first_level=None,
            max_execs=None, stop=None):
    """Enumerates every execution with <= bound deviations; judge(sched, obs) is called once per
    execution. first_level=(i, n) splits the work over n shards deterministically: the default
    execution and its zero-cost alternatives (which thread runs first / next when the running one
    blocks or ends) are expanded by every shard, judged by shard 0 only; the resulting frontier of
    subtrees is dealt round-robin.  Returns stats dict."""
    stats = {"executions": 0, "max_choice_points": 0, "complete": True, "max_steps": 0}
    shard_i, shard_n = first_level if first_level is not None else (0, 1)

    def run(prefix, count):
        s, obs = run_once(make, prefix, granularity, timeout_budget)
        if s.problem and s.problem.startswith("divergence"):
            raise ReplayDivergence("%s prefix=%r" % (s.problem, prefix))
        if count:
            stats["executions"] += 1
            stats["max_choice_points"] = max(stats["max_choice_points"], len(s.choices))
            stats["max_steps"] = max(stats["max_steps"], s.steps)
            judge(s, obs)
        return s

    def children(s, prefix):
        out = []
        for i in range(len(prefix), len(s.cp)):
            nopt = s.cp[i][0]
            dev = s.deviations_before(i)
            for alt in range(1, nopt):
                c = dev + s.alt_cost(i, alt)
                if c <= bound:
                    out.append((s.choices[:i] + [alt], c))
        return out

    # deterministic frontier: expand the root and (up to depth 4) its zero-cost descendants
    expand = [([], 0)]
    frontier = []
    while expand:
        prefix, depth = expand.pop(0)
        s = run(prefix, shard_i == 0)
        for child, cost in children(s, prefix):
            if cost == 0 and depth < 4:
                expand.append((child, depth + 1))
            else:
                frontier.append(child)
    stack = frontier[shard_i::shard_n]
    stack.reverse()
    while stack:
        prefix = stack.pop()
        if (stop is not None and stop()) or (max_execs is not None and stats["executions"] >= max_execs):
            stats["complete"] = False
            break
        s = run(prefix, True)
        for child, _cost in children(s, prefix):
            stack.append(child)
    return stats
