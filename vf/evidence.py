"""Evidence files (schema: /root/.vp/EVIDENCE.schema.json) + a small built-in validator
so that /venv needs no jsonschema."""
import json
import os

from . import ROOT

LEVELS = ("exploration", "fault_enumeration", "model_checking", "proof",
          "translation_validation", "other")


def validate(ev):
    """Returns a list of problems (empty = valid for its level)."""
    p = []
    for k in ("property_id", "tier", "seed", "level", "coverage", "wall_s"):
        if k not in ev:
            p.append("missing " + k)
    if p:
        return p
    if ev["tier"] not in ("quick", "thorough"):
        p.append("tier")
    if not isinstance(ev["seed"], int):
        p.append("seed")
    if ev["level"] not in LEVELS:
        p.append("level")
    if not isinstance(ev["wall_s"], (int, float)):
        p.append("wall_s")
    cov = ev["coverage"]
    if not isinstance(cov, dict):
        return p + ["coverage"]

    def generic(need_rule_samples):
        q = []
        if not (isinstance(cov.get("evaluations"), int) and cov["evaluations"] >= 1):
            q.append("evaluations>=1")
        if not (isinstance(cov.get("distinct_nontrivial"), int) and cov["distinct_nontrivial"] >= 2):
            q.append("distinct_nontrivial>=2")
        if need_rule_samples:
            if not isinstance(cov.get("rule"), str):
                q.append("rule")
            if not (isinstance(cov.get("samples"), list) and len(cov["samples"]) >= 1):
                q.append("samples")
        elif "samples" in cov and not (isinstance(cov["samples"], list) and cov["samples"]):
            q.append("samples")
        return q

    lvl = ev["level"]
    if lvl in ("exploration", "fault_enumeration"):
        p += generic(True)
    elif lvl == "model_checking":
        if all(k in cov for k in ("states", "transitions", "traces_validated_against_impl", "samples")):
            if not (isinstance(cov["states"], int) and cov["states"] >= 1):
                p.append("states>=1")
            if not (isinstance(cov["transitions"], int) and cov["transitions"] >= 1):
                p.append("transitions>=1")
            if not (isinstance(cov["traces_validated_against_impl"], int) and cov["traces_validated_against_impl"] >= 0):
                p.append("traces_validated_against_impl")
            if not (isinstance(cov["samples"], list) and cov["samples"]):
                p.append("samples")
        else:
            p += generic(False)
    for k in ("evaluations", "distinct_nontrivial", "states", "transitions",
              "traces_validated_against_impl"):
        if k in cov and not (isinstance(cov[k], int) and cov[k] >= 0):
            p.append(k + " not a non-negative int")
    if "assumptions" in ev and not all(isinstance(a, str) for a in ev["assumptions"]):
        p.append("assumptions")
    if "violations" in ev and not isinstance(ev["violations"], int):
        p.append("violations")
    return p


def _jsonable(x):
    if isinstance(x, (set, frozenset)):
        return sorted((_jsonable(i) for i in x), key=repr)
    if isinstance(x, tuple):
        return [_jsonable(i) for i in x]
    if isinstance(x, list):
        return [_jsonable(i) for i in x]
    if isinstance(x, dict):
        return {str(k): _jsonable(v) for k, v in x.items()}
    if isinstance(x, (str, int, float, bool)) or x is None:
        return x
    return repr(x)


def write(ev, path=None):
    ev = _jsonable(ev)
    problems = validate(ev)
    path = path or os.path.join(ROOT, "evidence", ev["property_id"] + ".json")
    os.makedirs(os.path.dirname(path), exist_ok=True)
    tmp = path + ".tmp"
    with open(tmp, "w", encoding="utf-8") as f:
        json.dump(ev, f, indent=1, ensure_ascii=True, sort_keys=True)
        f.write("\n")
    os.replace(tmp, path)
    return problems
