"""C02 -- Word wrapping keeps every character, in order, with its own style.

Every case is a plain description (string, base style on/off, ordered span list,
width, justify, overflow, no_wrap, tab size). A fresh Text is built from it,
`Text.wrap` is run on the real code, every produced line is read back through
`line.render(console)` into (char, RefStyle) cells, and a reference model that
never looks at rich (a list of (char, RefStyle): base style + the spans covering
the position in list order, later wins) judges the outcome:

(1) fold, wrapping on: the sequence of non-whitespace characters is unchanged;
(2) fold: every produced line is at most W cells wide (width table of vf/width.py);
(3) every mode: every output non-whitespace character that exists in the input
    carries exactly the reference style of its input position (part (b) only: the
    carriers have pairwise distinct non-whitespace characters, so the position is
    unambiguous); whitespace is compared only where it is provably an input
    character (see _judge_styles);
(4) fold, wrapping on: a maximal non-whitespace run is spread over more than one
    output line only if indentation + run is wider than W.

(a) all strings over {a, b, space, U+3042, U+0301, newline, tab} up to a length bound,
(b) 8 carrier strings x ordered span lists (levels L0..L4, see _levels).

History dimension ("the result of a wrap does not depend on what was wrapped before"):
every shard runs in a newly forked worker (FRESH_WORKERS) and the wraps of one input are
executed as an ordered sequence in that process (run_group), all on ONE Text instance (a table renders
the same cell object again and again; Text.wrap must not keep anything on the instance). Order A per width =
[fold wraps] [other (overflow, no_wrap) modes] [fold again]; order B = [other modes]
[fold wraps] [first other mode again]; part (a) and levels L0/L1 run in both orders in
separate processes. Every wrap is judged by the oracle wherever it stands, and a repeated
wrap must give the identical result. A failure after a history is filed as history/<key>
with the history that led to it (replay re-executes the history); finish() re-runs the single
wrap in a brand-new interpreter and files it as plain <key> when it fails there as well.

Measured: quick = 3 013 971 wraps (2 606 913 of them judged after a history), 1296 distinct
outcome signatures, ~560 CPU-seconds (~40 s wall on 16 idle cores; measured while the
machine ran at load average 30-90). thorough = ~55 M wraps planned, ~11 000 CPU-seconds
(~12 min on 16 idle cores) extrapolated from 5.4 k (a) / 3.8 k (b) wraps per CPU-second;
shards of (a) and (b) are interleaved so a run cut by the wall cap covers both parts evenly.
"""
import io
import itertools
import json
import os
import subprocess
import sys
import traceback

from .. import ROOT, dyn
from ..par import Result, deadline_passed
from ..width import cw
from ..refstyle import RefStyle

ID = "C02"
LEVEL = "exploration"
ENGINE = "E1"
CAP_S = {"quick": 600, "thorough": 1800}

SIGMA = ["a", "b", " ", "\u3042", "\u0301", "\n", "\t"]
WS = " \t\n"

# style definitions handed to rich (strings: console.get_style parses them) and the
# hand-written reference value of each (checked against each other in _selfcheck)
STYLE_DEFS = {"A": "red", "B": "bold blue", "C": "not bold italic green", "D": "strike magenta",
              "base": "underline yellow on black"}
REF = {
    "A": RefStyle({}, ("std", 1)),
    "B": RefStyle({"bold": True}, ("std", 4)),
    "C": RefStyle({"bold": False, "italic": True}, ("std", 2)),
    "D": RefStyle({"strike": True}, ("std", 5)),
    "base": RefStyle({"underline": True}, ("std", 3), ("std", 0)),
}
NULL = RefStyle()

CARRIERS = ["ab cd", "abcdef", "a あb", "a\nb c", " ab", "a\tb", "ab  cd e", "あい a"]

JUSTIFY = ["default", "left", "center", "right", "full"]
# (overflow, no_wrap): overflow="ignore" implies no_wrap inside Text.wrap
MODES = [("fold", False), ("crop", False), ("ellipsis", False),
         ("fold", True), ("crop", True), ("ellipsis", True), ("ignore", True)]

_CON = [None]


def _console():
    if _CON[0] is None:
        from rich.console import Console
        _CON[0] = Console(file=io.StringIO(), width=80, height=25, force_terminal=False,
                          color_system=None, legacy_windows=False, _environ={})
    return _CON[0]


def _selfcheck():
    """The hand-written reference styles mean what the definitions given to rich mean."""
    from rich.style import Style
    for name, defn in STYLE_DEFS.items():
        got = RefStyle.from_rich(Style.parse(defn))
        if got != REF[name]:
            raise RuntimeError("C02 harness: style %r parses to %r, reference table says %r" % (defn, got, REF[name]))
    for c in CARRIERS:
        nonws = [ch for ch in c if ch not in WS]
        if len(set(nonws)) != len(nonws) or "…" in c:
            raise RuntimeError("C02 harness: carrier %r has repeated characters" % c)


# ------------------------------------------------------------------ reference model
def ref_styles(s, base, spans):
    """-> list of RefStyle, one per input position: base, then every span covering the
    position in list order (right wins where it specifies)."""
    out = []
    b = REF["base"] if base else NULL
    for p in range(len(s)):
        st = b
        for a, e, name in spans:
            if a <= p < e:
                st = st + REF[name]
        out.append(st)
    return out


def _classify_style(case, p, obs):
    """Names the kind of style error at input position p (for the finding key)."""
    spans = case.get("spans", [])
    base = [REF["base"]] if case.get("base") else []
    cover = [REF[n] for a, e, n in spans if a <= p < e]

    def fold(seq):
        st = NULL
        for x in seq:
            st = st + x
        return st
    if len(cover) <= 5:
        for perm in itertools.permutations(cover):
            if fold(base + list(perm)) == obs:
                return "precedence-swapped"
    full = base + cover
    for r in range(len(full) - 1, -1, -1):
        for sub in itertools.combinations(full, r):
            if fold(sub) == obs:
                return "span-lost"
    allst = base + [REF[n] for a, e, n in spans]
    for r in range(len(allst), 0, -1):
        for sub in itertools.combinations(allst, r):
            if fold(sub) == obs:
                return "span-leaked"
    return "other"


def _indent_cols(ws, tab):
    col = 0
    for c in ws:
        if c == "\t":
            col += tab - col % tab
        else:
            col += 1
    return col


def _runs(s, tab):
    """Maximal non-whitespace runs of the input: (first_k, length, cells incl. indentation)
    where k counts non-whitespace characters of the whole input."""
    out = []
    k = 0
    for src in s.split("\n"):
        i = 0
        n = len(src)
        first = True
        while i < n:
            j = i
            while j < n and src[j] in WS:
                j += 1
            if j >= n:
                break
            e = j
            while e < n and src[e] not in WS:
                e += 1
            cells = sum(cw(c) for c in src[j:e])
            if first:
                cells += _indent_cols(src[:j], tab)
            out.append((k, e - j, cells))
            k += e - j
            first = False
            i = e
    return out


def judge(case, out):
    """case: description; out: produced lines as lists of (char, RefStyle or None).
    -> (list of (finding key, detail), info dict for the outcome signature)"""
    s, W = case["s"], case["W"]
    just, ov, nw = case["justify"], case["overflow"], case["no_wrap"]
    tab = case.get("tab", 8)
    wrapping = ov == "fold" and not nw
    errs = []
    info = {"nlines": len(out), "split": False, "cropped": False, "conflict": False, "crossing": False}

    in_seq = [c for c in s if c not in WS]
    out_seq = []
    out_line = []
    for li, line in enumerate(out):
        for c, _ in line:
            if c not in WS:
                out_seq.append(c)
                out_line.append(li)
    info["cropped"] = len(out_seq) < len(in_seq)

    # (2) fit
    if ov == "fold":
        for li, line in enumerate(out):
            w = sum(cw(c) for c, _ in line)
            if w > W:
                errs.append(("fit/line-too-wide" + ("/no_wrap" if nw else ""),
                             "line %d %r is %d cells wide, width %d" % (li, "".join(c for c, _ in line), w, W)))
                break

    # (1) conservation, (4) word-break rule
    if wrapping:
        if out_seq != in_seq:
            ci, co = {}, {}
            for c in in_seq:
                ci[c] = ci.get(c, 0) + 1
            for c in out_seq:
                co[c] = co.get(c, 0) + 1
            if any(c not in ci for c in co):
                kind = "invented"
            elif any(co.get(c, 0) < n for c, n in ci.items()):
                kind = "dropped"
            elif any(n > ci[c] for c, n in co.items()):
                kind = "duplicated"
            else:
                kind = "reordered"
            errs.append(("conservation/" + kind + ("/full" if just == "full" else ""),
                         "non-whitespace in %r, out %r (lines %r)" % (
                             "".join(in_seq), "".join(out_seq), ["".join(c for c, _ in l) for l in out])))
        else:
            for k0, n, cells in _runs(s, tab):
                where = set(out_line[k0:k0 + n])
                if len(where) > 1:
                    info["split"] = True
                    if cells <= W:
                        errs.append(("wordbreak/needless-split",
                                     "word %r (%d cells with its indentation) split over lines %r at width %d: %r" % (
                                         "".join(in_seq[k0:k0 + n]), cells, sorted(where), W,
                                         ["".join(c for c, _ in l) for l in out])))
                        break

    # (3) styles
    if case.get("styled"):
        errs.extend(_judge_styles(case, out, info))
    return errs, info


def _is_shift(s, ref, base, spans, judged, d, tab):
    """True when every judged character of an output line carries the reference style found d
    columns further along its own (tab-expanded) source line -- i.e. the spans slid as a block.
    Only used to name the kind of error. Columns made by tab expansion are wildcards, columns
    outside the source line carry the base style."""
    def column_styles(p):
        ls = s.rfind("\n", 0, p) + 1
        le = s.find("\n", p)
        le = len(s) if le < 0 else le
        cols, col_of = [], {}
        for q in range(ls, le):
            col_of[q] = len(cols)
            if s[q] == "\t":
                fill = tab - len(cols) % tab
                cols.extend([ref[q]] + [None] * (fill - 1))
            else:
                cols.append(ref[q])
        return cols, col_of
    concrete = False
    for p, obs, w in judged:
        cols, col_of = column_styles(p)
        x = col_of[p] + d
        if 0 <= x < len(cols):
            exp = cols[x]
        else:
            exp = base
            if "\n" not in s:                         # undivided text: an overhanging span slides in
                q = x if x < 0 else len(s) + x - len(cols)
                for a, e, name in spans:
                    if a <= q < e:
                        exp = exp + REF[name]
        if exp is None:
            continue
        if obs != exp:
            return False
        if obs != ref[p]:
            concrete = True
    return concrete


def _judge_styles(case, out, info):
    s = case["s"]
    just, ov, nw = case["justify"], case["overflow"], case["no_wrap"]
    spans = case.get("spans", [])
    base = REF["base"] if case.get("base") else NULL
    ref = ref_styles(s, case.get("base"), spans)
    errs = []
    seen_keys = set()
    pos_of = {}
    for p, c in enumerate(s):
        if c not in WS:
            pos_of[c] = p
    has_tab = "\t" in s
    line_of_pos = {}

    for li, line in enumerate(out):
        n = len(line)
        pos = [pos_of.get(c) if c not in WS else None for c, _ in line]
        judged = []                                   # (input position, observed style, is whitespace)
        for idx in range(n):
            p = pos[idx]
            if p is None:
                continue
            line_of_pos.setdefault(p, li)
            judged.append((p, line[idx][1], False))
        if not (has_tab or just == "full"):
            # whitespace that is provably an input character
            idx = 0
            while idx < n:
                if line[idx][0] != " ":
                    idx += 1
                    continue
                a = idx
                while idx < n and line[idx][0] == " ":
                    idx += 1
                b = idx                               # run = line[a:b]
                left = pos[a - 1] if a > 0 else None
                right = pos[b] if b < n else None
                if a > 0 and left is None or b < n and right is None:
                    continue                          # a neighbour is an inserted character
                cand = None
                if left is not None and right is not None:
                    # between two input characters: same count -> order forces the bijection
                    if right - left - 1 == b - a and all(s[q] == " " for q in range(left + 1, right)):
                        cand = range(left + 1, right)
                elif right is not None and a == 0:
                    # leading run (nothing is padded on the left in these modes): exact count only
                    if just in ("default", "left"):
                        m = 0
                        while right - m - 1 >= 0 and s[right - m - 1] == " ":
                            m += 1
                        if m == b - a:
                            cand = range(right - m, right)
                elif left is not None and b == n:
                    # trailing run, nothing padded or cropped: the whitespace that followed the word
                    if just == "default" and ov == "fold" and not nw:
                        m = 0
                        while left + m + 1 < len(s) and s[left + m + 1] == " ":
                            m += 1
                        if b - a <= m:
                            cand = range(left + 1, left + 1 + (b - a))
                if cand is None:
                    continue
                for off, p in enumerate(cand):
                    judged.append((p, line[a + off][1], True))
        wrong = [(p, obs, w) for p, obs, w in judged if obs != ref[p]]
        if not wrong:
            continue
        # naming only: precedence swap if that explains every wrong character of the line, else a
        # block shift of the spans if that explains the whole line, else character by character
        kinds = [_classify_style(case, p, obs) for p, obs, w in wrong]
        shift = None
        if any(k != "precedence-swapped" for k in kinds):
            for d in (-1, 1, -2, 2, -3, 3, -4, 4, -5, 5, -6, 6, -7, 7, -8, 8):
                if _is_shift(s, ref, base, spans, judged, d, case.get("tab", 8)):
                    shift = d
                    break
        for (p, obs, w), kind in zip(wrong, kinds):
            if shift is not None:
                kind = "shifted"
            key = "style/" + kind
            if key in seen_keys:
                continue
            seen_keys.add(key)
            errs.append((key, "%s %r (input offset %d) on output line %d carries %r, reference %r%s; lines %r" % (
                "whitespace" if w else "character", s[p], p, li, obs, ref[p],
                " (the whole line carries the styles of offset%+d)" % shift if shift is not None else "",
                ["".join(c for c, _ in l) for l in out])))

    # outcome features
    for a, e, name in spans:
        ls = set(line_of_pos[p] for p in range(max(a, 0), min(e, len(s))) if p in line_of_pos)
        if len(ls) > 1:
            info["crossing"] = True
    for p in line_of_pos:
        names = set(n for a, e, n in spans if a <= p < e)
        if len(names) > 1:
            info["conflict"] = True
    return errs


# ------------------------------------------------------------------ execution on the real code
def _crash_key(exc):
    """crash/<type>/<innermost rich frame>; a RuntimeError wrapping a StopIteration that escaped a
    generator has no rich frame of its own, so the cause chain is followed."""
    where = "?"
    e, hops = exc, 0
    while e is not None and where == "?" and hops < 4:
        for fr in traceback.extract_tb(e.__traceback__):
            if "/rich/" in fr.filename:
                where = "%s:%s" % (fr.filename.rsplit("/", 1)[-1], fr.name)
        e = e.__cause__ or e.__context__
        hops += 1
    return "crash/%s/%s" % (type(exc).__name__, where)


def execute(case, shared=None):
    """Runs one case on the real code -> (out lines as [(char, RefStyle|None)], None) or (None, exc).
    shared: a dict that holds the ONE Text object of a history (all wraps of a group are made on the same
    instance, as a table does with a cell it renders twice); None = a fresh Text for this wrap."""
    from rich.text import Text, Span
    con = _console()
    styled = case.get("styled")
    try:
        if shared is not None and "t" in shared:
            t = shared["t"]
        elif styled:
            t = Text(case["s"], style=STYLE_DEFS["base"] if case.get("base") else "",
                     spans=[Span(a, e, STYLE_DEFS[n]) for a, e, n in case.get("spans", [])])
        else:
            t = Text(case["s"])
        if shared is not None:
            shared["t"] = t
        lines = t.wrap(con, case["W"], justify=dyn(case["justify"]), overflow=dyn(case["overflow"]),
                       tab_size=case.get("tab", 8), no_wrap=case["no_wrap"])
        out = []
        if styled:
            conv = {}
            for line in lines:
                cells = []
                for seg in line.render(con):
                    if seg.is_control:
                        continue
                    st = seg.style
                    rs = conv.get(id(st))
                    if rs is None:
                        rs = conv[id(st)] = (RefStyle.from_rich(st), st)   # keep st alive: id stays unique
                    r = rs[0]
                    for ch in seg.text:
                        cells.append((ch, r))
                out.append(cells)
        else:
            for line in lines:
                out.append([(ch, None) for ch in line.plain])
        return out, None
    except Exception as exc:                          # noqa: BLE001 -- any escape is a finding
        return None, exc


def _flat(common, cfg):
    W, j, ov, nw, tab = cfg
    return dict(common, W=W, justify=j, overflow=ov, no_wrap=nw, tab=tab)


def _mode(cfg):
    return cfg[2] + ("+no_wrap" if cfg[3] and cfg[2] != "ignore" else "")


def _observe(common, cfg, shared=None):
    case = _flat(common, cfg)
    out, exc = execute(case, shared)
    return case, out, exc, (("exc", type(exc).__name__) if exc is not None else out)


def _violate_after(res, key, common, hist, detail):
    """files a failure seen after a history; the JSON of a long history is only built when it can
    become the kept (smallest) case of its key"""
    old = res.violations.get(key)
    if old is not None and old[0] <= 28 * len(hist):
        res.vcount[key] = res.vcount.get(key, 0) + 1
        return
    res.violate(key, dict(common, hist=[list(h) for h in hist]),
                "after %d earlier wraps of the same input in this process: %s" % (len(hist) - 1, detail))


def run_group(common, blocks, res):
    """Executes the wraps of ONE input (string, base, spans) in the given order inside this process.
    blocks: list of lists of cfg = (W, justify, overflow, no_wrap, tab). The first block is wrapped
    before anything else of this input was wrapped ("first"); everything later runs after a history.
    Every wrap is judged by the oracle; a cfg that occurs again must give the identical result.
    A failure after a history is filed under history/<key> together with the history that led to it
    (finish() re-runs the single case in a fresh process and drops the prefix if it fails there too)."""
    hist = []
    first = {}
    shared = {}          # one Text instance for the whole history
    part, level = common["part"], common.get("level", 0)
    for bi, cfgs in enumerate(blocks):
        fresh = bi == 0
        for cfg in cfgs:
            case, out, exc, obs = _observe(common, cfg, shared)
            res.evaluations += 1
            hist.append(cfg)
            seen_before = cfg in first
            pos = "first" if fresh else ("repeat" if seen_before else "later")
            if exc is not None:
                errs = [(_crash_key(exc), "%s: %s" % (type(exc).__name__, exc))]
                res.sig(("crash", type(exc).__name__, pos), nontrivial=False)
            else:
                errs, info = judge(case, out)
                nl = info["nlines"] if info["nlines"] < 3 else 3
                res.sig((part, level, pos, cfg[2], cfg[3], cfg[1],
                         nl, info["split"], info["cropped"], info["conflict"], info["crossing"]),
                        nontrivial=bool(nl > 1 or info["cropped"] or info["conflict"]))
            for key, detail in errs:
                if fresh:
                    res.violate(key, case, detail)
                else:
                    _violate_after(res, "history/" + key, common, hist, detail)
            if not seen_before:
                first[cfg] = obs
            elif first[cfg] != obs:
                _violate_after(res, "history/result-changed/" + _mode(cfg), common, hist,
                               "the same wrap gave %s the first time and now %s" % (_show(first[cfg]), _show(obs)))
            if not fresh:
                res.count("wraps_judged_after_a_history")


def _show(obs):
    if isinstance(obs, tuple):
        return repr(obs)
    return repr(["".join(c for c, _ in line) for line in obs])


def check_case(case, res):
    """one flat case, nothing before it (replay of a non-history finding)"""
    common = {k: v for k, v in case.items() if k not in ("W", "justify", "overflow", "no_wrap", "tab")}
    run_group(common, [[(case["W"], case["justify"], case["overflow"], case["no_wrap"], case.get("tab", 8))]], res)


def check_history(case, res):
    """replay of a history finding: the recorded wraps are executed in order, the last one is judged"""
    common = {k: v for k, v in case.items() if k != "hist"}
    hist = [tuple(h) for h in case["hist"]]
    first = {}
    shared = {}
    for cfg in hist[:-1]:
        _, _, _, obs = _observe(common, cfg, shared)
        first.setdefault(cfg, obs)
    cfg = hist[-1]
    flat, out, exc, obs = _observe(common, cfg, shared)
    res.evaluations += 1
    if exc is not None:
        res.violate("history/" + _crash_key(exc), case, "%s: %s" % (type(exc).__name__, exc))
    else:
        for key, detail in judge(flat, out)[0]:
            res.violate("history/" + key, case, detail)
    if cfg in first and first[cfg] != obs:
        res.violate("history/result-changed/" + _mode(cfg), case,
                    "first %s, now %s" % (_show(first[cfg]), _show(obs)))


# ------------------------------------------------------------------ (a) characters
def _maxlen(tier):
    return 5 if tier == "quick" else 7


def _strings(maxlen):
    for L in range(maxlen + 1):
        for tup in itertools.product(SIGMA, repeat=L):
            yield "".join(tup)


def _a_blocks(tier, s, order):
    """Blocks of wraps for string s, width by width.
    order A: [fold, every justify and tab size] [other modes] [fold again]
    order B: [other modes] [fold] [first other mode again]
    so fold is judged before and after the other modes ran, and a non-fold mode before and after fold."""
    L = len(s)
    tabs = (4, 8) if "\t" in s else (8,)
    tab1 = tabs[0]
    if tier == "quick":
        widths, justs = (2, 3, 4, 5, 9), JUSTIFY
        all_modes = L <= 4 and (2, 3, 5) or ()
        justs_b = JUSTIFY if L <= 4 else ("default", "full")
    elif L <= 6:
        widths, justs = range(2, 13), JUSTIFY
        all_modes = L <= 5 and (2, 3, 4, 5, 9) or ()
        justs_b = JUSTIFY if L <= 5 else ("default", "full")
    else:
        widths, justs = (2, 3, 4, 5), ("default", "full")
        all_modes = ()
        justs_b = ("default",)
    blocks = []
    for W in widths:
        if order == "A":
            blocks.append([(W, j, "fold", False, tab) for j in justs for tab in tabs])
            if W in all_modes:
                blocks.append([(W, j, ov, nw, tab1) for j in JUSTIFY for ov, nw in MODES[1:]])
            else:
                blocks.append([(W, "default", "ellipsis", False, tab1)])
            blocks.append([(W, "default", "fold", False, tab1)])
        else:
            if W in all_modes:
                other = [(W, "default", ov, nw, tab1) for ov, nw in MODES[1:]]
            else:
                other = [(W, "default", "ellipsis", False, tab1), (W, "default", "crop", False, tab1)]
            blocks.append(other)
            blocks.append([(W, j, "fold", False, tab1) for j in justs_b])
            blocks.append(other[:1])
    return blocks


def _part_a(sh, tier, res):
    for idx, s in enumerate(_strings(_maxlen(tier))):
        if idx % sh["n"] != sh["i"]:
            continue
        if deadline_passed():
            res.capped = True
            res.count("a_strings_not_reached", 1)
            break
        res.count("a_strings_order_" + sh["order"])
        run_group({"part": "a", "s": s}, _a_blocks(tier, s, sh["order"]), res)
        if idx % 4001 == 0:
            res.sample({"part": "a", "order": sh["order"], "s": s,
                        "wraps": [list(c) for blk in _a_blocks(tier, s, sh["order"])[:3] for c in blk][:8]}, limit=2)


# ------------------------------------------------------------------ (b) styles
def _pairs_in(n, empty=True):
    return [(a, e) for a in range(n + 1) for e in range(a if empty else a + 1, n + 1)]


def _pairs_over(n):
    """spans overhanging the text on one side that still cover at least one character"""
    return [(-1, e) for e in range(1, n + 2)] + [(a, n + 1) for a in range(n)]


def _patterns(k, alphabet="ABCD"):
    """style assignments of k spans up to renaming (restricted growth strings)"""
    def rec(prefix, used):
        if len(prefix) == k:
            yield "".join(prefix)
            return
        for i in range(min(used + 1, len(alphabet))):
            yield from rec(prefix + [alphabet[i]], max(used, i + 1))
    return list(rec([], 0))


_ALL_CFG = [(W, j, ov, nw) for W in (2, 3, 4, 7) for j in JUSTIFY for ov, nw in MODES]
_J3O3 = [(W, j, ov, False) for W in (2, 3, 4, 7) for j in ("default", "center", "full")
         for ov in ("fold", "ellipsis", "crop")]
_J5O3 = [(W, j, ov, False) for W in (2, 3, 4, 7) for j in JUSTIFY for ov in ("fold", "ellipsis", "crop")]
_FOLD2 = [(W, j, "fold", False) for W in (2, 3, 4, 7) for j in ("default", "full")]
_FOLD2_NARROW = [(W, j, "fold", False) for W in (2, 3, 4) for j in ("default", "full")]
_L3_THOROUGH = [(W, j, ov, False) for W in (2, 3, 4, 7)
                for j, ov in (("default", "fold"), ("full", "fold"), ("center", "ellipsis"))]


def _levels(tier):
    """-> list of (level name, carrier indices, generator of (base, spans) given carrier length, configs).
    _ORDERS says which levels are also run in order B (other modes before fold)."""
    def l0(n):
        yield False, ()
        yield True, ()

    def l1(n):
        for base in (False, True):
            for a, e in _pairs_in(n) + _pairs_over(n):
                for st in "AB":
                    yield base, ((a, e, st),)

    def l2_in(n):
        P = _pairs_in(n)
        for p in P:
            for q in P:
                for pat in ("AA", "AB", "BA"):
                    yield False, ((p[0], p[1], pat[0]), (q[0], q[1], pat[1]))

    def l2_over(n):
        P, O = _pairs_in(n), _pairs_over(n)
        for p in P + O:
            for q in P + O:
                if p in P and q in P:
                    continue
                for pat in ("AA", "AB", "BA"):
                    yield False, ((p[0], p[1], pat[0]), (q[0], q[1], pat[1]))

    def l2_base(n):
        P = _pairs_in(n)
        for p in P:
            for q in P:
                yield True, ((p[0], p[1], "A"), (q[0], q[1], "B"))

    def l2_all(n):
        P = _pairs_in(n) + _pairs_over(n)
        for base in (False, True):
            for p in P:
                for q in P:
                    for pat in ("AA", "AB", "BA", "BB"):
                        yield base, ((p[0], p[1], pat[0]), (q[0], q[1], pat[1]))

    def lk(k, empty):
        def gen(n):
            P = _pairs_in(n, empty=empty)
            pats = _patterns(k)
            for combo in itertools.product(P, repeat=k):
                for pat in pats:
                    yield False, tuple((combo[i][0], combo[i][1], pat[i]) for i in range(k))
        return gen

    every = list(range(len(CARRIERS)))
    short = [i for i in every if len(CARRIERS[i]) <= 5]
    if tier == "quick":
        return [
            ("L0", every, l0, _ALL_CFG),
            ("L1", every, l1, _ALL_CFG),
            ("L2", every, l2_in, _J3O3),
            ("L2over", every, l2_over, _FOLD2),
            ("L2base", every, l2_base, _FOLD2),
            ("L3", short, lk(3, False), _FOLD2_NARROW),
        ]
    shortest = [i for i in every if CARRIERS[i] in (" ab", "a\tb", "a あb")]
    return [
        ("L0", every, l0, _ALL_CFG),
        ("L1", every, l1, _ALL_CFG),
        ("L2", every, l2_all, _J5O3),
        ("L3", every, lk(3, True), _L3_THOROUGH),
        ("L4", shortest, lk(4, False), _FOLD2_NARROW),
    ]


def _level(tier, name):
    for lv in _levels(tier):
        if lv[0] == name:
            return lv
    raise KeyError(name)


_ORDERS = {"L0": ("A", "B"), "L1": ("A", "B")}        # every other level: order A only


def _b_blocks(cfgs, tabs, order):
    """Per width: order A = [fold wraps] [other modes] [first fold wrap again];
    order B = [other modes] [fold wraps] [first other mode again]."""
    blocks = []
    for W in sorted(set(c[0] for c in cfgs)):
        mine = [(W, j, ov, nw, tab) for w, j, ov, nw in cfgs if w == W for tab in tabs]
        fold = [c for c in mine if c[2] == "fold" and not c[3]]
        other = [c for c in mine if not (c[2] == "fold" and not c[3])]
        if order == "A":
            blocks += [fold, other] + ([fold[:1]] if other else [])
        else:
            blocks += [other, fold, other[:1]]
    return [blk for blk in blocks if blk]


def _part_b(sh, tier, res):
    name, _, gen, cfgs = _level(tier, sh["level"])
    s = CARRIERS[sh["carrier"]]
    tabs = (4, 8) if "\t" in s and name in ("L0", "L1") else (4,)
    blocks = _b_blocks(cfgs, tabs, sh.get("order", "A"))
    for idx, (base, spans) in enumerate(gen(len(s))):
        if idx % sh["n"] != sh["i"]:
            continue
        if deadline_passed():
            res.capped = True
            res.count("b_span_lists_not_reached", 1)
            break
        sp = [list(x) for x in spans]
        res.count("b_span_lists_order_" + sh.get("order", "A"))
        res.counters["max_spans"] = max(res.counters.get("max_spans", 0), len(sp))
        run_group({"part": "b", "level": name, "styled": True, "s": s, "base": base, "spans": sp}, blocks, res)
        if idx % 5003 == 17:
            res.sample({"part": "b", "level": name, "order": sh.get("order", "A"), "s": s, "base": base, "spans": sp}, limit=2)


# ------------------------------------------------------------------ protocol
def plan(tier, seed):
    na = 32 if tier == "quick" else 192
    a = []
    for i in range(na):
        a.append({"part": "a", "order": "A", "i": i, "n": na})
        a.append({"part": "a", "order": "B", "i": i, "n": na})
    b = []
    for name, carriers, gen, cfgs in _levels(tier):
        for order in _ORDERS.get(name, ("A",)):
            for ci in carriers:
                n = len(CARRIERS[ci])
                est = _count(name, tier, n) * len(cfgs)
                k = max(1, min(64, est // 25000))
                b += [{"part": "b", "level": name, "order": order, "carrier": ci, "i": i, "n": k} for i in range(k)]
    # interleave the two parts so that a run cut short by the wall cap has covered both evenly
    shards = []
    ia = ib = 0
    while ia < len(a) or ib < len(b):
        if ib * len(a) <= ia * len(b) and ib < len(b) or ia >= len(a):
            shards.append(b[ib])
            ib += 1
        else:
            shards.append(a[ia])
            ia += 1
    return shards


_COUNT_CACHE = {}


def _count(name, tier, n):
    key = (name, tier, n)
    if key not in _COUNT_CACHE:
        pin, pov = len(_pairs_in(n)), len(_pairs_over(n))
        pne = len(_pairs_in(n, empty=False))
        if name == "L0":
            c = 2
        elif name == "L1":
            c = 4 * (pin + pov)
        elif name == "L2" and tier == "quick":
            c = 3 * pin * pin
        elif name == "L2":
            c = 8 * (pin + pov) ** 2
        elif name == "L2over":
            c = 3 * ((pin + pov) ** 2 - pin * pin)
        elif name == "L2base":
            c = pin * pin
        elif name == "L3":
            c = 5 * (pne if tier == "quick" else pin) ** 3
        elif name == "L4":
            c = 15 * pne ** 4
        else:
            raise KeyError(name)
        _COUNT_CACHE[key] = c
    return _COUNT_CACHE[key]


def run_shard(sh, tier, seed):
    res = Result()
    _selfcheck()
    if sh["part"] == "a":
        _part_a(sh, tier, res)
    else:
        _part_b(sh, tier, res)
    return res


def describe(tier, seed, res):
    lv = "; ".join("%s on %d carriers x %d configurations" % (name, len(c), len(cfg))
                   for name, c, gen, cfg in _levels(tier))
    if tier == "quick":
        a_rule = ("all %d strings over {a, b, space, U+3042, U+0301, newline, tab} of length <=5 x widths {2,3,4,5,9}, each "
                  "string in two wrap orders in separate fresh processes. Order A per width: fold x 5 justify x tab size {4,8} "
                  "(8 only when there is no tab), then the six other (overflow, no_wrap) modes x 5 justify (length <=4, widths "
                  "{2,3,5}; otherwise ellipsis once), then fold again. Order B per width: the six other modes (length <=4, widths "
                  "{2,3,5}; otherwise ellipsis and crop), then fold x 5 justify (length 5: default, full), then the first other "
                  "mode again" % sum(7 ** i for i in range(6)))
        b_rule = ("L0 no span, L1 one span (every 0<=start<=end<=len plus spans overhanging one end by one position) x 2 styles "
                  "x base style on/off, both x widths {2,3,4,7} x 5 justify x 7 (overflow,no_wrap) modes; L2 every ordered pair "
                  "of in-range spans x style patterns AA/AB/BA x widths {2,3,4,7} x justify {default,center,full} x overflow "
                  "{fold,ellipsis,crop}; L2over pairs with an overhanging span, L2base pairs over a base style, both x widths x "
                  "justify {default,full}, fold; L3 every ordered triple of non-empty in-range spans x 5 style patterns "
                  "(assignments up to renaming) on the 6 carriers of <=5 characters x widths {2,3,4} x justify {default,full}, fold")
    else:
        a_rule = ("all %d strings of length <=7, each in wrap orders A and B (see quick) in separate fresh processes: "
                  "length <=6 x widths 2..12 x 5 justify x tab {4,8}; length 7 x widths {2,3,4,5} x justify {default,full}; "
                  "the six other (overflow, no_wrap) modes x 5 justify on length <=5 x widths {2,3,4,5,9}, otherwise "
                  "ellipsis (A) / ellipsis and crop (B); order B folds with 5 justify (length <=5), default+full (6), default (7)"
                  % sum(7 ** i for i in range(8)))
        b_rule = ("L0, L1 as in quick; L2 every ordered pair of spans (in-range or overhanging) x 4 style assignments x base on/off "
                  "x widths {2,3,4,7} x 5 justify x overflow {fold,ellipsis,crop}; L3 every ordered triple of in-range spans "
                  "(empty ones included) x 5 style patterns on all 8 carriers x widths {2,3,4,7} x {default/fold, full/fold, "
                  "center/ellipsis}; L4 every ordered 4-tuple of non-empty in-range spans x 15 style patterns on the 3 shortest "
                  "carriers x widths {2,3,4} x justify {default,full}, fold")
    return {
        "rule": "(a) characters: " + a_rule + ". (b) styles on 8 carriers with pairwise distinct non-whitespace characters "
                "(%s): %s [%s]. Per span list and width the wraps run in order A (fold wraps, other modes, first fold wrap "
                "again); L0 and L1 additionally in order B (other modes, fold wraps, first other mode again) in separate fresh "
                "processes. Every wrap goes through Text.wrap and is read back through line.render; a wrap that is not in the "
                "first block of its input is judged 'after a history' (finding keys history/...), a repeated wrap must equal "
                "its first result. "
                "A case is non-trivial when it produced more than one line, cropped characters, or an output character "
                "is covered by two spans of different style; distinct = distinct outcome signatures (level, mode, justify, "
                "position first/later/repeat in the history, line-count class, word split, cropped, style conflict, span crossing "
                "a line break)."
                % (", ".join(repr(c) for c in CARRIERS), b_rule, lv),
        "assumptions": [
            "whitespace = space, tab, newline; U+0301 counts as a non-whitespace character",
            "cell widths from Rich's CELL_WIDTHS data scanned linearly (vf/width.py); the table content is trusted",
            "characters that are not in the input (the ellipsis, the space replacing a halved wide character, padding, "
            "full-justify spaces, expanded tabs) carry no style obligation",
            "output whitespace is compared with an input position only when the count of spaces between two identified "
            "characters (or before the first one, justify default/left) equals the input's, or it directly follows the last "
            "word of an unpadded, uncropped line; never for inputs with tabs or justify=full",
            "a span covers position p iff start <= p < end; spans lying wholly outside the text are outside the property "
            "(Text.render itself raises on them, with or without wrapping) and are not enumerated",
            "line fit is required for overflow=fold only (with and without no_wrap), as the statement says",
            "indentation of a word = leading whitespace of its source line with tabs expanded to the next multiple of tab_size",
            "history: a worker process is forked per shard before anything was wrapped in it; 'before' means the first block "
            "of wraps of an input in that process (earlier inputs of the same shard were wrapped before it: for (a) each "
            "input's first wrap is a fold wrap in order A and a non-fold wrap in order B, for (b) the carrier text is the "
            "same for every span list of a shard)",
            "a history/<key> finding was confirmed by re-running its single last wrap alone in a new interpreter, where it passes",
        ],
        "coverage": {"wraps_judged_after_a_history": res.counters.get("wraps_judged_after_a_history", 0)},
    }


def replay(case):
    _selfcheck()
    res = Result()
    if "hist" in case:
        check_history(case, res)
    else:
        check_case(case, res)
    return [(k, v[2]) for k, v in sorted(res.violations.items())]


def _fresh_replay(flat):
    """Judges one flat case in a brand-new interpreter -> list of finding keys, or None if that failed."""
    code = ("import sys, json\nfrom vf import use_repo\nuse_repo()\nfrom vf.checks import c02\n"
            "print(json.dumps(c02.replay(json.loads(sys.argv[1]))))")
    try:
        p = subprocess.run([sys.executable, "-c", code, json.dumps(flat)], cwd=ROOT,
                           env=dict(os.environ, PYTHONHASHSEED="0"), capture_output=True, text=True, timeout=600)
        if p.returncode != 0:
            return None
        return [k for k, _ in json.loads(p.stdout.strip().splitlines()[-1])]
    except Exception:                                   # noqa: BLE001
        return None


def finish(tier, seed, res):
    """A failure seen after a history is a history finding only if the same single wrap passes in a
    fresh process. The kept (smallest) case of every history/<key> is re-run alone in a new
    interpreter; if it fails there with <key> too, the finding is filed under <key>."""
    for key in sorted(res.violations):
        if not key.startswith("history/") or key.startswith("history/result-changed/"):
            continue
        raw = key[len("history/"):]
        size, cj, detail = res.violations[key]
        case = json.loads(cj)
        flat = _flat({k: v for k, v in case.items() if k != "hist"}, tuple(case["hist"][-1]))
        verdict = _fresh_replay(flat)
        res.count("history_findings_rechecked_in_a_fresh_process")
        if verdict is None:
            res.violations[key] = (size, cj, detail + " [the fresh-process re-run could not be executed]")
        elif raw in verdict:
            n = res.vcount.pop(key)
            del res.violations[key]
            res.vcount[raw] = res.vcount.get(raw, 0) + n
            fj = json.dumps(flat, sort_keys=True, ensure_ascii=True)
            cand = (len(fj), fj, detail.split(": ", 1)[-1])
            old = res.violations.get(raw)
            if old is None or cand[:2] < old[:2]:
                res.violations[raw] = cand
        else:
            res.violations[key] = (size, cj, detail + " [the same single wrap passes in a fresh process]")


FRESH_WORKERS = True    # every shard runs in a newly forked worker that has wrapped nothing yet

TECHNIQUE = ("bounded-exhaustive enumeration of strings x ordered span lists x wrap configurations x wrap orders (fold before / "
             "after the other modes, in fresh processes) on the real Text.wrap, judged by an independent per-character "
             "reference model (char, RefStyle)")
LEVEL_TEXT = ("Every string over a 7-symbol alphabet up to the length bound and every ordered span list in scope is wrapped "
              "by the real code under every configuration in scope; conservation of non-whitespace characters, line fit, the "
              "word-break rule and the effective style of every identifiable output character are decided by a reference "
              "model that shares no code with rich. Exhaustive inside the stated bounds; nothing is sampled.")
LEVEL_NOTE = ("Trusted: CPython, the CELL_WIDTHS table data, RefStyle.from_rich (public Style accessors), the reference in "
              "vf/checks/c02.py. Bounds: strings <=5 (quick) / <=7 (thorough) characters; <=3 (quick) / <=4 (thorough) spans "
              "on 8 carrier strings; widths 2..12.")
