"""C11 -- Console output is thread-safe under every interleaving (E3, model checking).

Every harness puts 2-3 real threads on ONE console; the schedule explorer of vf/sched.py
enumerates every interleaving with at most `bound` preemptions (scheduling points: every
executed line of console/live/live_render/progress/file_proxy -- every bytecode in the
lock-protected read-modify-write functions --, every lock/event/thread operation, every
file write). Each execution runs to completion and is judged:

  * every print/log call reaches the file in exactly one write() by its own thread,
    contiguously and exactly once;
  * a capture returns exactly the sequential output of what was printed inside it and nothing
    of it reaches the file;
  * the record (export_text) has the same order as the file;
  * no deadlock, no exception;
  * with a live display: replaying the file in write order on the terminal model gives the
    printed lines in write order followed by the latest frame, the cursor never leaves the
    live region upward, and after stop() the cursor is visible.
"""
import io
import json

from ..par import Result, deadline_passed
from .. import sched
from ..term import Screen

ID = "C11"

LEVEL = "model_checking"
ENGINE = "E3"
CAP_S = {"quick": 420, "thorough": 3000}
TECHNIQUE = ("stateless model checking of the implementation: exhaustive enumeration of thread "
             "interleavings under a cooperative scheduler with iterative preemption bounding")
LEVEL_TEXT = ("Every schedule of each 2-3 thread harness with at most the stated number of preemptions is executed "
              "on the real Console/Live/Progress code (real threads, one running at a time) and judged against "
              "sequential outputs and a terminal model; schedules, choice points and distinct outcomes are counted. "
              "Complete inside the preemption bound; nothing is sampled.")
LEVEL_NOTE = ("Trusted: CPython's GIL gives sequential consistency at bytecode granularity; vf/sched.py "
              "(cooperative RLock/Event/Thread installed by module-global rebinding; sys.monitoring LINE/INSTRUCTION "
              "points); vf/term.py Screen. Reduction: rendering internals outside the five whitelisted modules are not "
              "scheduling points (they touch per-call data only); granularity 'shared' additionally skips "
              "console.py functions that only compute per-call values. Schedules beyond the bound are not covered.")

W, H = 20, 10

# console.py functions that only read immutable configuration / build per-call values
LOCAL_ONLY = {"Console.render", "Console.render_lines", "Console.render_str", "Console._collect_renderables",
              "Console.get_style", "Console.options", "Console.size", "Console.width", "Console.height",
              "Console.is_terminal", "Console.is_dumb_terminal", "Console.encoding", "Console.color_system",
              "ConsoleOptions.update", "ConsoleOptions.ascii_only", "RenderGroup.__rich_console__",
              "RenderGroup.renderables", "RenderGroup.__rich_measure__", "Console._theme_stack"}


def _console(f, **kw):
    from rich.console import Console
    import datetime
    kw.setdefault("color_system", None)
    return Console(file=f, width=W, height=H, force_terminal=True, legacy_windows=False, _environ={},
                   log_time=False, log_path=False, get_time=lambda: 0.0,
                   get_datetime=lambda: datetime.datetime(2020, 1, 1), **kw)


def _seq_output(fn, **kw):
    """what a call writes when it runs alone (no live display)"""
    f = io.StringIO()
    c = _console(f, **kw)
    fn(c)
    return f.getvalue()


# ----------------------------------------------------------------------------- harnesses
# A harness = build(s) -> env ; threads {tid: [op names]} ; ops are env -> None ; observe(env) -> dict
def _b_plain(record):
    def build(s):
        f = sched.RecFile()
        return {"f": f, "c": _console(f, record=record), "got": {}}
    return build


def _b_live(first, transient=False, auto=False):
    def build(s):
        from rich.live import Live
        f = sched.RecFile()
        c = _console(f)
        live = Live(first, console=c, auto_refresh=auto, redirect_stdout=False, redirect_stderr=False,
                    transient=transient, refresh_per_second=4)
        live.start()
        live.refresh()
        return {"f": f, "c": c, "live": live, "got": {}}
    return build


def _b_progress(s, auto=False):
    from rich.progress import Progress
    f = sched.RecFile()
    c = _console(f)
    p = Progress("{task.description} {task.completed}", console=c, auto_refresh=auto, redirect_stdout=False,
                 redirect_stderr=False, get_time=lambda: 0.0)
    t1 = p.add_task("t1", total=10)
    p.start()
    return {"f": f, "c": c, "p": p, "t1": t1, "got": {}}


def _b_progress_auto(s):
    return _b_progress(s, auto=True)


def _b_two_consoles(s):
    """two consoles (widths 30 and 40) on one file, and ONE renderable object shared by both threads"""
    from rich.console import Console
    from rich.table import Table
    f = sched.RecFile()
    c = _console(f)
    c2 = Console(file=f, width=34, height=H, force_terminal=True, legacy_windows=False, _environ={},
                 color_system=None, get_time=lambda: 0.0)
    t = Table(title="TT", expand=True)
    t.add_column("h")
    t.add_row("x")
    return {"f": f, "c": c, "c2": c2, "table": t, "got": {}}


class _Boom(Exception):
    pass


class _RaisesOnce:
    """live renderable whose k-th render raises (k counted over the whole execution)"""

    def __init__(self, k):
        self.calls = 0
        self.k = k

    def __rich_console__(self, console, options):
        self.calls += 1
        if self.calls == self.k:
            raise _Boom("render %d" % self.k)
        from rich.text import Text
        yield Text("F1")


def _b_live_faulty(s):
    from rich.live import Live
    f = sched.RecFile()
    c = _console(f)
    live = Live(_RaisesOnce(2), console=c, auto_refresh=False, redirect_stdout=False, redirect_stderr=False)
    live.start()
    live.refresh()          # render call 1 succeeds; the next render (by whichever thread) raises once
    return {"f": f, "c": c, "live": live, "got": {}}


class _FlushFailsOnce(sched.RecFile):
    """the first flush() after arming raises OSError (the write before it has reached the file)"""

    def __init__(self):
        super().__init__()
        self.armed = False

    def flush(self):
        super().flush()
        if self.armed:
            self.armed = False
            raise OSError("flush failed once")


def _b_flush_fault(s):
    f = _FlushFailsOnce()
    c = _console(f, record=True)
    f.armed = True
    return {"f": f, "c": c, "got": {}}


def _catching(name, exc):
    def op(e):
        try:
            OPS[name](e)
        except exc:
            e["got"].setdefault("caught", []).append(name)
    return op


def _capture_named(tag, text):
    def op(e):
        with e["c"].capture() as cap:
            e["c"].print(text)
        e["got"][tag] = cap.get()
    return op


def _b_live_not_started(s):
    from rich.live import Live
    f = sched.RecFile()
    c = _console(f)
    live = Live("F1", console=c, auto_refresh=False, redirect_stdout=False, redirect_stderr=False)
    return {"f": f, "c": c, "live": live, "got": {}}


def _capture_two(env):
    with env["c"].capture() as cap:
        env["c"].print("BBBB")
        env["c"].print("bbbb")
    env["got"]["cap"] = cap.get()


def _buffered_capture(env):
    """a capture entered inside a `with console:` block that has already buffered a print"""
    c = env["c"]
    with c:
        c.print("b0b0")
        with c.capture() as cap:
            c.print("BBBB")
        env["got"]["capB"] = cap.get()


def _export_mid(env):
    env["got"]["export_mid"] = env["c"].export_text(clear=False)


def _adv(env):
    env["p"].advance(env["t1"], 1)
    env["p"].refresh()


OPS = {
    "printA": lambda e: e["c"].print("AAAA aaaa"),
    "printB": lambda e: e["c"].print("BBBB\nbbbb"),
    "printP": lambda e: e["c"].print("PPPP"),
    "printQ": lambda e: e["c"].print("QQQQ"),
    "logA": lambda e: e["c"].log("AAAA"),
    "logB": lambda e: e["c"].log("BBBB"),
    "bufcapB": _buffered_capture,
    "capture2": _capture_two,
    "export_mid": _export_mid,
    "upd_same": lambda e: e["live"].update("G1", refresh=True),
    "upd_tall": lambda e: e["live"].update("G1\nG2\nG3", refresh=True),
    "stop": lambda e: e["live"].stop(),
    "pstop": lambda e: e["p"].stop(),
    "captureA": _capture_named("capA", "AAAA aaaa"),
    "captureB": _capture_named("capB", "BBBB"),
    "print_table_c1": lambda e: e["c"].print(e["table"]),
    "print_table_c2": lambda e: e["c2"].print(e["table"]),
    "start_refresh": lambda e: (e["live"].start(), e["live"].refresh()),
    "start": lambda e: e["live"].start(),
    "refresh": lambda e: e["live"].refresh(),
    "adv_refresh": _adv,
    "add_task": lambda e: e["p"].add_task("t2", total=5),
}
OPS["printP_catch"] = _catching("printP", _Boom)
OPS["printQ_catch"] = _catching("printQ", _Boom)
OPS["printA_c"] = _catching("printA", OSError)
OPS["printB_c"] = _catching("printB", OSError)
OPS["printP_c"] = _catching("printP", OSError)
# the text each print-like op must deliver exactly once (as it appears in the file)
MARKS = {"printA": ["AAAA aaaa"], "printB": ["BBBB", "bbbb"], "printP": ["PPPP"], "printQ": ["QQQQ"], "logA": ["AAAA"], "logB": ["BBBB"],
         "printA_c": ["AAAA aaaa"], "printB_c": ["BBBB", "bbbb"], "printP_c": ["PPPP"]}

HARNESSES = {
    # id: build, threads, kind, Event.wait timeout budget
    "H1": (_b_plain(True), {"A": ["printA"], "B": ["printB"]}, "plain", 0),
    "H2": (_b_plain(False), {"A": ["printA"], "B": ["capture2"]}, "capture", 0),
    "H3": (_b_plain(True), {"A": ["logA"], "B": ["printB"], "X": ["export_mid"]}, "plain", 0),
    "H4": (_b_live("F1"), {"A": ["printP"], "B": ["upd_same"]}, "live", 0),
    "H5g": (_b_live("F1"), {"A": ["printP"], "B": ["upd_tall"]}, "live", 0),
    "H5s": (_b_live("F1\nF2\nF3"), {"A": ["printP"], "B": ["upd_same"]}, "live", 0),
    "H6": (_b_live("F1", auto=True), {"A": ["printP", "stop"]}, "live", 2),
    "H7": (_b_progress, {"A": ["adv_refresh"], "B": ["printP"]}, "live", 0),
    "H7x": (_b_progress, {"A": ["adv_refresh"], "B": ["printP"], "X": ["add_task"]}, "live", 0),
    "H8a": (_b_live("F1"), {"A": ["printP"], "B": ["stop"]}, "live", 0),
    "H8b": (_b_live("F1"), {"A": ["printP"], "B": ["stop", "start", "refresh"]}, "live", 0),
    "H9": (_b_live("F1"), {"A": ["printP"], "B": ["printQ"]}, "live", 0),
    "H10": (_b_live("F1", transient=True), {"A": ["printP"], "B": ["stop"]}, "live", 0),
    # refresh()/update() hold the live lock from rendering to the write: these must be atomic against each other
    "H11": (_b_live("F1\nF2\nF3"), {"A": ["refresh"], "B": ["upd_same"]}, "live", 0),
    "H12": (_b_live("F1"), {"A": ["refresh"], "B": ["upd_tall"]}, "live", 0),
    "H13": (_b_live("F1\nF2\nF3"), {"A": ["upd_tall"], "B": ["upd_same"]}, "live", 0),
    # Progress with its refresh thread: print, then stop (joins the thread)
    "H14": (_b_progress_auto, {"A": ["printP", "pstop"]}, "live", 2),
    # two threads start the same, not yet started display
    "H15": (_b_live_not_started, {"A": ["start_refresh"], "B": ["start_refresh"]}, "live", 0),
    # one renderable object rendered by two threads for two different widths (rendering must not keep per-render
    # state on the renderable): needs scheduling points between the steps of Console.render -> "line" granularity
    # a live renderable that raises once while some thread renders it: the exception goes to that thread, nobody may hang
    "H18": (_b_live_faulty, {"A": ["printP_catch"], "B": ["printQ_catch"]}, "fault-live", 0),
    # two captures at the same time: each returns its own text
    "H19": (_b_plain(False), {"A": ["captureA"], "B": ["captureB"]}, "capture2", 0),
    # the first flush of the run raises once (the caller catches it): nothing may be written twice afterwards
    "H20": (_b_flush_fault, {"A": ["printA_c", "printP_c"], "B": ["printB_c"]}, "plain", 0),
    # four threads on one recording console (the statement's upper thread count), lock-level interleavings
    "H17": (_b_plain(True), {"A": ["printA"], "B": ["printB"], "X": ["printP"], "Y": ["printQ"]}, "plain", 0),
    # a refresh against stop(): after stop() has drawn the last frame nothing may draw it again
    "H21": (_b_live("F1"), {"A": ["refresh"], "B": ["stop"]}, "live", 0),
    # two log() calls (they share the console's LogRender object)
    "H22": (_b_plain(True), {"A": ["logA"], "B": ["logB"]}, "plain", 0),
    # a capture against a capture entered inside a `with console:` block whose buffer is not empty
    "H23": (_b_plain(False), {"A": ["captureA"], "B": ["bufcapB"]}, "capture2b", 0),
    "H16": (_b_two_consoles, {"A": ["print_table_c1"], "B": ["print_table_c2"]}, "plain", 0),
}


def _observe(env, s):
    c = env["c"]
    live = env.get("live") or env.get("p")
    obs = {"writes": list(env["f"].writes), "got": dict(env["got"]),
           "export": c.export_text(clear=False) if c.record else None,
           "hooks": len(c._render_hooks),
           "started": bool(live._started) if live is not None else None,
           "alive": [t for t in s.order if t not in s.finished] if s is not None else []}
    scr = Screen(W, H)
    for _, t in obs["writes"]:
        scr.feed(t)
    obs["screen"] = scr.visible_lines()
    obs["cursor_visible"] = scr.cursor_visible
    obs["events"] = [e for e in scr.events if e[0] in ("clamp-up", "unknown")]
    return obs


def make_concurrent(hid):
    build, threads, kind, tb = HARNESSES[hid]

    def make(s):
        env = build(s)

        def runner(names):
            def go():
                for n in names:
                    OPS[n](env)
            return go
        return {tid: runner(names) for tid, names in threads.items()}, lambda: _observe(env, s)
    return make


def _merges(threads):
    """all interleavings of the per-thread op lists (as lists of (tid, op))"""
    items = [(tid, list(ops)) for tid, ops in sorted(threads.items())]

    def rec(state):
        if all(i == len(ops) for (_, ops), i in zip(items, state)):
            yield []
            return
        for k, ((tid, ops), i) in enumerate(zip(items, state)):
            if i < len(ops):
                st2 = list(state)
                st2[k] += 1
                for rest in rec(st2):
                    yield [(tid, ops[i])] + rest
    return list(rec([0] * len(items)))


_SEQ = {}


def sequential_reference(hid):
    """Runs every sequential ordering of the harness's operations (one scheduler thread, default
    schedule) on the real code -> list of observations. These define the acceptable outcomes."""
    if hid in _SEQ:
        return _SEQ[hid]
    build, threads, kind, tb = HARNESSES[hid]
    outs = []
    for order in _merges(threads):
        def make(s, order=order):
            env = build(s)

            def go():
                for _tid, n in order:
                    OPS[n](env)
            return {"S": go}, lambda: _observe(env, s)
        s, obs = sched.run_once(make, [], "coarse", 0)
        if s.problem or s.errors:
            raise RuntimeError("sequential reference run failed for %s %r: %r %r" % (hid, order, s.problem, s.errors))
        obs["order"] = order
        outs.append(obs)
    _SEQ[hid] = outs
    return outs


# (harness, granularity, bound) per tier; completed in this order
PLAN = {
    # bound 99 = no preemption bound at all: every interleaving of the lock / event / thread / write operations
    "quick": [(h, "coarse", 2) for h in HARNESSES if h != "H17"] + [("H17", "coarse", 1)]
             + [(h, "shared", 1) for h in HARNESSES if h not in ("H7x", "H16", "H17")]
             + [(h, "coarse", 99) for h in ("H1", "H2")] + [("H16", "line", 1)]
             + [("H1", "shared", 2)],     # two first writers of a fresh recording console need two preemptions
    "thorough": [(h, "coarse", 3) for h in HARNESSES if h != "H17"] + [("H17", "coarse", 2)] + [(h, "line", 1) for h in HARNESSES if h != "H17"]
                + [(h, "shared", 2) for h in ("H1", "H2", "H9", "H4", "H11", "H13")]
                + [(h, "coarse", 99) for h in ("H1", "H2", "H11", "H13", "H4", "H9", "H15", "H12")],
}
NSPLIT = {"coarse": 4, "shared": 16, "line": 16}


def plan(tier, seed):
    shards = []
    for h, gran, bound in PLAN[tier]:
        n = 16 if bound >= 99 and h not in ("H1", "H2") else (NSPLIT[gran] if bound >= 2 or gran != "coarse" else 1)
        for i in range(n):
            shards.append({"h": h, "gran": gran, "bound": bound, "i": i, "n": n})
    return shards


# ----------------------------------------------------------------------------- judging
def _judge(hid, s, obs):
    """-> (signature, [(key, detail)])"""
    build, threads, kind, tb = HARNESSES[hid]
    v = []
    if s.problem:
        v.append(("%s/%s" % (hid, s.problem.split(":")[0]), "scheduler reports %s" % s.problem))
        return (hid, "problem", s.problem.split(":")[0]), v
    for tid, e in s.errors:
        v.append(("%s/exception/%s" % (hid, type(e).__name__), "thread %s raised %r" % (tid, e)))
    seq = sequential_reference(hid)
    writes = obs["writes"]
    file_text = "".join(t for _, t in writes)
    order = tuple(t for t, _ in writes if t is not None)

    # (1) each print-like call: exactly one write by its own thread holds its text, text exactly once in the file
    for tid, names in threads.items():
        for n in names:
            for mark in MARKS.get(n, ()):
                total = file_text.count(mark)
                mine = [t for w, t in writes if w == tid and mark in t]
                if total != 1 or len(mine) != 1:
                    v.append(("%s/print-not-exactly-once-in-one-write" % hid,
                              "%r occurs %d times in the file, in %d writes of thread %s: %r" % (mark, total, len(mine), tid, writes)))
    # (2) every write of the run is one that some sequential run also produces for that thread's call
    #     (a call's output is never split over several writes)
    n_writes = len([1 for w, _ in writes if w is not None])
    if n_writes not in {len([1 for w, _ in so["writes"] if w is not None]) for so in seq} and tb == 0:      # a refresh thread whose timed wait fires adds writes of its own
        v.append(("%s/write-count-differs-from-any-sequential-run" % hid,
                  "%d writes %r; sequential runs have %r" % (n_writes, writes, sorted({len([1 for w, _ in so["writes"] if w is not None]) for so in seq}))))
    if kind == "capture2":
        for tag, text in (("capA", "AAAA aaaa"), ("capB", "BBBB")):
            got = obs["got"].get(tag)
            want = seq[0]["got"].get(tag)
            if got != want:
                v.append(("%s/capture-content" % hid, "%s captured %r expected %r" % (tag, got, want)))
        if file_text:
            v.append(("%s/captured-text-reached-file" % hid, repr(file_text)))
    if kind == "capture2b":
        for tag in ("capA", "capB"):
            got = obs["got"].get(tag)
            want = seq[0]["got"].get(tag)
            if got != want:
                v.append(("%s/capture-content" % hid, "%s captured %r; alone it captures %r" % (tag, got, want)))
        if "AAAA" in file_text or "BBBB" in file_text:
            v.append(("%s/captured-text-reached-file" % hid, repr(file_text)))
    if kind == "fault-live":
        # exactly one thread sees the injected exception; both prints that did not raise are on the screen; no hang
        caught = obs["got"].get("caught", [])
        if len(caught) != 1:
            v.append(("%s/exception-count" % hid, "the fault was raised once, caught %r" % (caught,)))
    # (3) capture isolation
    if kind == "capture":
        want = seq[0]["got"].get("cap")
        if obs["got"].get("cap") != want:
            v.append(("%s/capture-content" % hid, "captured %r expected %r" % (obs["got"].get("cap"), want)))
        if "BBBB" in file_text or "bbbb" in file_text:
            v.append(("%s/captured-text-reached-file" % hid, repr(file_text)))
    # (4) record order == file order
    if obs["export"] is not None:
        if obs["export"] != file_text:
            v.append(("%s/record-order-differs-from-file" % hid, "export %r file %r" % (obs["export"], file_text)))
        if "export_mid" in obs["got"]:
            mid = obs["got"]["export_mid"]
            prefixes = ["".join(t for _, t in writes[:k]) for k in range(len(writes) + 1)]
            if mid not in prefixes:
                v.append(("%s/export-not-a-prefix-of-file-order" % hid, "export %r writes %r" % (mid, writes)))
    # (5) plain consoles: the file is one of the sequential files
    sym = "ok"
    if kind in ("plain", "capture", "capture2", "capture2b"):
        if file_text not in {"".join(t for _, t in so["writes"]) for so in seq}:
            sym = "file-not-sequential"
            v.append(("%s/file-differs-from-every-sequential-order" % hid, repr(file_text)))
    # (6) live: the screen after replaying the writes in file order is the screen of some sequential order
    if kind == "live":
        for ev in obs["events"]:
            v.append(("%s/%s" % (hid, "cursor-above-live-region" if ev[0] == "clamp-up" else "unknown-control"), repr(ev)))
        ok_screens = [so["screen"] for so in seq]
        if obs["screen"] not in ok_screens:
            marks = [m for names in threads.values() for n in names for m in MARKS.get(n, ())]
            got_marks = [l for l in obs["screen"] if l in marks]
            if any(sorted(got_marks) != sorted(l for l in sc if l in marks) for sc in ok_screens[:1]):
                sym = "printed-line-lost-or-duplicated"
            elif len(obs["screen"]) in {len(sc) for sc in ok_screens}:
                sym = "stale-frame"
            else:
                sym = "remnant"
            v.append(("%s/screen/%s/last-writer-%s" % (hid, sym, order[-1] if order else "none"), "screen %r; sequential orders give %r (writes %r)" % (
                obs["screen"], sorted(set(map(tuple, ok_screens))), writes)))
        fin = {(so["cursor_visible"], so["hooks"], so["started"]) for so in seq}
        if (obs["cursor_visible"], obs["hooks"], obs["started"]) not in fin:
            v.append(("%s/final-state" % hid, "cursor_visible=%r hooks=%r started=%r; sequential %r" % (
                obs["cursor_visible"], obs["hooks"], obs["started"], sorted(fin))))
        if obs["alive"]:
            v.append(("%s/thread-not-joined" % hid, repr(obs["alive"])))
    return (hid, order, sym), v


def _run(sh, res, stop):
    hid = sh["h"]
    tb = HARNESSES[hid][3]
    make = make_concurrent(hid)
    gran = sh["gran"]
    sched.install()
    _set_granularity(gran)
    sequential_reference(hid)

    def judge(s, obs):
        sig, vio = _judge(hid, s, obs)
        res.evaluations += 1
        res.sig(sig, nontrivial=len(set(sig[1])) > 1 or bool(vio))
        for key, detail in vio:
            res.violate(key, {"h": hid, "gran": gran, "tb": tb, "choices": list(s.choices)}, detail)
        res.count("choice_points", len(s.choices))
        res.count("max_steps_per_execution", 0)
        res.counters["max_steps_per_execution"] = max(res.counters.get("max_steps_per_execution", 0), s.steps)
    st = sched.explore(make, sh["bound"], judge, granularity="line" if gran != "coarse" else "coarse",
                       timeout_budget=tb, first_level=(sh["i"], sh["n"]), stop=stop)
    if not st["complete"]:
        res.capped = True
        res.count("incomplete:%s:%s:b%d" % (hid, gran, sh["bound"]))
    else:
        res.count("complete:%s:%s:b%d" % (hid, gran, sh["bound"]))
    if sh["i"] == 0:
        res.sample({"harness": hid, "granularity": gran, "bound": sh["bound"],
                    "default_schedule_choice_points": st["max_choice_points"]}, limit=1)


_SHARED_FILTER = {"on": False}
_orig_on_line = sched._on_line


def _set_granularity(gran):
    """'shared': line points only outside LOCAL_ONLY functions."""
    if gran == "shared":
        if not _SHARED_FILTER.get("codes"):
            import rich.console
            codes = set()
            for co, qual in sched._code_objects(rich.console).items():
                if ".".join(qual.split(".")[:2]) in LOCAL_ONLY:
                    codes.add(co)
            _SHARED_FILTER["codes"] = codes
        sched.SKIP_CODES = _SHARED_FILTER["codes"]
    else:
        sched.SKIP_CODES = frozenset()


def run_shard(sh, tier, seed):
    res = Result()
    _run(sh, res, deadline_passed)
    return res


def finish(tier, seed, res):
    # every violation is replayed twice from its recorded schedule; the two replays must agree
    for key, (size, cj, detail) in list(res.violations.items()):
        case = json.loads(cj)
        a = replay(case)
        b = replay(case)
        if a != b or key not in [k for k, _ in a]:
            from ..par import MachineryError
            raise MachineryError("schedule replay not reproducible for %s: %r vs %r" % (key, a, b))


def describe(tier, seed, res):
    done = sorted(k for k in res.counters if k.startswith("complete:"))
    inc = sorted(k for k in res.counters if k.startswith("incomplete:"))
    combos = {}
    for k in done:
        _, h, g, b = k.split(":")
        combos.setdefault(h, []).append("%s:%s" % (g, b))
    return {
        "rule": "per harness (H1 print||print+record, H2 print||capture, H3 log||print||export, H4/H5g/H5s live print||update "
                "same/taller/shorter, H6 live auto-refresh thread, H7/H7x progress advance+refresh||print(||add_task), H8a/H8b "
                "print||stop(/start/refresh), H9 live print||print, H10 transient print||stop, H11/H12 refresh||update shorter/taller, H13 update||update, H14 progress auto-refresh thread print;stop, H15 start||start, H18 live renderable raising once (caught), H19 capture||capture, H20 first flush raises once (caught) then more prints, H17 four printing threads on a recording console, H16 one Table object printed by two threads on two consoles of different width) every schedule with <= bound preemptions at the stated granularity "
                "(coarse = lock/event/thread/write operations; shared = + every line of the whitelisted modules except "
                "per-call-only console functions, bytecodes in the locked read-modify-write functions; line = every line). "
                "An execution is one complete schedule; non-trivial = at least two threads wrote to the file or a violation; "
                "distinct = distinct (write order, screen verdict) signatures.",
        "assumptions": [
            "sequential consistency at bytecode granularity (GIL)",
            "partial-order reduction: code outside rich.console/live/live_render/progress/file_proxy is not a scheduling point",
            "Event.wait timeouts fire only where the scheduler chooses (budget 2 in H6), each firing counted as a deviation",
            "terminal model: xterm deferred wrap, LF implies CR",
        ],
        "coverage": {
            "states": res.counters.get("choice_points", 0),
            "transitions": res.counters.get("choice_points", 0) + res.evaluations,
            "traces_validated_against_impl": res.evaluations,
            "schedules_explored": res.evaluations,
            "completed_bounds": combos,
            "incomplete": inc,
            "explanation": "states = scheduling choice points visited over all executions; every schedule is an execution of the real code",
        },
    }


def replay(case):
    hid = case["h"]
    tb = HARNESSES[hid][3]
    sched.install()
    _set_granularity(case["gran"])
    s, obs = sched.run_once(make_concurrent(hid), case["choices"], "line" if case["gran"] != "coarse" else "coarse", tb)
    if s.problem and s.problem.startswith("divergence"):
        return [("replay-divergence", s.problem)]
    sig, vio = _judge(hid, s, obs)
    return sorted(set(vio))
