"""C18 -- Colour down-conversion stays in gamut, is idempotent and picks the nearest entry.

Every colour in scope is built from a plain description, converted with the real
`Color.downgrade` to each of {STANDARD, EIGHT_BIT, TRUECOLOR, WINDOWS} and its SGR
parameters are read with the real `Color.get_ansi_codes`; an independent reference
judges each result:

* gamut        result is a well-formed colour of the target system (16 indices for
               standard / windows, 256 otherwise); a default colour stays default;
* unchanged    a colour that already is an index / triplet of the target system keeps
               its number / triplet;
* idempotent   converting the result again returns an equal colour; asking twice for
               the same conversion returns equal colours -- immediately (memo hit), in
               the opposite enumeration order after the 1024-entry memos have evicted
               the entry (recomputation), and after every history of <=3 conversions
               over a menu of colours that share names / triplets (part "hist");
* nearest      ->16 colours: the redmean distance (published formula, recomputed here
               in integers from the palette *data*) of the chosen entry equals the
               minimum over the 16 entries (ties accepted);
* greys        r=g=b ->256 lands on 16, 231 or 232..255;
* cube sanity  ->256: the chosen entry (decoded with an xterm table built here) is, per
               channel, the nearest level or a neighbour of it (necessary condition of
               "nearest"; the exact quantisation rule is not part of the statement);
* threads      two real threads converting at the same time through the shared palettes and
               memos: every interleaving of the executed lines with <= bound preemptions
               (vf/sched.py); each thread's result and the memoised answer afterwards obey
               the clauses above (keys threads/...);
* shared style one Style object (constructor, Style.parse memo, copy()) rendered for every
               sequence of <=3 colour systems, fg x bg over all colour kinds: every emitted
               SGR group is a colour of the system rendered for and the string equals a
               fresh Style's (keys style/..., style-history/...);
* faults       the first conversion of a cold process is cut short by an exception at every
               call of Palette.match / every executed line of rich.color; afterwards all 256
               indexed colours still convert correctly (keys fault/...);
* SGR          30-37/90-97, 40-47/100-107, 38;5;n, 38;2;r;g;b, 39/49 by kind, for the
               input and for every conversion result, foreground and background.

quick:    24^3 boundary grid x 4 constructors, all 256 greys, all palette triplets, all
          256 indexed, all names, default, 16 WINDOWS colours, a 64^3 lattice slice
          (offset rotates with the seed), conversion histories <=3.
thorough: all 16,777,216 RGB colours (256 shards by red channel; ascending pass fully
          judged, descending pass re-judges the conversions of the rows g = r (mod 4))
          + everything of quick except the lattice.
Threads part: quick 3,404 schedules over 8 harnesses (bound 1 on the seven palette
harnesses, bound 2 on ->256), each in its own cold forked child, ~25 ms each; thorough adds
bound 2 on same-palette and std-vs-win (~88 k schedules and ~420 CPU-s each, in-process) and
bound 3 on ->256 (2,955 schedules).  Fault part: 88 injected faults (18 shards), ~5 CPU-s.
Measured: quick 11.26 M evaluations, ~90 CPU-s (31 s wall with 6 workers on a machine at
load 47; ~8 s expected on 16 idle cores); thorough 422 M evaluations, 2079 CPU-s with 6
workers at load >100 (29 min wall there; ~2.5 min expected on 16 idle cores).
"""
import itertools
import json
import os
import pickle
import sys
import traceback

from ..par import Result, deadline_passed, MachineryError

ID = "C18"
LEVEL = "exploration"
ENGINE = "E1+E3+E4"
CAP_S = {"quick": 240, "thorough": 1500}
TECHNIQUE = ("exhaustive enumeration of the colour space on the real Color.downgrade / get_ansi_codes, "
             "judged by an independent integer redmean argmin, an xterm-256 decode table and the SGR table")
LEVEL_TEXT = ("Every RGB colour (thorough: all 16,777,216; quick: boundary grid, greys, palette colours and a lattice "
              "slice), every indexed, named, default and WINDOWS colour is converted by the real code to every colour "
              "system, in two enumeration orders and after every short conversion history, and each result is compared "
              "with a reference computed from the palette data alone. Exhaustive inside the stated bounds; nothing is sampled.")
LEVEL_NOTE = ("Trusted: CPython, the three palettes of rich/_palettes.py as data (entries 16..255 of the 256-colour palette "
              "are additionally checked against the xterm cube/ramp built here), the ~150-line reference in vf/checks/c18.py. "
              "Bounds: none in thorough for RGB inputs; histories <=3 conversions over 8 colours x 4 systems.")

SYSTEMS = ("STANDARD", "EIGHT_BIT", "TRUECOLOR", "WINDOWS")
HOWS = ("triplet", "rgb", "hex", "rgbstr")

# 24 values per channel: both sides of every rounding boundary of round(c/255*5),
# the ends, the interval mid-points and four palette levels (85, 170: standard palette; 95: xterm cube; 192: silver).
GRID = (0, 1, 13, 25, 26, 51, 76, 77, 85, 95, 102, 127, 128, 153, 170, 178, 179, 192, 204, 229, 230, 242, 254, 255)
assert len(GRID) == 24

LATTICE = 4  # quick: colours with every channel == offset (mod 4); offset = f(seed)

# ------------------------------------------------------------------ reference data built here (no rich)
CUBE_LEVELS = (0, 95, 135, 175, 215, 255)
XTERM = {}
for _i in range(216):
    XTERM[16 + _i] = (CUBE_LEVELS[_i // 36], CUBE_LEVELS[(_i // 6) % 6], CUBE_LEVELS[_i % 6])
for _i in range(24):
    XTERM[232 + _i] = (8 + 10 * _i,) * 3
GREY_LEVELS = (0,) + tuple(8 + 10 * k for k in range(24)) + (255,)   # index 0 = colour 16, 1..24 = 232..255, 25 = 231


def _nearest_set(levels, c):
    m = min(abs(c - v) for v in levels)
    return [i for i, v in enumerate(levels) if abs(c - v) == m]


CUBE_NEAR = [sum(1 << i for i in _nearest_set(CUBE_LEVELS, c)) for c in range(256)]
CUBE_OK = []
for _c in range(256):
    _m = 0
    for _i in _nearest_set(CUBE_LEVELS, _c):
        for _j in (_i - 1, _i, _i + 1):
            if 0 <= _j < 6:
                _m |= 1 << _j
    CUBE_OK.append(_m)
GREY_LO = [min(_nearest_set(GREY_LEVELS, c)) - 1 for c in range(256)]
GREY_HI = [max(_nearest_set(GREY_LEVELS, c)) + 1 for c in range(256)]
CUBE_DEC = {n: ((n - 16) // 36, ((n - 16) // 6) % 6, (n - 16) % 6) for n in range(16, 232)}


class Near16:
    """Redmean colour distance (compuphase low-cost approximation, integer form):
        rm = (r1 + r2) // 2
        d^2 = ((512 + rm) * dr^2 >> 8) + 4 * dg^2 + ((767 - rm) * db^2 >> 8)
    to the 16 entries of a palette.  sqrt is strictly monotone on these integers
    (< 2^20, gaps far above float resolution), so the argmin / tie structure of d
    and d^2 coincide.  Tables are per red value and per (red, green)."""

    def __init__(self, pal):
        self.pal = pal
        self.G = [tuple(4 * (g - p[1]) * (g - p[1]) for p in pal) for g in range(256)]
        self.cr = self.cg = None
        self.R = self.B = self.RG = None

    def set_r(self, r):
        """table mode for a block of colours sharing the red value r"""
        pal = self.pal
        rm = [(r + p[0]) // 2 for p in pal]
        self.R = [((512 + m) * (r - p[0]) * (r - p[0])) >> 8 for m, p in zip(rm, pal)]
        self.B = [tuple(((767 - m) * (b - p[2]) * (b - p[2])) >> 8 for m, p in zip(rm, pal)) for b in range(256)]
        self.cr, self.cg = r, None

    def d2(self, r, g, b):
        """squared distances of (r, g, b) to the 16 entries"""
        if r != self.cr:
            out = []
            for pr, pg, pb in self.pal:
                rm = (r + pr) // 2
                dr, dg, db = r - pr, g - pg, b - pb
                out.append((((512 + rm) * dr * dr) >> 8) + 4 * dg * dg + (((767 - rm) * db * db) >> 8))
            return out
        if g != self.cg:
            G = self.G[g]
            self.RG = [x + y for x, y in zip(self.R, G)]
            self.cg = g
        return [x + y for x, y in zip(self.RG, self.B[b])]


def _crash_key(e):
    tb = traceback.extract_tb(e.__traceback__)
    fr = None
    for f in tb:
        if (os.sep + "rich" + os.sep) in f.filename:
            fr = f
    fr = fr or tb[-1]
    return "crash/%s/%s:%s" % (type(e).__name__, os.path.basename(fr.filename), fr.name)


def _is_int(x):
    return isinstance(x, int) and not isinstance(x, bool)


def _read_palette(p):
    out = []
    for i in range(300):
        try:
            t = p[i]
        except IndexError:
            break
        out.append(tuple(t))
    return out


# ------------------------------------------------------------------ the judge
class Oracle:
    def __init__(self):
        from rich import color as rc
        from rich import palette as rp
        from rich import _palettes as pd
        from rich.color_triplet import ColorTriplet
        self.rc = rc
        self.Color = rc.Color
        self.ColorTriplet = ColorTriplet
        self.ColorType = rc.ColorType
        self.SYS = {n: getattr(rc.ColorSystem, n) for n in SYSTEMS}
        self.TYPE_NAME = {getattr(rc.ColorType, n): n for n in ("DEFAULT", "STANDARD", "EIGHT_BIT", "TRUECOLOR", "WINDOWS")}
        self.names = dict(rc.ANSI_COLOR_NAMES)
        self.STD = _read_palette(pd.STANDARD_PALETTE)
        self.WIN = _read_palette(pd.WINDOWS_PALETTE)
        self.EIGHT = _read_palette(pd.EIGHT_BIT_PALETTE)
        self._caches = [getattr(rc.Color.downgrade, "cache_clear", None),
                        getattr(rc.Color.get_ansi_codes, "cache_clear", None),
                        getattr(rc.Color.parse, "cache_clear", None),
                        getattr(rp.Palette.match, "cache_clear", None)]
        self.part = "rgb"      # violation cases: {"part", "desc"} + ctx, or case_base + ctx
        self.ctx = {}
        self.case_base = None
        self.inexact = 0
        self.f_ready = False
        self.near = {}
        if len(self.STD) == 16:
            self.near["STANDARD"] = Near16(self.STD)
        if len(self.WIN) == 16:
            self.near["WINDOWS"] = Near16(self.WIN)

    def clear_caches(self):
        for c in self._caches:
            if c is not None:
                c()

    def data_problems(self):
        """Palette data the reference relies on.  Entries 0..15 of every palette are
        Rich's choice (trusted); 16..255 of the 256-colour palette must be xterm's."""
        out = []
        for name, pal, n in (("standard", self.STD, 16), ("windows", self.WIN, 16), ("eight-bit", self.EIGHT, 256)):
            if len(pal) != n:
                out.append(("palette-data/%s-length" % name, "%d entries, want %d" % (len(pal), n)))
            bad = [i for i, t in enumerate(pal) if len(t) != 3 or not all(_is_int(v) and 0 <= v <= 255 for v in t)]
            if bad:
                out.append(("palette-data/%s-entry-malformed" % name, "entries %r" % bad[:8]))
        bad = [n for n in range(16, 256) if n < len(self.EIGHT) and tuple(self.EIGHT[n]) != XTERM[n]]
        if bad:
            out.append(("palette-data/eight-bit-not-xterm",
                        "entries %r differ from the xterm cube/ramp, e.g. %d: %r want %r"
                        % (bad[:8], bad[0], self.EIGHT[bad[0]], XTERM[bad[0]])))
        return out

    # ---- descriptions -> real colours and their reference value
    def build(self, desc):
        C = self.Color
        k = desc[0]
        if k == "rgb":
            _, r, g, b, how = desc
            if how == "triplet":
                return C.from_triplet(self.ColorTriplet(r, g, b))
            if how == "rgb":
                return C.from_rgb(r, g, b)
            if how == "hex":
                return C.parse("#%02x%02x%02x" % (r, g, b))
            if how == "rgbstr":
                return C.parse("rgb(%d,%d,%d)" % (r, g, b))
            if how.startswith("named:"):        # hand-built, chosen name
                return C(how[6:], self.ColorType.TRUECOLOR, triplet=self.ColorTriplet(r, g, b))
        elif k == "idx":
            _, n, how = desc
            if how == "ansi":
                return C.from_ansi(n)
            if how == "parse":
                return C.parse("color(%d)" % n)
            if how.startswith("name:"):
                return C.parse(how[5:])
            if how.startswith("named:"):
                return C(how[6:], self.ColorType.STANDARD if n < 16 else self.ColorType.EIGHT_BIT, number=n)
        elif k == "default":
            return C.default() if desc[1] == "default" else C.parse("default")
        elif k == "win":
            _, n, how = desc
            if how == "direct":
                return C("windows(%d)" % n, self.ColorType.WINDOWS, number=n)
            if how == "via-standard":
                return C.from_ansi(n).downgrade(self.SYS["WINDOWS"])
            if how.startswith("named:"):
                return C(how[6:], self.ColorType.WINDOWS, number=n)
        raise ValueError("bad description %r" % (desc,))

    @staticmethod
    def ref(desc):
        """reference value of a described colour: (kind, ...)"""
        k = desc[0]
        if k == "rgb":
            return ("rgb", desc[1], desc[2], desc[3])
        if k == "idx":
            return ("std", desc[1]) if desc[1] < 16 else ("idx", desc[1])
        if k == "default":
            return ("default",)
        return ("win", desc[1])

    def sem(self, d):
        """well-formedness of a real Color -> ((kind, value...), None) or (None, problem)"""
        if not isinstance(d, self.Color):
            return None, "not a Color: %r" % (d,)
        tn = self.TYPE_NAME.get(d.type)
        num, tri = d.number, d.triplet
        if tn == "TRUECOLOR":
            if num is None and isinstance(tri, tuple) and len(tri) == 3:
                r, g, b = tri
                if type(r) is int and type(g) is int and type(b) is int \
                        and 0 <= r <= 255 and 0 <= g <= 255 and 0 <= b <= 255:
                    return ("rgb", r, g, b), None
            return None, "truecolor colour with number %r triplet %r" % (num, tri)
        if tn == "STANDARD" or tn == "WINDOWS":
            if type(num) is int and 0 <= num < 16 and tri is None:
                return ("n16", num), None
            return None, "%s colour with number %r triplet %r" % (tn.lower(), num, tri)
        if tn == "EIGHT_BIT":
            if type(num) is int and 0 <= num < 256 and tri is None:
                return ("n256", num), None
            return None, "eight_bit colour with number %r triplet %r" % (num, tri)
        if tn == "DEFAULT":
            if num is None and tri is None:
                return ("default",), None
            return None, "default colour with number/triplet: %r" % (tuple(d),)
        return None, "unknown type %r" % (d.type,)

    @staticmethod
    def sgr(s, fg):
        k = s[0]
        if k == "default":
            return ("39",) if fg else ("49",)
        if k == "n16":
            n = s[1]
            if n < 8:
                return (str((30 if fg else 40) + n),)
            return (str((90 if fg else 100) + n - 8),)
        if k == "n256":
            return ("38" if fg else "48", "5", str(s[1]))
        return ("38" if fg else "48", "2", str(s[1]), str(s[2]), str(s[3]))

    def case(self, desc, **kw):
        c = dict(self.case_base) if self.case_base is not None else {"part": self.part, "desc": list(desc)}
        c.update(self.ctx)
        c.update(kw)
        return c

    def codes(self, c, s, res, desc, who, T=None):
        """get_ansi_codes of real colour c whose verified meaning is s"""
        wf = self.sgr(s, True)
        wb = self.sgr(s, False)
        try:
            gf = c.get_ansi_codes(foreground=True)
            gb = c.get_ansi_codes(foreground=False)
            if who == "input":          # also the positional / default spellings (separate memo keys) = a second call
                gf2 = c.get_ansi_codes(True)
                gb2 = c.get_ansi_codes(False)
                g0 = c.get_ansi_codes()
                res.evaluations += 5
            else:
                gf2, gb2, g0 = gf, gb, gf
                res.evaluations += 2
        except Exception as e:
            res.violate(_crash_key(e), self.case(desc, system=T), "get_ansi_codes of %r: %r" % (c, e))
            return
        if gf == wf and gb == wb and gf2 == wf and gb2 == wb and g0 == wf \
                and type(gf) is tuple and type(gb) is tuple:
            return
        for fg, got, got2, want in ((True, gf, gf2, wf), (False, gb, gb2, wb)):
            kind = s[0] + ("/fg" if fg else "/bg")
            if not (isinstance(got, tuple) and got == want and all(type(x) is str for x in got)):
                res.violate("sgr/%s/%s" % (who, kind), self.case(desc, system=T, fg=fg),
                            "%r.get_ansi_codes(foreground=%r) = %r, standard parameters are %r" % (c, fg, got, want))
            elif got2 != got:
                res.violate("sgr-repeat/%s/%s" % (who, kind), self.case(desc, system=T, fg=fg),
                            "%r: second call %r, first %r" % (c, got2, got))
        if who == "input" and g0 != wf:
            res.violate("sgr/%s/%s/default-arg" % (who, s[0]), self.case(desc, system=T),
                        "%r.get_ansi_codes() = %r, want foreground %r" % (c, g0, wf))

    def conv(self, c, ref, T, res, desc, full=True, keyprefix=""):
        """judge c.downgrade(T); ref = reference value of c.  Returns the signature."""
        ik = ref[0]
        S = self.SYS[T]

        def V(cls, detail):
            res.violate("%s%s/%s-to-%s" % (keyprefix, cls, ik, T.lower()), self.case(desc, system=T), detail)

        try:
            d = c.downgrade(S)
            d_again = c.downgrade(S)
        except Exception as e:
            res.violate(keyprefix + _crash_key(e), self.case(desc, system=T), "%r.downgrade(%s): %r" % (c, T, e))
            return (ik, T, "crash")
        res.evaluations += 2
        if d_again is not d and not (type(d_again) is type(d) and d_again == d):
            V("repeat", "%r.downgrade(%s): first %r, asked again %r" % (c, T, _show(d), _show(d_again)))
        s, prob = self.sem(d)
        if s is None:
            V("gamut", "%r.downgrade(%s) -> %s" % (c, T, prob))
            return (ik, T, "malformed")
        k0 = s[0]
        branch = "same"
        nontrivial = False
        if ik == "default":
            if k0 != "default":
                V("unchanged", "default colour became %s" % _show(d))
        else:
            sixteen = T == "STANDARD" or T == "WINDOWS"
            in_gamut = (k0 == "n16") if sixteen else \
                       (k0 == "n16" or k0 == "n256") if T == "EIGHT_BIT" else (k0 != "default")
            if not in_gamut:
                V("gamut", "%r.downgrade(%s) -> %s is not a colour of the %s system" % (c, T, _show(d), T.lower()))
                return (ik, T, "out-of-gamut", k0)
            if T == "TRUECOLOR" or (ik != "rgb" if T == "EIGHT_BIT" else (ik == "std" or ik == "win")):
                # the colour already is a colour of the target system
                want_val = ref if ik == "rgb" else ("n", ref[1])
                got_val = s if k0 == "rgb" else ("n", s[1])
                if got_val != want_val:
                    alt_ok = False
                    if ik == "win" and T == "STANDARD" and "STANDARD" in self.near and ref[1] < len(self.WIN):
                        # other admissible reading: nearest standard entry to the colour's own (Windows palette) triplet
                        dl = self.near["STANDARD"].d2(*self.WIN[ref[1]])
                        alt_ok = dl[s[1]] == min(dl)
                    if not alt_ok:
                        V("unchanged", "%r is already a colour of the %s system but downgrade returned %s"
                          % (c, T.lower(), _show(d)))
                    branch = "changed"
                nontrivial = d.type != c.type
            elif sixteen:
                nontrivial = True
                trip = ref[1:] if ik == "rgb" else XTERM[ref[1]]
                near = self.near.get(T)
                if near is not None:
                    dl = near.d2(trip[0], trip[1], trip[2])
                    m = min(dl)
                    k = s[1]
                    if dl[k] != m:
                        best = dl.index(m)
                        V("nearest", "%r (%r) -> %s entry %d %r at squared redmean distance %d; entry %d %r is at %d"
                          % (c, tuple(trip), T.lower(), k, near.pal[k], dl[k], best, near.pal[best], m))
                    branch = (k, dl.count(m) > 1)
            else:  # rgb -> EIGHT_BIT
                nontrivial = True
                n = s[1]
                r, g, b = ref[1], ref[2], ref[3]
                grey_in = r == g == b
                on_ramp = n == 16 or n >= 231
                if grey_in and not on_ramp:
                    res.violate("%sgrey/rgb-to-eight_bit-off-ramp" % keyprefix, self.case(desc, system=T),
                                "grey %r -> colour %d %r which is neither black, white nor on the grey ramp"
                                % ((r, g, b), n, XTERM.get(n, self.EIGHT[n] if n < len(self.EIGHT) else None)))
                if n < 16:
                    branch = ("low", grey_in)
                elif n < 232:
                    R, G, B = CUBE_DEC[n]
                    if not (CUBE_OK[r] >> R & 1 and CUBE_OK[g] >> G & 1 and CUBE_OK[b] >> B & 1):
                        res.violate(keyprefix + "to256/far-from-input", self.case(desc, system=T),
                                    "%r -> colour %d = %r: some channel is neither the nearest cube level nor next to it"
                                    % ((r, g, b), n, XTERM[n]))
                    exact = bool(CUBE_NEAR[r] >> R & 1 and CUBE_NEAR[g] >> G & 1 and CUBE_NEAR[b] >> B & 1)
                    if not exact:
                        self.inexact += 1
                    branch = ("bw" if on_ramp else "cube", grey_in, exact)
                else:
                    gi = n - 231
                    if not (GREY_LO[min(r, g, b)] <= gi <= GREY_HI[max(r, g, b)]):
                        res.violate(keyprefix + "to256/far-from-input", self.case(desc, system=T),
                                    "%r -> colour %d = grey %d: more than one ramp step outside the input's channel range"
                                    % ((r, g, b), n, GREY_LEVELS[gi]))
                    branch = ("ramp", grey_in)
        if full:
            try:
                d3 = d.downgrade(S)
            except Exception as e:
                res.violate(keyprefix + _crash_key(e), self.case(desc, system=T),
                            "%r.downgrade(%s).downgrade(%s): %r" % (c, T, T, e))
                d3 = d
            res.evaluations += 1
            if d3 is not d and not (type(d3) is type(d) and d3 == d):
                V("idempotent", "%r.downgrade(%s) = %s, converting that again gives %s" % (c, T, _show(d), _show(d3)))
            if d is not c:
                self.codes(d, s, res, desc, "result", T)
        sig = (ik, T, k0, branch)
        sigs = res.sigs
        sigs[sig] = sigs.get(sig, 0) + 1
        if nontrivial:
            res.nontrivial.add(sig)
        return sig

    # ---- accept-only fast path for from_triplet colours (thorough tier's inner loop).
    # It applies the same clauses as check_color/conv with prebound tables; whenever any
    # of them does not hold it returns False and the caller runs the generic judge, which
    # reports.  It never reports by itself, so it cannot raise an alarm of its own.
    def _fast_init(self):
        CT = self.ColorType
        self.f_types = (CT.TRUECOLOR, CT.STANDARD, CT.WINDOWS, CT.EIGHT_BIT)
        self.f_sgr16 = {True: [self.sgr(("n16", k), True) for k in range(16)],
                        False: [self.sgr(("n16", k), False) for k in range(16)]}
        self.f_sgr256 = {True: [self.sgr(("n256", k), True) for k in range(256)],
                         False: [self.sgr(("n256", k), False) for k in range(256)]}
        self.f_ready = True

    def fast_rgb(self, r, g, b, order, res, full):
        try:
            return self._fast_rgb(r, g, b, order, res, full)
        except Exception:
            return False

    def _fast_rgb(self, r, g, b, order, res, full):
        Color = self.Color
        T_TRUE, T_STD, T_WIN, T_8 = self.f_types
        c = Color.from_triplet(self.ColorTriplet(r, g, b))
        t = c.triplet
        if type(c) is not Color or c.type is not T_TRUE or c.number is not None or type(t) is not self.ColorTriplet \
                or t != (r, g, b) or type(t[0]) is not int or type(t[1]) is not int or type(t[2]) is not int:
            return False
        ev = 0
        if full:
            wf = ("38", "2", str(r), str(g), str(b))
            wb = ("48", "2", wf[2], wf[3], wf[4])
            if not (c.get_ansi_codes(foreground=True) == wf and c.get_ansi_codes(foreground=False) == wb
                    and c.get_ansi_codes(True) == wf and c.get_ansi_codes(False) == wb and c.get_ansi_codes() == wf):
                return False
            ev = 5
        sigs = []
        for T in order:
            S = self.SYS[T]
            d = c.downgrade(S)
            d2 = c.downgrade(S)
            ev += 2
            if type(d) is not Color or not (d2 is d or (type(d2) is Color and d2 == d)):
                return False
            if T == "TRUECOLOR":
                if d is not c and d != c:
                    return False
                if full:
                    d3 = d.downgrade(S)
                    ev += 1
                    if not (d3 is d or (type(d3) is Color and d3 == d)):
                        return False
                    if d is not c:
                        return False        # let the generic path look at the copy's SGR parameters
                sigs.append(("rgb", T, "rgb", "same"))
                continue
            n = d.number
            if type(n) is not int or d.triplet is not None:
                return False
            if T == "EIGHT_BIT":
                if d.type is not T_8 or not 16 <= n < 256:
                    return False
                grey_in = r == g == b
                on_ramp = n == 16 or n >= 231
                if grey_in and not on_ramp:
                    return False
                if n < 232:
                    R, G, B = CUBE_DEC[n]
                    if not (CUBE_OK[r] >> R & 1 and CUBE_OK[g] >> G & 1 and CUBE_OK[b] >> B & 1):
                        return False
                    exact = bool(CUBE_NEAR[r] >> R & 1 and CUBE_NEAR[g] >> G & 1 and CUBE_NEAR[b] >> B & 1)
                    if not exact:
                        self.inexact += 1
                    sig = ("rgb", T, "n256", ("bw" if on_ramp else "cube", grey_in, exact))
                else:
                    if not (GREY_LO[min(r, g, b)] <= n - 231 <= GREY_HI[max(r, g, b)]):
                        return False
                    sig = ("rgb", T, "n256", ("ramp", grey_in))
                codes = self.f_sgr256
            else:
                if (d.type is not T_STD and d.type is not T_WIN) or not 0 <= n < 16:
                    return False
                dl = self.near[T].d2(r, g, b)
                m = min(dl)
                if dl[n] != m:
                    return False
                sig = ("rgb", T, "n16", (n, dl.count(m) > 1))
                codes = self.f_sgr16
            if full:
                d3 = d.downgrade(S)
                if not (d3 is d or (type(d3) is Color and d3 == d)):
                    return False
                if d.get_ansi_codes(foreground=True) != codes[True][n] or d.get_ansi_codes(foreground=False) != codes[False][n]:
                    return False
                ev += 3
            sigs.append(sig)
        res.evaluations += ev
        rs, nt = res.sigs, res.nontrivial
        for sig in sigs:
            rs[sig] = rs.get(sig, 0) + 1
            if sig[2] != "rgb":
                nt.add(sig)
        return True

    def judge_value(self, d, ref, T):
        """clauses of conv() applied to a result value d of converting the colour with reference value
        ref (rgb / idx / std) to T, without calling the code under test (used on what a thread got).
        -> [(class, detail)]"""
        s, prob = self.sem(d)
        if s is None:
            return [("gamut", "result %s" % prob)]
        return self.judge_sem(s, ref, T, _show(d))

    def judge_sem(self, s, ref, T, shown=None):
        """the same clauses on a verified meaning s = (kind, value...) (also used on colours decoded
        from an emitted SGR sequence); ref may also be ("default",)"""
        shown = shown or repr(s)
        k0 = s[0]
        if ref[0] == "default":
            return [] if k0 == "default" else [("unchanged", "default colour became %s" % shown)]
        if k0 == "default":
            return [("gamut", "%r became the default colour" % (ref,))]
        out = []
        ik = ref[0]
        if ik != "rgb":
            n0 = ref[1]
            if T in ("STANDARD", "WINDOWS") and ik == "idx":
                if k0 != "n16":
                    return [("gamut", "%s is not a colour of the %s system" % (shown, T.lower()))]
                near = self.near.get(T)
                if near is not None:
                    trip = XTERM[n0]
                    dl = near.d2(*trip)
                    m = min(dl)
                    if dl[s[1]] != m:
                        best = dl.index(m)
                        out.append(("nearest", "colour %d %r -> %s entry %d %r at squared redmean distance %d; entry %d %r is at %d"
                                    % (n0, trip, T.lower(), s[1], near.pal[s[1]], dl[s[1]], best, near.pal[best], m)))
            else:
                if k0 not in ("n16", "n256"):
                    return [("gamut", "%s is not an indexed colour" % shown)]
                if s[1] != n0:
                    out.append(("unchanged", "colour %d became %s" % (n0, shown)))
            return out
        rgb = (ref[1], ref[2], ref[3])
        r, g, b = rgb
        if T == "TRUECOLOR":
            if s != ("rgb", r, g, b):
                out.append(("unchanged", "%r became %s" % (rgb, shown)))
        elif T in ("STANDARD", "WINDOWS"):
            if k0 != "n16":
                return [("gamut", "%s is not a colour of the %s system" % (shown, T.lower()))]
            near = self.near.get(T)
            if near is not None:
                dl = near.d2(r, g, b)
                m = min(dl)
                if dl[s[1]] != m:
                    best = dl.index(m)
                    out.append(("nearest", "%r -> %s entry %d %r at squared redmean distance %d; entry %d %r is at %d"
                                % (rgb, T.lower(), s[1], near.pal[s[1]], dl[s[1]], best, near.pal[best], m)))
        else:
            if k0 not in ("n16", "n256"):
                return [("gamut", "%s is not a colour of the eight_bit system" % shown)]
            n = s[1]
            if r == g == b and not (n == 16 or n >= 231):
                out.append(("grey", "grey %r -> colour %d, off the grey ramp" % (rgb, n)))
            if 16 <= n < 232:
                R, G, B = CUBE_DEC[n]
                if not (CUBE_OK[r] >> R & 1 and CUBE_OK[g] >> G & 1 and CUBE_OK[b] >> B & 1):
                    out.append(("far-from-input", "%r -> colour %d = %r" % (rgb, n, XTERM[n])))
            elif n >= 232 and not (GREY_LO[min(rgb)] <= n - 231 <= GREY_HI[max(rgb)]):
                out.append(("far-from-input", "%r -> colour %d = grey %d" % (rgb, n, GREY_LEVELS[n - 231])))
        return out

    _WANT = {"std": "n16", "win": "n16", "idx": "n256"}

    def check_color(self, desc, order, res, full=True):
        """build the described colour, judge its fields, its SGR parameters and its conversions"""
        try:
            c = self.build(desc)
        except Exception as e:
            res.violate(_crash_key(e), self.case(desc), "building %r: %r" % (desc, e))
            return
        ref = self.ref(desc)
        s, prob = self.sem(c)
        want = ref if ref[0] in ("rgb", "default") else (self._WANT[ref[0]], ref[1])
        if s != want:
            res.violate("input/%s-%s" % (desc[0], str(desc[-1]).split(":")[0]), self.case(desc),
                        "asked for %r, got %s (%s)" % (desc, _show(c), prob or s))
            return
        if full:
            self.codes(c, s, res, desc, "input")
        for T in order:
            self.conv(c, ref, T, res, desc, full)


def _show(d):
    try:
        return "%r=%r" % (d, tuple(d))
    except Exception:
        return repr(d)


_ORACLE = [None]


def oracle():
    if _ORACLE[0] is None:
        _ORACLE[0] = Oracle()
    return _ORACLE[0]


# ------------------------------------------------------------------ parts
def _rgb_block(colours, hows, res, sh, full_down, down_rows=None, info=False):
    """colours: list of (r, g, b) in ascending order.  Ascending pass with the systems in
    order, fully judged; descending pass with the systems reversed (every memo entry is
    met again at every age: the most recent ones still cached, the rest evicted).
    down_rows=(m, k): the descending pass only walks the colours with g % m == k."""
    O = oracle()
    O.clear_caches()
    if colours and all(c[0] == colours[0][0] for c in colours) and len(colours) > 64:
        for near in O.near.values():
            near.set_r(colours[0][0])
    up = SYSTEMS
    down = SYSTEMS[::-1]
    n = 0
    O.part, O.case_base, O.inexact = "rgb", None, 0
    inexact_up = 0
    fast = len(O.near) == 2 and not os.environ.get("VF_C18_NOFAST")
    if fast and not O.f_ready:
        O._fast_init()
    try:
        back = colours[::-1]
        if down_rows is not None:
            back = [c for c in back if c[1] % down_rows[0] == down_rows[1]]
        for direction, seq, order, full in (("up", colours, up, True), ("down", back, down, full_down)):
            O.ctx = {} if direction == "up" else {"dir": "down", "shard": sh}
            if direction == "down":
                inexact_up = O.inexact
            for (r, g, b) in seq:
                n += 1
                if n & 255 == 0 and deadline_passed():
                    res.capped = True
                    return
                for how in hows:
                    if fast and how == "triplet":
                        k = O.inexact
                        if O.fast_rgb(r, g, b, order, res, full):
                            continue
                        O.inexact = k
                    O.check_color(("rgb", r, g, b, how), order, res, full)
    finally:
        O.ctx = {}
        if info:
            res.count("info_rgb_to_256_cube_entry_not_per_channel_nearest", inexact_up)
            res.count("info_rgb_colours_counted", len(colours))
        res.count("rgb_colours", n if res.capped else len(colours))


def _small_descs(which, O):
    if which == "indexed":
        for n in range(256):
            yield ("idx", n, "ansi")
            yield ("idx", n, "parse")
        yield ("default", "default")
        yield ("default", "parse")
        for n in range(16):
            yield ("win", n, "direct")
            yield ("win", n, "via-standard")
    elif which == "named":
        for name, n in sorted(O.names.items(), key=lambda kv: (kv[1], kv[0])):
            yield ("idx", n, "name:" + name)


def _part_small(which, res, sh):
    O = oracle()
    O.clear_caches()
    descs = list(_small_descs(which, O))
    O.part, O.case_base = "small", None
    for direction, seq, order in (("up", descs, SYSTEMS), ("down", descs[::-1], SYSTEMS[::-1])):
        O.ctx = {} if direction == "up" else {"dir": "down", "shard": sh}
        for desc in seq:
            O.check_color(desc, order, res, True)
    O.ctx = {}
    res.sample({"part": "small", "which": which, "colours": len(descs)}, limit=1)


def _palette_colours(O):
    seen = []
    for pal in (O.STD, O.WIN, O.EIGHT):
        for t in pal:
            if len(t) == 3 and all(_is_int(v) and 0 <= v <= 255 for v in t) and tuple(t) not in seen:
                seen.append(tuple(t))
    for n in sorted(XTERM):
        if XTERM[n] not in seen:
            seen.append(XTERM[n])
    return sorted(seen)


# history menu: colours sharing a name or a triplet, one of every kind
H_COLOURS = [
    ("rgb", 95, 0, 0, "named:x"),
    ("rgb", 0, 0, 95, "named:x"),        # same name, other triplet
    ("rgb", 95, 0, 0, "hex"),            # same triplet, other name
    ("idx", 52, "named:x"),              # xterm 52 = (95, 0, 0), same name again
    ("idx", 9, "named:x"),
    ("win", 9, "named:x"),
    ("rgb", 128, 128, 128, "triplet"),
    ("default", "default"),
]
H_EVENTS = [(ci, T) for ci in range(len(H_COLOURS)) for T in SYSTEMS]
H_DEPTH = 3


def _hist_case(seq):
    return {"part": "hist", "seq": list(seq),
            "events": [list(H_COLOURS[H_EVENTS[e][0]]) + [H_EVENTS[e][1]] for e in seq]}


def _run_hist(seq, res, judge_all=False):
    O = oracle()
    O.clear_caches()
    O.part, O.ctx, O.case_base = "hist", {}, _hist_case(seq)
    try:
        _run_hist_events(O, seq, res, judge_all)
    finally:
        O.case_base = None


def _run_hist_events(O, seq, res, judge_all):
    for pos, ev in enumerate(seq):
        ci, T = H_EVENTS[ev]
        desc = H_COLOURS[ci]
        last = pos == len(seq) - 1
        try:
            c = O.build(desc)
            if last or judge_all:
                O.conv(c, O.ref(desc), T, res, desc, True,
                       keyprefix="" if len(seq) == 1 else "history/")
            else:
                c.downgrade(O.SYS[T])
                c.get_ansi_codes(True)
                c.get_ansi_codes(False)
        except Exception as e:
            res.violate(("" if len(seq) == 1 else "history/") + _crash_key(e),
                        _hist_case(seq), "history %r: %r" % (seq, e))
            return


def _part_hist(sh, res):
    ne = len(H_EVENTS)
    solo_bad = set()
    for ev in range(ne):
        before = sum(res.vcount.values())
        _run_hist((ev,), res)
        if sum(res.vcount.values()) != before:
            solo_bad.add(ev)
    hist = 0
    for L in range(2, H_DEPTH + 1):
        for seq in itertools.product(range(ne), repeat=L):
            if seq[0] % sh["n"] != sh["i"]:
                continue
            if solo_bad and any(e in solo_bad for e in seq):   # fails without any history: reported there
                continue
            if hist & 255 == 0 and deadline_passed():
                res.capped = True
                return
            hist += 1
            _run_hist(seq, res)
    res.count("histories", hist + (ne if sh["i"] == 0 else 0))
    res.sample({"part": "hist", "seq": [list(H_EVENTS[e]) for e in (0, 13, 9)]}, limit=1)


# ------------------------------------------------------------------ part "style"
# One Style object is rendered for a sequence of colour systems (Style.render keeps a one-slot
# (system, codes) memo; Style.parse / a theme / the caller share the object between consoles).
# Every emitted SGR parameter string is decoded here, its colour groups must be colours of the
# system rendered for and obey the sequential clauses (nearest, unchanged, default), and the
# whole string must equal what a fresh Style of the same definition emits for that system.
S_COLOURS = [
    None,
    ("default", "default"),
    ("idx", 1, "ansi"),            # red
    ("idx", 12, "ansi"),           # bright_blue
    ("idx", 52, "ansi"),           # xterm cube (95, 0, 0)
    ("idx", 244, "ansi"),          # grey ramp
    ("rgb", 255, 85, 85, "triplet"),
    ("rgb", 10, 200, 77, "triplet"),
]
S_KIND = {None: "none", "default": "default", "std": "standard", "idx": "eight_bit", "rgb": "truecolor"}
S_ATTRS = [(), ("bold",)]
S_MODES = ("ctor", "parse", "copy", "console")
S_EVENTS = SYSTEMS + (None,)          # None: render(color_system=None) -- must emit nothing and disturb nothing
S_DEPTH = 3
S_CONSOLE = {"STANDARD": "standard", "EIGHT_BIT": "256", "TRUECOLOR": "truecolor", "WINDOWS": "windows"}
S_ATTR_CODE = {"bold": "1"}


def _s_parse_sgr(params):
    """own decoder of one SGR parameter string -> (attrs, fg, bg) with fg/bg = meaning tuple or None;
    raises ValueError on anything that is not a standard parameter group"""
    attrs, fg, bg = [], None, None
    tok = params.split(";") if params else []
    i = 0
    while i < len(tok):
        t = tok[i]
        if not t.isdigit():
            raise ValueError("parameter %r" % t)
        n = int(t)
        col = None
        if n in (38, 48):
            if i + 1 >= len(tok):
                raise ValueError("truncated %d group" % n)
            if tok[i + 1] == "5":
                vals = tok[i + 2:i + 3]
                if len(vals) != 1 or not vals[0].isdigit() or not 0 <= int(vals[0]) <= 255:
                    raise ValueError("bad %d;5 group %r" % (n, vals))
                col = ("n256", int(vals[0]))
                i += 3
            elif tok[i + 1] == "2":
                vals = tok[i + 2:i + 5]
                if len(vals) != 3 or not all(v.isdigit() and 0 <= int(v) <= 255 for v in vals):
                    raise ValueError("bad %d;2 group %r" % (n, vals))
                col = ("rgb", int(vals[0]), int(vals[1]), int(vals[2]))
                i += 5
            else:
                raise ValueError("bad %d group selector %r" % (n, tok[i + 1]))
            is_fg = n == 38
        else:
            i += 1
            if 30 <= n <= 37:
                col, is_fg = ("n16", n - 30), True
            elif 90 <= n <= 97:
                col, is_fg = ("n16", n - 90 + 8), True
            elif 40 <= n <= 47:
                col, is_fg = ("n16", n - 40), False
            elif 100 <= n <= 107:
                col, is_fg = ("n16", n - 100 + 8), False
            elif n == 39:
                col, is_fg = ("default",), True
            elif n == 49:
                col, is_fg = ("default",), False
            else:
                attrs.append(t)
                continue
        if is_fg:
            if fg is not None:
                raise ValueError("two foreground groups")
            fg = col
        else:
            if bg is not None:
                raise ValueError("two background groups")
            bg = col
    return attrs, fg, bg


def _s_styles():
    for ai in range(len(S_ATTRS)):
        for fi in range(len(S_COLOURS)):
            for bi in range(len(S_COLOURS)):
                yield (fi, bi, ai)


def _s_definition(sd):
    fi, bi, ai = sd
    words = list(S_ATTRS[ai])

    def name(c):
        return "default" if c[0] == "default" else "color(%d)" % c[1] if c[0] == "idx" else "#%02x%02x%02x" % c[1:4]
    if S_COLOURS[fi] is not None:
        words.append(name(S_COLOURS[fi]))
    if S_COLOURS[bi] is not None:
        words += ["on", name(S_COLOURS[bi])]
    return " ".join(words)


def _s_build(O, sd, parsed):
    from rich.style import Style
    fi, bi, ai = sd
    if parsed:
        return Style.parse(_s_definition(sd))
    kw = {a: True for a in S_ATTRS[ai]}
    fg = O.build(S_COLOURS[fi]) if S_COLOURS[fi] is not None else None
    bg = O.build(S_COLOURS[bi]) if S_COLOURS[bi] is not None else None
    return Style(color=fg, bgcolor=bg, **kw)


def _s_emit(style, T, via_console):
    """-> the text emitted for 'x' in that style for system T (None: no colour system)"""
    if not via_console:
        return style.render("x", color_system=None if T is None else oracle().SYS[T])
    import io
    from rich.console import Console
    from rich.text import Text
    f = io.StringIO()
    c = Console(file=f, width=20, height=5, force_terminal=True, color_system=S_CONSOLE[T],
                legacy_windows=False, _environ={})
    c.print(Text("x", style=style, end=""), end="")
    return f.getvalue()


def _s_judge_output(O, sd, T, out):
    """clauses on one emitted string -> [(class, detail)]"""
    fi, bi, ai = sd
    if T is None:
        return [] if out == "x" else [("no-colour-system", "render(color_system=None) emitted %r" % out)]
    want_attrs = [S_ATTR_CODE[a] for a in S_ATTRS[ai]]
    if out == "x":
        params = None
    elif out.startswith("\x1b[") and out.endswith("mx\x1b[0m") and "\x1b" not in out[2:-6]:
        params = out[2:-6]
    else:
        return [("shape", "emitted %r, expected ESC [ params m x ESC [ 0 m" % out)]
    try:
        attrs, fg, bg = _s_parse_sgr(params) if params is not None else ([], None, None)
    except ValueError as e:
        return [("sgr-syntax", "emitted %r: %s" % (out, e))]
    vio = []
    if attrs != want_attrs:
        vio.append(("attributes", "emitted %r: attribute parameters %r, expected %r" % (out, attrs, want_attrs)))
    for which, ci, got in (("fg", fi, fg), ("bg", bi, bg)):
        desc = S_COLOURS[ci]
        if desc is None:
            if got is not None:
                vio.append(("spurious/%s" % which, "emitted %r: a %s colour although the style has none" % (out, which)))
            continue
        ref = O.ref(desc)
        tag = "%s/%s-to-%s" % (which, S_KIND[ref[0]], T.lower())
        if got is None:
            vio.append(("missing/" + tag, "emitted %r: no %s colour group" % (out, which)))
            continue
        k0 = got[0]
        ok = k0 in ("n16", "default") if T in ("STANDARD", "WINDOWS") else \
            k0 in ("n16", "n256", "default") if T == "EIGHT_BIT" else True
        if not ok:
            vio.append(("gamut/" + tag, "emitted %r: %s group %r is not a colour of the %s system"
                        % (out, which, got, T.lower())))
            continue
        for cls, detail in O.judge_sem(got, ref, T):
            vio.append(("%s/%s" % (cls, tag), "emitted %r: %s" % (out, detail)))
    return vio


def _s_run(sd, mode, seq, res, solo_bad=None):
    """one shared Style through the systems of seq (mode: how the object is obtained / shared);
    the last emission is judged"""
    from rich.style import Style
    O = oracle()
    O.clear_caches()
    cc = getattr(Style.parse, "cache_clear", None)
    if cc:
        cc()
    case = {"part": "style", "style": list(sd), "definition": _s_definition(sd), "mode": mode, "seq": list(seq)}
    prefix = "style/" if len(seq) == 1 else "style-history/"
    via_console = mode == "console"
    try:
        style = _s_build(O, sd, mode == "parse")
        out = None
        for pos, T in enumerate(seq):
            if mode == "parse":
                style = _s_build(O, sd, True)          # what every console does with a style name
            elif mode == "copy" and pos == len(seq) - 1 and pos > 0:
                style = style.copy()
            out = _s_emit(style, T, via_console)
        T = seq[-1]
        fresh = _s_emit(_s_build(O, sd, False), T, via_console)
    except Exception as e:
        res.violate(prefix + _crash_key(e), case, "%r: %r" % (case, e))
        return
    res.evaluations += len(seq) + 1
    vio = _s_judge_output(O, sd, T, out)
    if len(seq) > 1:
        # the fresh emission is judged in full by the length-1 history; a history adds two classes only:
        # a group outside the gamut of the system rendered for, and any difference from the fresh emission
        vio = [("gamut/" + cls.split("/")[1], detail) for cls, detail in vio if cls.startswith("gamut/")]
        if solo_bad is not None and (sd, mode, T) in solo_bad:
            vio = []
        if out != fresh:
            def parts(text):
                try:
                    at, fg, bg = _s_parse_sgr(text[2:-6]) if text != "x" else ([], None, None)
                    return {"attributes": at, "fg": fg, "bg": bg}
                except Exception:
                    return {"shape": text}
            pa, pb = parts(out), parts(fresh)
            comp = [k for k in ("shape", "attributes", "fg", "bg") if pa.get(k) != pb.get(k)] or ["text"]
            for k in comp:
                vio.append(("differs-from-fresh/" + k,
                            "after rendering for %r the shared style emits %r for %s; a fresh Style(%r) emits %r"
                            % (list(seq[:-1]), out, T, _s_definition(sd), fresh)))
    elif vio and solo_bad is not None:
        solo_bad.add((sd, mode, T))
    for cls, detail in vio:
        res.violate(prefix + cls, case, detail)
    same_before = T in seq[:-1]
    res.sig(("style", mode, len(seq), T, len(set(seq)) > 1, same_before, bool(vio)),
            nontrivial=len(set(seq)) > 1)


def _s_sequences(mode):
    ev = SYSTEMS if mode == "console" else S_EVENTS
    depth = 2 if mode == "console" else S_DEPTH
    for L in range(1, depth + 1):
        for seq in itertools.product(ev, repeat=L):
            yield seq


def _part_style(sh, res):
    mode = sh["mode"]
    solo_bad = set()
    n = 0
    for idx, sd in enumerate(_s_styles()):
        if idx % sh["n"] != sh["i"]:
            continue
        if deadline_passed():
            res.capped = True
            break
        for seq in _s_sequences(mode):
            _s_run(sd, mode, seq, res, solo_bad)
            n += 1
    res.count("style_histories", n)
    if sh["i"] == 0:
        res.sample({"part": "style", "mode": mode, "definition": _s_definition((2, 6, 1)),
                    "seq": ["TRUECOLOR", "STANDARD"]}, limit=1)


# ------------------------------------------------------------------ cold children
# Lazily built module state (lookup tables, instance attributes) survives cache_clear().  A
# pool worker of this check handles exactly one shard (FRESH_WORKERS) and the shards of the
# "threads" and "fault" parts never convert a colour themselves: every execution runs in a
# child forked from that still-cold worker, so each one starts from the state of a process
# that has imported rich and converted nothing.
FRESH_WORKERS = True


def _in_child(fn):
    r, w = os.pipe()
    pid = os.fork()
    if pid == 0:
        try:
            os.close(r)
            try:
                data = pickle.dumps(("ok", fn()))
            except BaseException:
                data = pickle.dumps(("err", traceback.format_exc()))
            with os.fdopen(w, "wb") as f:
                f.write(data)
        finally:
            os._exit(0)
    os.close(w)
    with os.fdopen(r, "rb") as f:
        data = f.read()
    os.waitpid(pid, 0)
    st, out = pickle.loads(data) if data else ("err", "child process died without an answer")
    if st != "ok":
        raise MachineryError("child failed: %s" % out)
    return out


# ------------------------------------------------------------------ part "threads" (E3)
# Two real threads convert colours at the same time through the process-wide palettes, memos and
# whatever module state the conversion keeps; vf/sched.py enumerates every interleaving of the
# executed lines of rich.color and rich.palette with <= bound preemptions.  Each thread's result,
# and the (memoised) answer to the same question asked afterwards, must satisfy the sequential
# clauses.
_RGB = lambda r, g, b: ("rgb", r, g, b, "rgb")      # noqa: E731
_IDX = lambda n: ("idx", n, "ansi")                 # noqa: E731
T_HARNESS = {
    # id: (colour A, system A, colour B, system B)
    "same-palette": (_RGB(255, 85, 85), "STANDARD", _RGB(85, 85, 255), "STANDARD"),    # exact entries 9 and 12
    "same-colour": (_RGB(200, 30, 30), "STANDARD", _RGB(200, 30, 30), "STANDARD"),
    "std-vs-win": (_RGB(255, 85, 85), "STANDARD", _RGB(59, 120, 255), "WINDOWS"),      # exact entries 9 / 12
    "win-win": (_RGB(231, 72, 86), "WINDOWS", _RGB(12, 12, 12), "WINDOWS"),            # exact entries 9 / 0
    "to-256": (_RGB(255, 85, 85), "EIGHT_BIT", _RGB(128, 128, 128), "EIGHT_BIT"),      # cube path / grey path
    "idx-std": (_IDX(196), "STANDARD", _IDX(231), "STANDARD"),
    "idx-win": (_IDX(196), "WINDOWS", _IDX(231), "WINDOWS"),
    "idx-vs-rgb": (_IDX(196), "STANDARD", _RGB(85, 85, 255), "STANDARD"),
}
T_ORDER = ("idx-std", "idx-win", "idx-vs-rgb", "same-palette", "same-colour", "std-vs-win", "win-win", "to-256")
T_MAX_EXECS = 4000          # a clean harness has ~425 schedules; beyond this the shard reports capped
T_STOP_AFTER_VIOLATIONS = 12
T_SHARD_BUDGET_S = 60
_T_CODES = []
_T_ON = [None]


def _t_bound(hid, tier):
    # one palette scan is ~210 line points per thread: bound 1 = 422 schedules (~3 CPU-s),
    # bound 2 = ~88,000 schedules (~420 CPU-s) per harness (measured)
    if hid == "to-256":
        return 2 if tier == "quick" else 3
    if tier == "thorough" and hid in ("same-palette", "std-vs-win"):
        return 2
    return 1


def _t_forked(hid, bound):
    """bound-2 palette harnesses (thorough) run in the worker (memos cleared per execution); all others
    run every execution in a cold child"""
    return not (bound == 2 and hid != "to-256")


def _t_events(on):
    """LINE events of every code object of rich.palette / rich.color as scheduling points; switched
    off again after the shard (the callback would slow every later conversion in this worker)."""
    from .. import sched
    sched.install()
    if not _T_CODES:
        import rich.color
        import rich.palette
        for mod in (rich.palette, rich.color):
            _T_CODES.extend(sched._code_objects(mod))
    if _T_ON[0] == on:
        return
    _T_ON[0] = on
    ev = sys.monitoring.events.LINE if on else 0
    for co in _T_CODES:
        sys.monitoring.set_local_events(sched.TOOL, co, ev)
    sched.SKIP_CODES = frozenset()


def _t_make(hid):
    da, sa, db, sb = T_HARNESS[hid]
    O = oracle()

    def make(s):
        O.clear_caches()
        out = {}

        def A():
            out["A"] = O.build(da).downgrade(O.SYS[sa])

        def B():
            out["B"] = O.build(db).downgrade(O.SYS[sb])

        def observe():
            again = {}
            for tid, dsc, sy in (("A", da, sa), ("B", db, sb)):
                try:
                    again[tid] = O.build(dsc).downgrade(O.SYS[sy])
                except Exception as e:
                    again[tid] = e
            return {"got": dict(out), "again": again}
        return {"A": A, "B": B}, observe
    return make


def _t_judge(hid, s, obs):
    """-> (signature, [(key, detail)])"""
    da, sa, db, sb = T_HARNESS[hid]
    O = oracle()
    vio = []
    if s.problem:
        vio.append(("threads/%s" % s.problem.split(":")[0], s.problem))
    for tid, e in s.errors:
        vio.append(("threads/exception/%s" % type(e).__name__, "thread %s raised %r" % (tid, e)))
    nums = []
    for tid, dsc, sy in (("A", da, sa), ("B", db, sb)):
        ref = O.ref(dsc)
        tag = "%s-to-%s" % (ref[0], sy.lower())
        if tid not in obs["got"]:
            nums.append(None)
            if not s.problem and not any(t == tid for t, _ in s.errors):
                vio.append(("threads/no-result", "thread %s stored no result" % tid))
            continue
        d = obs["got"][tid]
        nums.append(getattr(d, "number", None))
        for cls, detail in O.judge_value(d, ref, sy):
            vio.append(("threads/%s/%s" % (cls, tag), "thread %s: %s" % (tid, detail)))
        a = obs["again"][tid]
        if isinstance(a, Exception):
            vio.append(("threads/requery-exception/%s" % type(a).__name__,
                        "asking again for %r -> %s: %r" % (dsc, sy, a)))
            continue
        for cls, detail in O.judge_value(a, ref, sy):
            vio.append(("threads/memoised/%s/%s" % (cls, tag), "asked again after the threads finished: %s" % detail))
        if not (type(a) is type(d) and a == d):
            vio.append(("threads/requery-differs/%s" % tag,
                        "thread %s got %s, the same question afterwards gives %s" % (tid, _show(d), _show(a))))
    dev = s.deviations_before(len(s.choices))
    return ("threads", hid, tuple(nums), min(dev, 3), bool(vio)), vio


def _t_child(hid, prefix):
    """one execution in a cold child -> plain data"""
    from .. import sched
    _t_events(True)        # already on when forked from _explore_forked's worker; cheap then
    s, obs = sched.run_once(_t_make(hid), prefix, "line", 0)
    sig, vio = _t_judge(hid, s, obs)
    return {"choices": list(s.choices), "cp": [tuple(c) for c in s.cp], "sig": sig, "vio": vio,
            "problem": s.problem, "steps": s.steps}


def _explore_forked(hid, bound, on_exec, stop):
    """sched.explore() with every execution in its own cold child.  on_exec(record) -> False to stop."""
    stats = {"executions": 0, "max_choice_points": 0, "complete": True}

    def children(rec, plen):
        """lazy children (choices of the parent, position, alternative): prefix = choices[:i] + [alt]"""
        out = []
        cp, ch = rec["cp"], rec["choices"]
        dev = sum(1 for j in range(plen) if ch[j] != 0 and (cp[j][1] or cp[j][2][ch[j]] == "fire"))
        for i in range(plen, len(cp)):
            nopt, ren, kinds = cp[i]
            if dev > bound:
                break
            for alt in range(1, nopt):
                if dev + (1 if (ren or kinds[alt] == "fire") else 0) <= bound:
                    out.append((ch, i, alt))
            if ch[i] != 0 and (ren or kinds[ch[i]] == "fire"):
                dev += 1
        return out

    # scheduler installed, events on and oracle built in the worker before forking: none of this
    # converts a colour, and the children inherit it instead of redoing it
    oracle()
    _t_events(True)
    stack = [([], 0, None)]
    while stack:
        ch, i, alt = stack.pop()
        prefix = [] if alt is None else ch[:i] + [alt]
        if stop() or stats["executions"] >= T_MAX_EXECS:
            stats["complete"] = False
            break
        rec = _in_child(lambda: _t_child(hid, prefix))
        if rec["problem"] and rec["problem"].startswith("divergence"):
            raise MachineryError("schedule replay diverged: %s prefix=%r" % (rec["problem"], prefix[-20:]))
        stats["executions"] += 1
        stats["max_choice_points"] = max(stats["max_choice_points"], len(rec["choices"]))
        if on_exec(rec) is False:
            stats["complete"] = False
            break
        kids = children(rec, len(prefix))
        kids.reverse()
        stack.extend(kids)
    return stats


def _part_threads(sh, tier, res):
    from .. import sched
    import time
    hid, bound = sh["h"], sh["bound"]
    t0 = time.time()

    def record(sig, vio, choices):
        res.evaluations += 4            # two conversions in threads + two re-queries, all judged
        res.sig(sig, nontrivial=sig[3] > 0)
        res.count("choice_points", len(choices))
        if vio:
            ch = list(choices)
            while ch and ch[-1] == 0:       # the default choice after the prefix is 0 anyway
                ch.pop()
            for key, detail in vio:
                res.violate(key, {"part": "threads", "h": hid, "choices": ch}, detail)

    if _t_forked(hid, bound):
        bad = [0]

        def on_exec(rec):
            record(rec["sig"], rec["vio"], rec["choices"])
            if rec["vio"]:
                bad[0] += 1
            return bad[0] < T_STOP_AFTER_VIOLATIONS      # counterexamples found: no need to finish the space
        st = _explore_forked(hid, bound, on_exec,
                             lambda: deadline_passed() or time.time() - t0 > T_SHARD_BUDGET_S)
    else:
        _t_events(True)
        try:
            def judge(s, obs):
                sig, vio = _t_judge(hid, s, obs)
                record(sig, vio, s.choices)
            st = sched.explore(_t_make(hid), bound, judge, granularity="line", timeout_budget=0,
                               first_level=(sh["i"], sh["n"]), stop=deadline_passed)
        finally:
            _t_events(False)
    res.count("schedules", st["executions"])
    res.counters["max_choice_points_per_schedule"] = st["max_choice_points"]
    if st["complete"]:
        if sh["i"] == 0:
            res.count("threads_complete:%s:b%d" % (hid, bound))
    else:
        res.capped = True
        res.count("threads_incomplete:%s:b%d" % (hid, bound))
    if sh["i"] == 0:
        da, sa, db, sb = T_HARNESS[hid]
        res.sample({"part": "threads", "harness": hid, "A": [list(da), sa], "B": [list(db), sb], "bound": bound,
                    "cold_child_per_schedule": _t_forked(hid, bound)}, limit=1)


def _replay_threads(case, res):
    oracle()
    rec = _in_child(lambda: _t_child(case["h"], list(case["choices"])))
    for key, detail in rec["vio"]:
        res.violate(key, case, detail)


# ------------------------------------------------------------------ part "fault" (E4)
# The first conversion of a cold process is cut short by an exception (a caught Ctrl-C): at the
# k-th execution of Palette.match, or at the k-th executed line of rich.color, for every k of the
# fault-free run.  The exception is caught, then all 256 indexed colours and a few RGB colours
# are converted to every system and judged: nothing half-initialised may survive.
F_FIRST = (_IDX(196), _IDX(16), _RGB(255, 85, 85))
F_SYSTEMS = ("STANDARD", "WINDOWS", "EIGHT_BIT")
F_RGB_AFTER = [(0, 0, 0), (255, 255, 255), (255, 85, 85), (85, 85, 255), (128, 128, 128), (95, 0, 0), (12, 200, 77)]
F_MAX_K = 1500
F_STOP_AFTER_VIOLATIONS = 6      # counterexamples found: the shard stops (and says it is not exhaustive)
F_SHARD_BUDGET_S = 90
F_TOOL = 3


class InjectedFault(BaseException):
    """stands for KeyboardInterrupt: not an Exception, so no `except Exception` of the library hides it"""


def _f_child(first, T, kind, k):
    """cold child: arm the fault (k = 0: only count), run the first conversion, judge afterwards"""
    import rich.color
    import rich.palette
    from .. import sched
    O = oracle()
    mon = sys.monitoring
    state = {"n": 0, "armed": False}

    def hit(*_a):
        if state["armed"]:
            state["n"] += 1
            if state["n"] == k:
                state["armed"] = False
                raise InjectedFault("fault %s #%d" % (kind, k))

    mon.use_tool_id(F_TOOL, "vf-c18-fault")
    if kind == "match":
        fn = rich.palette.Palette.match
        code = getattr(fn, "__wrapped__", fn).__code__
        mon.register_callback(F_TOOL, mon.events.PY_START, hit)
        mon.set_local_events(F_TOOL, code, mon.events.PY_START)
        codes = [code]
    else:
        codes = list(sched._code_objects(rich.color))
        mon.register_callback(F_TOOL, mon.events.LINE, hit)
        for co in codes:
            mon.set_local_events(F_TOOL, co, mon.events.LINE)
    res = Result()
    case = {"part": "fault", "first": list(first), "system": T, "kind": kind, "k": k}
    c = O.build(first)
    raised = other = None
    state["armed"] = True
    try:
        c.downgrade(O.SYS[T])
    except InjectedFault as e:
        raised = e
    except Exception as e:
        other = e
    finally:
        state["armed"] = False
        for co in codes:
            mon.set_local_events(F_TOOL, co, 0)
    n_points = state["n"]
    if k == 0:
        return {"points": n_points, "res": None}
    res.evaluations += 1
    if other is not None:
        res.violate("fault/" + _crash_key(other), case, "first conversion with an injected fault raised %r" % (other,))
    # the application caught the fault and carries on
    O.part, O.ctx, O.case_base = "fault", {}, case
    try:
        for T2 in SYSTEMS:
            for n in range(256):
                desc = ("idx", n, "ansi")
                O.conv(O.build(desc), O.ref(desc), T2, res, desc, False, keyprefix="fault/")
            for rgb in F_RGB_AFTER:
                desc = ("rgb",) + rgb + ("triplet",)
                O.conv(O.build(desc), O.ref(desc), T2, res, desc, False, keyprefix="fault/")
    finally:
        O.case_base = None
    res.sigs = {("fault", kind, T, first[0], raised is not None, bool(res.violations)): 1}
    res.nontrivial = set(res.sigs) if raised is not None else set()
    return {"points": n_points, "res": res, "raised": raised is not None}


def _part_fault(sh, res):
    first, T, kind = tuple(sh["first"]), sh["system"], sh["kind"]
    oracle()
    K = _in_child(lambda: _f_child(first, T, kind, 0))["points"]
    res.count("fault_points", K)
    res.counters["max_fault_points_in_one_first_conversion"] = K
    import time
    t0 = time.time()
    bad = 0
    for k in range(1, min(K, F_MAX_K) + 1):
        if deadline_passed() or time.time() - t0 > F_SHARD_BUDGET_S or bad >= F_STOP_AFTER_VIOLATIONS:
            res.capped = True
            res.count("fault_shards_stopped_early")
            break
        out = _in_child(lambda: _f_child(first, T, kind, k))
        res.merge(out["res"])
        res.count("fault_runs")
        if out["res"].violations:
            bad += 1
        if not out["raised"]:
            res.count("fault_not_raised")
    if K > F_MAX_K:
        res.capped = True
        res.count("fault_points_beyond_cap", K - F_MAX_K)
    if sh.get("sample"):
        res.sample({"part": "fault", "first": list(first), "system": T, "kind": kind, "points": K}, limit=1)


def _replay_fault(case, res):
    out = _in_child(lambda: _f_child(tuple(case["first"]), case["system"], case["kind"], case["k"]))
    if out["res"] is not None:
        res.merge(out["res"])


def finish(tier, seed, res):
    """a schedule counterexample must reproduce identically twice before it is reported"""
    for key, (size, cj, detail) in list(res.violations.items()):
        case = json.loads(cj)
        if case.get("part") == "threads":
            a, b = replay(case), replay(case)
            if a != b or key not in [k for k, _ in a]:
                raise MachineryError("schedule replay not reproducible for %s: %r vs %r" % (key, a, b))


def _lattice_offset(seed):
    k = seed % (LATTICE ** 3)
    return (k % LATTICE, (k // LATTICE) % LATTICE, k // (LATTICE * LATTICE))


# ------------------------------------------------------------------ protocol
def plan(tier, seed):
    shards = []
    for first in F_FIRST:
        for T in F_SYSTEMS:
            for kind in ("match", "line"):
                shards.append({"part": "fault", "first": list(first), "system": T, "kind": kind,
                               "sample": first == F_FIRST[0] and T == "STANDARD" and kind == "line"})
    for hid in T_ORDER:
        b = _t_bound(hid, tier)
        n = 1 if _t_forked(hid, b) else 16
        shards += [{"part": "threads", "h": hid, "bound": b, "i": i, "n": n} for i in range(n)]
    for mode in S_MODES:
        shards += [{"part": "style", "mode": mode, "i": i, "n": 4} for i in range(4)]
    shards += [{"part": "meta"}, {"part": "small", "which": "indexed"}, {"part": "small", "which": "named"},
               {"part": "greys"}, {"part": "pals"}]
    shards += [{"part": "grid", "ri": i} for i in range(len(GRID))]
    shards += [{"part": "hist", "i": i, "n": 8} for i in range(8)]
    if tier == "quick":
        o = _lattice_offset(seed)
        shards += [{"part": "lattice", "r": r, "og": o[1], "ob": o[2]} for r in range(o[0], 256, LATTICE)]
    else:
        shards += [{"part": "red", "r": r} for r in range(256)]
    return shards


def run_shard(sh, tier, seed):
    res = Result()
    p = sh["part"]
    if p == "meta":
        O = oracle()
        for key, detail in O.data_problems():
            res.violate(key, {"part": "meta"}, detail)
        res.evaluations += 3
        res.sample({"part": "meta", "palettes": [len(O.STD), len(O.WIN), len(O.EIGHT)]}, limit=1)
    elif p == "small":
        _part_small(sh["which"], res, sh)
    elif p == "greys":
        _rgb_block([(v, v, v) for v in range(256)], HOWS, res, sh, True)
        res.sample({"part": "rgb", "desc": ["rgb", 128, 128, 128, "hex"]}, limit=1)
    elif p == "pals":
        _rgb_block(_palette_colours(oracle()), HOWS, res, sh, True)
    elif p == "grid":
        r = GRID[sh["ri"]]
        _rgb_block([(r, g, b) for g in GRID for b in GRID], HOWS, res, sh, True)
        if sh["ri"] == 4:
            res.sample({"part": "rgb", "desc": ["rgb", r, 77, 230, "rgbstr"]}, limit=1)
    elif p == "hist":
        _part_hist(sh, res)
    elif p == "threads":
        _part_threads(sh, tier, res)
    elif p == "fault":
        _part_fault(sh, res)
    elif p == "style":
        _part_style(sh, res)
    elif p == "lattice":
        _rgb_block([(sh["r"], g, b) for g in range(sh["og"], 256, LATTICE) for b in range(sh["ob"], 256, LATTICE)],
                   ("triplet",), res, sh, False, info=True)
    elif p == "red":
        _rgb_block([(sh["r"], g, b) for g in range(256) for b in range(256)], ("triplet",), res, sh, False,
                   down_rows=(4, sh["r"] % 4), info=True)
        if sh["r"] == 200:
            res.sample({"part": "rgb", "desc": ["rgb", 200, 17, 99, "triplet"]}, limit=1)
    return res


def describe(tier, seed, res):
    if tier == "quick":
        space = ("the %d^3 boundary grid %r x 4 constructors (from_triplet, from_rgb, #hex, rgb()), all 256 greys, every "
                 "palette triplet as an RGB colour, the lattice slice of all colours with (r,g,b) = %r (mod %d) "
                 "[64^3 colours; the offset is seed mod 64, the verdict on the fixed part never depends on it]"
                 % (len(GRID), list(GRID), list(_lattice_offset(seed)), LATTICE))
    else:
        space = ("all 16,777,216 RGB colours (256 shards by red channel; the descending re-judging pass walks the rows "
                 "g = r (mod 4) of each shard), plus the %d^3 boundary grid, greys and palette triplets through all 4 "
                 "constructors in both directions" % len(GRID))
    return {
        "rule": "RGB inputs: " + space + "; all 256 indexed colours (from_ansi, parse), all %d colour names, default "
                "(2 constructors), 16 WINDOWS-type colours (2 constructors). Every colour x {STANDARD, EIGHT_BIT, TRUECOLOR, "
                "WINDOWS}: downgrade, downgrade again (memo hit), downgrade of the result, get_ansi_codes fg/bg of input "
                "and result; each list is walked ascending with the systems in that order and descending with the systems "
                "reversed (entries evicted from the 1024-entry memos are recomputed and re-judged). Histories: every "
                "sequence of <=%d conversions over %d colours sharing names/triplets x 4 systems from cold memos, last "
                "conversion judged. A case is non-trivial when the conversion really changes the colour's system; "
                "distinct = (input kind, target, result kind, branch: chosen 16-colour entry and tie / cube, ramp, "
                "black-white / unchanged). Threads (E3, vf/sched.py): harnesses %s -- two real threads each "
                "convert one RGB colour through the shared palettes and memos from cold memos; every interleaving of the "
                "executed lines of rich.color and rich.palette with <= bound preemptions (%s) is run; each thread's result "
                "and the memoised answer to the same question afterwards are judged by the sequential clauses; a schedule "
                "is non-trivial when it contains a preemption. Shared Style (part style): every fg x bg pair over %d colours "
                "of the kinds {none, default, standard x2, 8-bit x2, truecolor x2} (%d pairs) x attributes {none, bold} as ONE "
                "Style object obtained by constructor / Style.parse (shared through its memo) / copy() after the earlier "
                "renders, rendered with Style.render for every sequence of <=%d elements of {STANDARD, EIGHT_BIT, TRUECOLOR, "
                "WINDOWS, no colour system}, and printed through consoles of every ordered pair of systems; the last emitted "
                "string is decoded by an own SGR parser: attribute parameters, each colour group a colour of the system "
                "rendered for, nearest / unchanged / default clauses, and equality with what a fresh Style of the same "
                "definition emits for that system; non-trivial = the history contains two different systems. Threads again: except for the bound-2 palette harnesses of the thorough tier "
                "every schedule runs in a child forked from a worker that has converted nothing (lazily built module state "
                "starts cold); a harness stops after %d violating schedules. Faults (E4): first conversion of a cold child, "
                "colours %s x systems %s, interrupted by an exception at the k-th execution of Palette.match and at the k-th "
                "executed line of rich.color for every k of the fault-free run (<=%d); the exception is caught, then all 256 "
                "indexed colours and %d RGB colours are converted to the 4 systems and judged."
                % (len(oracle().names), H_DEPTH, len(H_COLOURS),
                   ", ".join("%s: %r->%s || %r->%s" % (h, T_HARNESS[h][0][1:-1], T_HARNESS[h][1], T_HARNESS[h][2][1:-1], T_HARNESS[h][3]) for h in T_ORDER),
                   ", ".join("%s: %d" % (h, _t_bound(h, tier)) for h in T_ORDER),
                   len(S_COLOURS), len(S_COLOURS) ** 2, S_DEPTH,
                   T_STOP_AFTER_VIOLATIONS, [list(f[1:-1]) for f in F_FIRST], list(F_SYSTEMS), F_MAX_K, len(F_RGB_AFTER)),
        "assumptions": [
            "the three palettes in rich/_palettes.py are trusted as data (entries 16..255 of the 256-colour palette are checked against the xterm cube and grey ramp)",
            "distance = integer redmean formula; any entry at minimum distance is accepted",
            "an RGB colour's 256-colour entry only has to be the per-channel nearest cube level or a neighbour of it (ramp: within one step of the channel range); the exact quantisation rule is outside the statement; evidence counts colours whose entry is not the per-channel nearest (info_rgb_to_256_cube_entry_not_per_channel_nearest)",
            "STANDARD and WINDOWS typed results are both accepted as a 16-colour index; an index colour keeps its number when the target system contains it",
            "a WINDOWS colour converted to STANDARD may keep its number or take the nearest standard entry to its Windows-palette triplet",
            "hand-built EIGHT_BIT colours with number < 16 and theme-dependent get_truecolor are not covered",
            "faults: the injected exception is a BaseException (like KeyboardInterrupt) raised from a sys.monitoring callback inside the first downgrade() of a process that has converted nothing; cold = forked from a worker that only imported rich",
            "threads: scheduling points are the executed lines of rich.color and rich.palette (not bytecodes, not the C code of lru_cache / min); two threads, preemption-bounded",
        ],
        "coverage": {"rgb_colours_walked": res.counters.get("rgb_colours", 0),
                     "histories": res.counters.get("histories", 0),
                     "states": res.counters.get("choice_points", 0),
                     "transitions": res.counters.get("schedules", 0),
                     "schedules_explored": res.counters.get("schedules", 0),
                     "fault_points_enumerated": res.counters.get("fault_runs", 0),
                     "shared_style_histories": res.counters.get("style_histories", 0),
                     "completed_thread_harness_bounds": sorted(k[17:] for k in res.counters if k.startswith("threads_complete:")),
                     "explanation": "states = scheduling choice points visited over all explored schedules of the thread "
                                    "harnesses; transitions = schedules explored, each a complete execution of the real code"},
    }


def replay(case):
    res = Result()
    O = oracle()
    p = case.get("part")
    if p == "meta":
        for key, detail in O.data_problems():
            res.violate(key, case, detail)
    elif p == "hist":
        _run_hist(tuple(case["seq"]), res)
    elif p == "threads":
        _replay_threads(case, res)
    elif p == "fault":
        _replay_fault(case, res)
    elif p == "style":
        _s_run(tuple(case["style"]), case["mode"], tuple(case["seq"]), res)
    else:
        desc = tuple(case["desc"])
        O.clear_caches()
        O.part, O.ctx, O.case_base = p, {}, None
        O.check_color(desc, SYSTEMS, res, True)
        O.check_color(desc, SYSTEMS[::-1], res, True)
        if not res.violations and "shard" in case:      # only reproducible with the shard's history
            res = run_shard(case["shard"], "thorough" if case["shard"].get("part") == "red" else "quick", 0)
    return [(k, v[2]) for k, v in sorted(res.violations.items())]
