"""C08 -- Framing renderables draw exact rectangles around intact content.

Every frame description x child description x width x console kind inside the
bounds below is built fresh, rendered by the real code with
`console.render(obj, console.options.update(width=W))`, cut into lines at the
newlines and judged cell by cell against a picture the harness assembles itself
from (a) the child rendered *alone* at the inner width and (b) hand-written
tables of box / guide glyphs, padding arithmetic and alignment offsets.

families: panel, padding, align, constrain, styled, rule, bar, pbar, columns, tree
consoles: utf8 | ascii (file.encoding == "ascii" -> options.ascii_only) | legacy (legacy_windows=True)

HISTORY part (E2 style), keys history/<kind>/...:
 * mutation histories: 20 mutable subjects (Columns add_renderable / renderables.append, Tree.add on
   root / first child, RenderGroup.renderables.append, Panel/Padding/Align/Constrain/Styled with
   .renderable reassigned, ProgressBar update(completed) / update(completed, total=smaller|larger) /
   assignment to completed, total, width) x all histories of length <=3 (thorough <=4) over {render
   at W1, render at W2, mutators}: the last render must equal the render of a fresh object built in
   the final state and pass the family's own clauses (e.g. a bar never exceeds its width).
 * shared arguments: every option taking a Text object (Panel title, Rule title, Tree label, Columns
   title / item, RenderGroup item, child of Panel/Padding/Align/Constrain/Styled) handed as ONE object
   to two frames x 2 Text variants x all histories of length <=3 (<=4) over {render A at W1/W2,
   measure A, render B, measure B}: every render must equal a fresh frame with a fresh copy, and the
   object must be unchanged afterwards (history/<kind>/argument-mutated).

Columns: complete product column_first x right_to_left x equal x expand x align x item counts
0..2*columns+1 x widths giving 1..4 columns; every item is placed in its grid cell by an independent
row-first / column-first fill (mirrored for right_to_left): keys columns/grid-position/<mode>,
columns/grid-edge/<mode>.

Measured (shared machine, load average 30-200; CPU seconds are the stable number):
  quick    262,416 cases (54,336 Columns, 5,896 histories), 1,451 distinct outcomes, ~173 CPU-s
           (wall 154 s with 16 workers at load average 200; 40-50 s at load 30)
  thorough ~2.6 M cases (620,544 Columns, 110,646 histories), ~2,300 CPU-s
"""
import io
import itertools
import json

from ..par import Result, deadline_passed
from ..width import cw, sw
from ..refstyle import RefStyle

ID = "C08"
LEVEL = "exploration"
ENGINE = "E1+E2"
CAP_S = {"quick": 600, "thorough": 2700}

NULL = RefStyle()
NULLVIS = NULL.visible()

# ------------------------------------------------------------------ reference data (hand written)
# top_left, top, top_right, mid_left, mid_right, bottom_left, bottom, bottom_right
BOX_CHARS = {
    "ROUNDED": "╭─╮││╰─╯",
    "ASCII": "+-+||+-+",
    "DOUBLE": "╔═╗║║╚═╝",
    "HEAVY": "┏━┓┃┃┗━┛",
    "SQUARE": "┌─┐││└─┘",
}
# boxes that do not display with legacy-windows raster fonts (docs: safe_box)
LEGACY_SUBST = {"ROUNDED": "SQUARE", "HEAVY": "SQUARE"}

# guide glyphs: (space, continue, fork, end), four cells each
GUIDES = {
    "plain": ("    ", "│   ", "├── ", "└── "),
    "bold": ("    ", "┃   ", "┣━━ ", "┗━━ "),
    "underline2": ("    ", "║   ", "╠══ ", "╚══ "),
    "ascii": ("    ", "|   ", "+-- ", "`-- "),
}

STYLES = {
    None: NULL,
    "none": NULL,
    "on blue": RefStyle(bgcolor=("std", 4)),
    "bold red": RefStyle({"bold": True}, color=("std", 1)),
    "red": RefStyle(color=("std", 1)),
    "italic": RefStyle({"italic": True}),
}

KINDS = ("utf8", "ascii", "legacy")


def expected_box(name, kind, safe_box):
    if kind == "legacy" and safe_box is not False:
        name = LEGACY_SUBST.get(name, name)
    if kind == "ascii":
        name = "ASCII"
    return BOX_CHARS[name]


def unpack(pad):
    """CSS-style padding -> (top, right, bottom, left)"""
    if isinstance(pad, int):
        return (pad, pad, pad, pad)
    pad = tuple(pad)
    if len(pad) == 1:
        return (pad[0],) * 4
    if len(pad) == 2:
        return (pad[0], pad[1], pad[0], pad[1])
    return pad


# ------------------------------------------------------------------ consoles
class _AsciiFile(io.StringIO):
    encoding = "ascii"


_CONSOLES = {}


def console(kind, color="truecolor", no_color=False):
    key = (kind, color, no_color)
    con = _CONSOLES.get(key)
    if con is None:
        from rich.console import Console
        con = Console(file=_AsciiFile() if kind == "ascii" else io.StringIO(), width=200, height=50,
                      force_terminal=True, color_system=color, legacy_windows=(kind == "legacy"),
                      no_color=no_color, _environ={})
        _CONSOLES[key] = con
    return con


# ------------------------------------------------------------------ descriptions -> fresh objects
def T(s, justify=None, overflow=None, no_wrap=False, style=None):
    return ["text", s, justify, overflow, no_wrap, style]


PANEL_DEFAULT = {"box": "ROUNDED", "title": None, "title_align": "center", "expand": True, "width": None,
                 "padding": [0, 1], "style": "none", "border_style": "none", "safe_box": None}
COLUMNS_DEFAULT = {"equal": False, "expand": False, "column_first": False, "right_to_left": False,
                   "align": None, "padding": [0, 1], "width": None}


def _pdev(**kw):
    o = dict(PANEL_DEFAULT)
    o.update(kw)
    return o


def _cdev(**kw):
    o = dict(COLUMNS_DEFAULT)
    o.update(kw)
    return o


def _pad(p):
    return p if isinstance(p, int) else tuple(p)


def build(d):
    """description -> fresh rich renderable"""
    k = d[0]
    if k == "text":
        from rich.text import Text
        _, s, justify, overflow, no_wrap, style = d
        if style == "spans":
            t = Text(s, justify=justify, overflow=overflow, no_wrap=no_wrap, style="italic")
            t.stylize("bold red", 0, 2)
            return t
        return Text(s, justify=justify, overflow=overflow, no_wrap=no_wrap, style=style or "")
    if k == "str":
        return d[1]
    if k == "table":
        from rich.table import Table
        t = Table()
        t.add_column("h")
        t.add_column("k")
        t.add_row("a", "bb")
        t.add_row("ccc", "d")
        return t
    if k == "panel":
        from rich.panel import Panel
        from rich import box
        o = d[2]
        return Panel(build(d[1]), getattr(box, o["box"]), title=o["title"], title_align=o["title_align"],
                     expand=o["expand"], width=o["width"], padding=_pad(o["padding"]), style=o["style"],
                     border_style=o["border_style"], safe_box=o["safe_box"])
    if k == "padding":
        from rich.padding import Padding
        _, child, pad, expand, style = d
        return Padding(build(child), _pad(pad), expand=expand, style=style)
    if k == "align":
        from rich.align import Align
        _, child, align, pad, width, style = d
        return Align(build(child), align, style=style, pad=pad, width=width)
    if k == "constrain":
        from rich.constrain import Constrain
        return Constrain(build(d[1]), d[2])
    if k == "styled":
        from rich.styled import Styled
        return Styled(build(d[1]), d[2])
    if k == "rule":
        from rich.rule import Rule
        from rich.text import Text
        _, title, chars, align = d[:4]
        if len(d) > 4 and d[4] == "Text":
            title = Text(title, style="bold red")
        return Rule(title, characters=chars, align=align)
    if k == "pbar":
        from rich.progress_bar import ProgressBar
        _, total, completed, width, pulse, atime = d
        return ProgressBar(total=total, completed=completed, width=width, pulse=pulse, animation_time=atime)
    if k == "bar":
        from rich.bar import Bar
        _, size, begin, end, width = d
        return Bar(size, begin, end, width=width, color="red", bgcolor="blue")
    if k == "columns":
        from rich.columns import Columns
        from rich.text import Text
        _, labels, o = d
        return Columns([Text(s) for s in labels], padding=_pad(o["padding"]), width=o["width"], expand=o["expand"],
                       equal=o["equal"], column_first=o["column_first"], right_to_left=o["right_to_left"],
                       align=o["align"])
    if k == "group":
        from rich.console import RenderGroup
        from rich.text import Text
        return RenderGroup(*[Text(s) for s in d[1]])
    if k == "tree":
        from rich.tree import Tree
        from rich.text import Text
        _, parents, expanded, labels, guide = d
        nodes = []
        for i, p in enumerate(parents):
            if p < 0:
                root_guide = guide if (guide and not guide.startswith("child:")) else None
                node = Tree(Text(labels[i]), expanded=bool(expanded[i]),
                            **({"guide_style": root_guide} if root_guide else {}))
            elif i == 1 and guide and guide.startswith("child:"):
                # per-node option: the first child (and, by inheritance, its subtree) gets its own guide style
                node = nodes[p].add(Text(labels[i]), expanded=bool(expanded[i]), guide_style=guide[6:])
            else:
                node = nodes[p].add(Text(labels[i]), expanded=bool(expanded[i]))
            nodes.append(node)
        return nodes[0]
    raise ValueError(d)


def _tree_depths(parents):
    dep = []
    for i, p in enumerate(parents):
        dep.append(0 if p < 0 else dep[p] + 1)
    return dep


def cmin(d):
    """conservative structural minimum width of a description (errs on the large side)"""
    k = d[0]
    if k in ("text", "str"):
        return max([1] + [cw(c) for c in d[1]])
    if k == "table":
        return 9
    if k == "panel":
        o = d[2]
        _, r, _, l = unpack(o["padding"])
        m = 2 + l + r + cmin(d[1])
        if o["title"]:
            m = max(m, 4)
        return m
    if k == "padding":
        _, r, _, l = unpack(d[2])
        return l + r + cmin(d[1])
    if k in ("align", "constrain", "styled"):
        return cmin(d[1])
    if k in ("rule", "pbar", "bar"):
        return 1
    if k == "columns":
        o = d[2]
        m = max([1] + [max(sw(part) for part in s.split("\n")) for s in d[1]])
        if o["width"]:
            _, r, _, l = unpack(o["padding"])
            m = max(m, o["width"]) + max(l, r)
        return m
    if k == "tree":
        dep = _tree_depths(d[1])
        return max(4 * dep[i] + max(sw(part) for part in d[3][i].split("\n")) for i in range(len(dep)))
    raise ValueError(d)


def natural(d):
    """cells of the widest unwrapped line of a text leaf (None: not known to the harness)"""
    if d[0] in ("text", "str") and "\t" not in d[1]:
        return max(sw(part) for part in d[1].split("\n"))
    return None


_MEASURED = {}


def content_width(kind, child, maxw):
    """Width the child asks for when offered `maxw`: for plain text leaves the harness's own count (widest
    unwrapped line), otherwise the child's *own* measurement (an input of the frame, decided by C09) --
    never the measurement of the frame under test."""
    nat = natural(child)
    if nat is not None:
        return max(0, min(nat, maxw))
    key = (kind, json.dumps(child), maxw)
    m = _MEASURED.get(key)
    if m is None:
        from rich.measure import Measurement
        m = _MEASURED[key] = Measurement.get(console(kind), build(child), maxw).maximum
    return m


# ------------------------------------------------------------------ rendering into (text, per-char visible style) lines
_VIS = {}


def _vis(style, base):
    key = (id(base), style)
    v = _VIS.get(key)
    if v is None:
        v = (base + RefStyle.from_rich(style)).visible() if style is not None else base.visible()
        _VIS[key] = v
    return v


def flatten(segs, base=NULL):
    """segments -> ([(text, [visible style per char])], ended_with_newline)"""
    lines, cur_t, cur_s = [], [], []
    for seg in segs:
        if seg.is_control:
            continue
        text = seg.text
        if not text:
            continue
        v = _vis(seg.style, base)
        if "\n" not in text:
            cur_t.append(text)
            cur_s.extend([v] * len(text))
            continue
        parts = text.split("\n")
        for i, p in enumerate(parts):
            if i:
                lines.append(("".join(cur_t), cur_s))
                cur_t, cur_s = [], []
            if p:
                cur_t.append(p)
                cur_s.extend([v] * len(p))
    ended = not cur_t
    if cur_t:
        lines.append(("".join(cur_t), cur_s))
    return lines, ended


def render(con, obj, W, base=NULL):
    if W < 1:
        return [], True
    return flatten(con.render(obj, con.options.update(width=W)), base)


_ALONE = {}


def child_alone(kind, child, width, basename=None, color="truecolor", no_color=False):
    """The child description rendered by itself at `width` (fresh object), style `basename`
    combined underneath every cell. -> (lines, ended)"""
    key = (kind, json.dumps(child), width, basename, color, no_color)
    hit = _ALONE.get(key)
    if hit is None:
        if len(_ALONE) > 20000:
            _ALONE.clear()
        con = console(kind, color, no_color)
        if width < 1:
            hit = ([], True)
        else:
            hit = flatten(con.render(build(child), con.options.update(width=width, highlight=False)),
                          STYLES[basename])
        _ALONE[key] = hit
    return hit


# ------------------------------------------------------------------ comparison
CHARKEY = {"B": "border", "T": "title", "P": "padding-cells", "C": "child-line-changed", "F": "fill-cells",
           "L": "pad-cells", "R": "pad-cells"}
STYLEKEY = {"B": "border-style", "T": "title-style", "P": "padding-style", "C": "child-style", "F": "fill-style",
            "L": "pad-style", "R": "pad-style"}


def _first_diff(a, b):
    n = min(len(a), len(b))
    for i in range(n):
        if a[i] != b[i]:
            return i
    return n


def compare(lines, exp, fam):
    """lines: [(text, vis)], exp: [(text, vis, regions)] -> None | (key, detail). Characters first, then styles."""
    if len(lines) != len(exp):
        return (fam + "/line-count", "got %d lines, expected %d: %r" % (len(lines), len(exp), [t for t, _ in lines]))
    style_hit = None
    for i, ((at, av), (et, ev, er)) in enumerate(zip(lines, exp)):
        if at != et:
            j = _first_diff(at, et)
            reg = er[j] if j < len(er) else (er[-1] if er else "C")
            return (fam + "/" + CHARKEY[reg], "line %d: got %r, expected %r" % (i, at, et))
        if style_hit is None and av != ev:
            j = _first_diff(av, ev)
            reg = er[j] if j < len(er) else "C"
            style_hit = (fam + "/" + STYLEKEY[reg],
                         "line %d %r cell %d: style %r, expected %r" % (i, at, j, av[j], ev[j]))
    return style_hit


def _crash_key(e):
    import traceback
    tb = traceback.extract_tb(e.__traceback__)
    fr = None
    for f in tb:
        if "/rich/" in f.filename:
            fr = f
    if fr is None:
        fr = tb[-1]
    return "crash/%s/%s:%s" % (type(e).__name__, fr.filename.rsplit("/", 1)[-1], fr.name)


_OVERRIDE_OUT = [None]


def _render_case(case, res, color="truecolor", no_color=False, base=NULL):
    """build + render the case's description; -> (lines, ended) or None after recording a crash.
    (The history part judges a render it obtained itself: it is handed over through _OVERRIDE_OUT.)"""
    if _OVERRIDE_OUT[0] is not None:
        return _OVERRIDE_OUT[0]
    con = console(case["con"], color, no_color)
    try:
        out = render(con, build(case["desc"]), case["W"], base)
    except Exception as e:  # noqa: BLE001 - any exception of the code under test is a finding
        res.evaluations += 1
        res.violate(_crash_key(e), case, "%s: %s" % (type(e).__name__, e))
        return None
    res.evaluations += 1
    return out


def _nl(n):
    return n if n < 3 else 3


# ------------------------------------------------------------------ Panel
def _title_line(bx, pw, title, align, bvis):
    """-> list of acceptable (text, vis, regions) for the top line, or None when the title does not fit
    (statement vague: only a loose check)"""
    tl, tp, tr = bx[0], bx[1], bx[2]
    ttext = " " + title.replace("\n", " ") + " "
    tc = sw(ttext)
    room = pw - 4 - tc
    if room < 0:
        return None
    if align == "left":
        splits = [(0, room)]
    elif align == "right":
        splits = [(room, 0)]
    else:
        splits = [(room // 2, room - room // 2), (room - room // 2, room // 2)]
    out = []
    for a, b in splits:
        text = tl + tp * (1 + a) + ttext + tp * (1 + b) + tr
        reg = "B" * (2 + a) + "T" * len(ttext) + "B" * (2 + b)
        out.append((text, [bvis] * len(text), reg))
    return out


def check_panel(case, res):
    kind, W, d = case["con"], case["W"], case["desc"]
    _, child, o = d
    out = _render_case(case, res)
    if out is None:
        return
    lines, ended = out
    pt, pr, pb, pl = unpack(o["padding"])
    title = o["title"]
    tcells = sw(title.replace("\n", " ")) if title else 0
    avail = min(W, o["width"]) if o["width"] else W
    base = STYLES[o["style"]]
    fvis = base.visible()
    bvis = (base + STYLES[o["border_style"]]).visible()
    bx = expected_box(o["box"], kind, o["safe_box"])
    # the statement does not say what wins when a title does not fit into the requested `width`
    vague = bool(title) and bool(o["width"]) and o["width"] < tcells + 6
    sig = ["panel", kind, o["expand"], bool(title), o["width"] is not None, _nl(len(lines) - 2 - pt - pb)]

    if not ended or not lines:
        res.violate("panel/no-trailing-newline", case, "output %r" % [t for t, _ in lines])
        return
    widths = [sw(t) for t, _ in lines]
    if len(set(widths)) != 1:
        res.violate("panel/ragged", case, "line widths %r: %r" % (widths, [t for t, _ in lines]))
        return
    pw = widths[0]
    if o["expand"]:
        if not vague and pw != avail:
            res.violate("panel/width-expand", case, "expanding panel is %d cells wide, available %d" % (pw, avail))
            return
    else:
        if pw > W or (not vague and pw > avail):
            res.violate("panel/fit-exceeds-available", case, "fitting panel is %d cells wide, available %d" % (pw, avail))
            return
        if not vague:
            nat = content_width(kind, child, avail - 2 - pl - pr)
            m = nat + pl + pr
            if title:
                m = min(W - 2, max(m, tcells + 4))
            if pw != m + 2:
                res.violate("panel/fit-width", case,
                            "fitting panel is %d cells wide; content %d + padding %d + border 2%s"
                            % (pw, nat, pl + pr, " (title needs %d)" % (tcells + 6) if title else ""))
                return
    inner = pw - 2 - pl - pr
    if inner < cmin(child):
        res.sig(tuple(sig + ["below-min"]), nontrivial=False)
        return
    cl, _ = child_alone(kind, child, inner, o["style"])
    if any(sw(t) > inner for t, _ in cl):
        res.sig(tuple(sig + ["child-overflows"]), nontrivial=False)
        return
    exp = []
    # top
    top_loose = False
    if title:
        tops = _title_line(bx, pw, title, o["title_align"], bvis)
        if tops is None:
            top_loose = True
            tops = [None]
        sig.append("title-fits" if not top_loose else "title-cut")
    else:
        text = bx[0] + bx[1] * (pw - 2) + bx[2]
        tops = [(text, [bvis] * len(text), "B" * len(text))]
    blank = (bx[3] + " " * (pw - 2) + bx[4], [bvis] + [fvis] * (pw - 2) + [bvis], "B" + "P" * (pw - 2) + "B")
    body = [blank] * pt
    fill_seen = False
    for t, v in cl:
        fill = inner - sw(t)
        fill_seen = fill_seen or fill > 0
        body.append((bx[3] + " " * pl + t + " " * (fill + pr) + bx[4],
                     [bvis] + [fvis] * pl + v + [fvis] * (fill + pr) + [bvis],
                     "B" + "P" * pl + "C" * len(t) + "F" * fill + "P" * pr + "B"))
    body += [blank] * pb
    text = bx[5] + bx[6] * (pw - 2) + bx[7]
    body.append((text, [bvis] * len(text), "B" * len(text)))
    sig.append(fill_seen)
    res.sig(tuple(sig))

    if top_loose:
        tt, tv = lines[0]
        allowed = set(title) | {" ", bx[1], "…"}
        if not (tt[0] == bx[0] and tt[-1] == bx[2] and tt[1] == bx[1] and tt[-2] == bx[1]
                and all(c in allowed for c in tt[1:-1])):
            res.violate("panel/title", case, "top line %r (title %r cut to fit)" % (tt, title))
            return
        hit = compare(lines[1:], body, "panel")
        if hit is None and any(s != bvis for s in tv):
            hit = ("panel/border-style", "top line %r styles %r, expected %r" % (tt, tv, bvis))
    else:
        top = ([t for t in tops if t[0] == lines[0][0]] or tops)[0]   # centred title: either rounding
        hit = compare(lines, [top] + body, "panel")
    if hit:
        res.violate(hit[0], case, hit[1])


# ------------------------------------------------------------------ Padding
def check_padding(case, res):
    kind, W, d = case["con"], case["W"], case["desc"]
    _, child, pad, expand, style = d
    out = _render_case(case, res)
    if out is None:
        return
    lines, ended = out
    pt, pr, pb, pl = unpack(pad)
    svis = STYLES[style].visible()
    sig = ["padding", kind, expand, _nl(len(lines) - pt - pb)]
    if not ended:
        res.violate("padding/no-trailing-newline", case, "output %r" % [t for t, _ in lines])
        return
    if not lines:
        if pt or pb:
            res.violate("padding/line-count", case, "no output at all")
        return
    widths = [sw(t) for t, _ in lines]
    if len(set(widths)) != 1:
        res.violate("padding/ragged", case, "line widths %r: %r" % (widths, [t for t, _ in lines]))
        return
    w = widths[0]
    if expand:
        if w != W:
            res.violate("padding/width-expand", case, "expanding padding is %d cells wide, available %d" % (w, W))
            return
    else:
        if w > W:
            res.violate("padding/fit-exceeds-available", case, "%d cells wide, available %d" % (w, W))
            return
        nat = content_width(kind, child, W)
        want = min(nat + pl + pr, W)
        if w != want:
            res.violate("padding/fit-width", case, "fitting padding is %d cells wide; content %d + padding %d, "
                        "available %d" % (w, nat, pl + pr, W))
            return
    inner = w - pl - pr
    if inner < cmin(child):
        res.sig(tuple(sig + ["below-min"]), nontrivial=False)
        return
    cl, _ = child_alone(kind, child, inner, style)
    if any(sw(t) > inner for t, _ in cl):
        res.sig(tuple(sig + ["child-overflows"]), nontrivial=False)
        return
    blank = (" " * w, [svis] * w, "P" * w)
    exp = [blank] * pt
    fill_seen = False
    for t, v in cl:
        fill = inner - sw(t)
        fill_seen = fill_seen or fill > 0
        exp.append((" " * pl + t + " " * (fill + pr), [svis] * pl + v + [svis] * (fill + pr),
                    "P" * pl + "C" * len(t) + "F" * fill + "P" * pr))
    exp += [blank] * pb
    res.sig(tuple(sig + [fill_seen]))
    hit = compare(lines, exp, "padding")
    if hit:
        res.violate(hit[0], case, hit[1])


# ------------------------------------------------------------------ Align
def _align_expected(cl, W, align, pad, svis):
    bw = max([sw(t) for t, _ in cl] + [0])
    excess = W - bw
    if excess <= 0:
        off, right = 0, 0
    elif align == "left":
        off, right = 0, (excess if pad else 0)
    elif align == "center":
        off = excess // 2
        right = (excess - off) if pad else 0
    else:
        off, right = excess, 0
    exp = []
    for t, v in cl:
        fill = bw - sw(t)
        # cells that fill a short child line up to the child's own block are part of the block
        exp.append((" " * off + t + " " * (fill + right), [svis] * off + v + [svis] * (fill + right),
                    "L" * off + "C" * len(t) + "F" * fill + "R" * right))
    return exp, bw, off


def check_align(case, res):
    kind, W, d = case["con"], case["W"], case["desc"]
    _, child, align, pad, width, style = d
    base = STYLES[style]
    out = _render_case(case, res, base=NULL)
    if out is None:
        return
    lines, ended = out
    svis = base.visible()
    limit = min(W, width) if width else W
    nat = content_width(kind, child, 200)      # Align measures against the console width
    if nat == 0:
        res.sig(("align", "empty-child"), nontrivial=False)
        return
    if limit < cmin(child):
        res.sig(("align", "below-min"), nontrivial=False)
        return
    if not ended:
        res.violate("align/no-trailing-newline", case, "output %r" % [t for t, _ in lines])
        return
    cands = [min(nat, limit)]
    first = best = None
    for cwid in cands:
        cl, cended = child_alone(kind, child, cwid, style)
        exp, bw, off = _align_expected(cl, W, align, pad, svis)
        hit = compare(lines, exp, "align")
        if hit is None:
            res.sig(("align", kind, align, pad, width is not None, style is not None, _nl(len(lines)),
                     "exact" if W - bw <= 0 else "excess", min(nat, limit) < limit))
            return
        same_content = [t.split() for t, _ in lines] == [e[0].split() for e in exp]
        if first is None:
            first = (hit, exp, bw, same_content)
        if best is None and same_content:
            best = (hit, exp, bw, same_content)
    hit, exp, bw, same_content = best or first
    key = hit[0]
    if same_content and not key.endswith("style") and key != "align/line-count":
        got_w = [sw(t) for t, _ in lines]
        want_w = [sw(e[0]) for e in exp]
        key = "align/width/" + align if got_w != want_w else "align/offset/" + align
    res.violate(key, case, hit[1] + " (child block %d cells in %d)" % (bw, W))


# ------------------------------------------------------------------ Constrain / Styled
def check_constrain(case, res):
    kind, W, d = case["con"], case["W"], case["desc"]
    _, child, width = d
    out = _render_case(case, res)
    if out is None:
        return
    lines, ended = out
    eff = W if width is None else min(width, W)
    if eff < cmin(child):
        res.sig(("constrain", "below-min"), nontrivial=False)
        return
    cl, cended = child_alone(kind, child, eff, None)
    exp = [(t, v, "C" * len(t)) for t, v in cl]
    res.sig(("constrain", kind, width is None, eff < W, _nl(len(lines))))
    hit = compare(lines, exp, "constrain")
    if hit is None and ended != cended:
        hit = ("constrain/child-line-changed", "trailing newline: %r, child alone: %r" % (ended, cended))
    if hit:
        key = hit[0]
        if eff < W and not key.endswith("style"):
            other, _ = child_alone(kind, child, W, None)
            if [t for t, _ in other] == [t for t, _ in lines]:
                key = "constrain/not-constrained"
        res.violate(key, case, hit[1] + " (child alone at %d)" % eff)


def check_styled(case, res):
    kind, W, d = case["con"], case["W"], case["desc"]
    _, child, style = d
    out = _render_case(case, res)
    if out is None:
        return
    lines, ended = out
    if W < cmin(child):
        res.sig(("styled", "below-min"), nontrivial=False)
        return
    cl, cended = child_alone(kind, child, W, style)
    exp = [(t, v, "C" * len(t)) for t, v in cl]
    res.sig(("styled", kind, style, _nl(len(lines))))
    hit = compare(lines, exp, "styled")
    if hit is None and ended != cended:
        hit = ("styled/child-line-changed", "trailing newline: %r, child alone: %r" % (ended, cended))
    if hit:
        res.violate(hit[0].replace("child-style", "style-not-combined"), case, hit[1])


# ------------------------------------------------------------------ Rule
def check_rule(case, res):
    kind, W, d = case["con"], case["W"], case["desc"]
    title, chars, align = d[1], d[2], d[3]
    out = _render_case(case, res)
    if out is None:
        return
    lines, ended = out
    texts = [t for t, _ in lines]
    if len(lines) != 1 or not ended:
        res.violate("rule/line-count", case, "a rule is one line; got %r (ended with newline: %r)" % (texts, ended))
        return
    text = texts[0]
    if sw(text) != W:
        res.violate("rule/width", case, "rule is %d cells wide, given %d: %r" % (sw(text), W, text))
        return
    ttext = title.replace("\n", " ")
    tc = sw(ttext)
    rule_chars = "-" if (kind == "ascii" and any(ord(c) > 127 for c in chars)) else chars
    # a title made of the rule's own characters cannot be told apart from the rule: width clause only
    fits = bool(title) and W >= tc + 4 and not (set(ttext) & set(rule_chars))
    res.sig(("rule", kind, bool(title), fits, align if title else None, sw(rule_chars), W % 2))
    if not title:
        # the rule characters repeated from the left edge; one space may stand in for a halved wide character
        want = (rule_chars * (W + 1))
        k = _first_diff(text, want)
        if text[k:].strip(" ") or sw(text[k:]) >= max(cw(c) for c in rule_chars):
            res.violate("rule/chars", case, "rule %r is not %r repeated" % (text, rule_chars))
        return
    if not fits:
        return
    pos = text.find(ttext)
    if pos < 0:
        res.violate("rule/title-missing/" + align, case, "title %r (%d cells) not in the %d-cell rule %r" % (ttext, tc, W, text))
        return
    left, right = text[:pos], text[pos + len(ttext):]
    allowed = set(rule_chars) | {" "}
    if not (set(left) <= allowed and set(right) <= allowed):
        res.violate("rule/chars", case, "rule %r contains characters other than %r, the title and spaces" % (text, rule_chars))
        return
    lw, rw = sw(left), sw(right)
    ok = (lw == 0) if align == "left" else (rw == 0) if align == "right" else abs(lw - rw) <= 1
    if not ok:
        res.violate("rule/title-align/" + align, case, "%r: %d cells left of the title, %d right" % (text, lw, rw))


# ------------------------------------------------------------------ Bar / ProgressBar
def check_bar(case, res):
    kind, W, d = case["con"], case["W"], case["desc"]
    color, no_color = case["color"], case["no_color"]
    fam = d[0]
    width = d[4] if fam == "bar" else d[3]
    out = _render_case(case, res, color, no_color)
    if out is None:
        return
    lines, ended = out
    budget = min(width or W, W)
    if len(lines) > 1:
        res.violate(fam + "/line-count", case, "a bar is one line; got %r" % [t for t, _ in lines])
        return
    got = sw(lines[0][0]) if lines else 0
    coloured = color is not None and not no_color
    res.sig((fam, kind, coloured, width is None, min(got, 3), got == budget, ended))
    if got > budget:
        res.violate(fam + "/exceeds-width", case, "bar is %d cells, budget %d: %r" % (got, budget, lines[0][0]))
    elif coloured and got != budget:
        res.violate(fam + "/not-filled", case, "colour available but bar is %d cells of %d: %r"
                    % (got, budget, lines[0][0] if lines else ""))
    elif kind == "ascii" and lines and any(ord(c) > 127 for c in lines[0][0]) and fam == "pbar":
        res.violate(fam + "/non-ascii", case, "ascii-only console got %r" % lines[0][0])


# ------------------------------------------------------------------ Columns
def check_columns(case, res):
    kind, W, d = case["con"], case["W"], case["desc"]
    _, labels, o = d
    out = _render_case(case, res)
    if out is None:
        return
    lines, ended = out
    texts = [t for t, _ in lines]
    heads = [s.split("\n")[0] for s in labels]
    if not labels:
        res.sig(("columns", kind, "empty"), nontrivial=False)
        if texts:
            res.violate("columns/item-count", case, "no items, but the output is %r" % texts)
        return
    pos = {}
    for i, h in enumerate(heads):
        found = []
        for li, t in enumerate(texts):
            start = 0
            while True:
                p = t.find(h, start)
                if p < 0:
                    break
                found.append((li, sw(t[:p]), sw(t[:p]) + sw(h)))
                start = p + len(h)
        if len(found) != 1:
            res.violate("columns/item-count", case, "item %r shown %d times in %r" % (h, len(found), texts))
            return
        pos[i] = found[0]
    # grid columns = groups of overlapping label spans
    spans = sorted((s, e, i) for i, (li, s, e) in pos.items())
    col_of, ncols, cur_end = {}, 0, None
    for s, e, i in spans:
        if cur_end is None or s >= cur_end:
            ncols += 1
            cur_end = e
        else:
            cur_end = max(cur_end, e)
        col_of[i] = ncols - 1
    rows = sorted(set(li for li, _, _ in pos.values()))
    sign = -1 if o["right_to_left"] else 1
    if o["column_first"]:
        keys = [(sign * col_of[i], pos[i][0]) for i in range(len(labels))]
    else:
        keys = [(pos[i][0], sign * col_of[i]) for i in range(len(labels))]
    mode = ("column_first" if o["column_first"] else "row_first") + ("/right_to_left" if o["right_to_left"] else "")
    res.sig(("columns", kind, o["column_first"], o["right_to_left"], min(ncols, 4), min(len(rows), 4),
             len(labels) % max(ncols, 1) != 0), nontrivial=len(labels) > 1)
    if any(keys[i] >= keys[i + 1] for i in range(len(keys) - 1)):
        res.violate("columns/order/" + mode, case, "reading the grid %s does not give the input order: %r" % (mode, texts))
        return
    # grid position of every item against an independent fill of a grid with the observed number of columns
    n, K, r2l = len(labels), ncols, o["right_to_left"]
    rank = {li: k for k, li in enumerate(rows)}
    got = [(rank[pos[i][0]], col_of[i]) for i in range(n)]
    if not o["column_first"]:
        want = [(i // K, (K - 1 - i % K) if r2l else i % K) for i in range(n)]
        bad = [i for i in range(n) if got[i] != want[i]]
        if bad:
            i = bad[0]
            res.violate("columns/grid-position/" + mode, case,
                        "item %r sits in (row %d, column %d) of a %d-column grid, a %s fill puts it in (row %d, column %d): %r"
                        % (heads[i], got[i][0], got[i][1], K, mode, want[i][0], want[i][1], texts))
            return
    else:
        # column-major fill: columns are used from the starting edge without gaps, each filled from the top,
        # and no column is taller than the one filled before it
        step = -1 if r2l else 1
        heights, why = [], None
        if got[0] != (0, K - 1 if r2l else 0):
            why = "the first item is not at the top of the %s column" % ("right-most" if r2l else "left-most")
        for i in range(n):
            if why:
                break
            if i and got[i] == (got[i - 1][0] + 1, got[i - 1][1]):
                heights[-1] += 1
            elif i == 0 or got[i] == (0, got[i - 1][1] + step):
                heights.append(1)
            else:
                why = "item %r is in (row %d, column %d) after (row %d, column %d)" % (
                    heads[i], got[i][0], got[i][1], got[i - 1][0], got[i - 1][1])
        if not why and any(a < b for a, b in zip(heights, heights[1:])):
            why = "column heights %r grow in filling order" % heights
        if why:
            res.violate("columns/grid-position/" + mode, case, "%s: %r" % (why, texts))
            return
    if o["width"] and not o["expand"]:
        # columns of the requested width: the first item sits in the outermost column of the grid
        _, pr_, _, pl_ = unpack(o["padding"])
        # (a grid measures the paddings of its first column on both sides, so allow both)
        reach = o["width"] + pl_ + pr_
        table_w = max(sw(t) for t in texts)
        dist = (table_w - pos[0][2]) if r2l else pos[0][1]
        if dist >= reach:
            res.violate("columns/grid-edge/" + mode, case,
                        "the first item is %d cells away from the %s edge of the %d-cell grid (column pitch %d): %r"
                        % (dist, "right" if r2l else "left", table_w, reach, texts))


# ------------------------------------------------------------------ Tree
def _tree_reference(parents, expanded, labels, guides):
    """guides: one glyph tuple, or a list with the glyph tuple in effect at every node (the segment that links a
    node to its children is drawn in the parent's guide style).
    -> (expected lines as (prefix, label line), visible node ids in pre-order)"""
    n = len(parents)
    children = [[] for _ in range(n)]
    for i, p in enumerate(parents):
        if p >= 0:
            children[p].append(i)
    per_node = guides if isinstance(guides, list) else [guides] * n
    out, order = [], []

    def walk(v, anc_prefix, depth, last):
        order.append(v)
        SPACE, CONT, FORK, END = per_node[parents[v]] if parents[v] >= 0 else per_node[0]
        parts = labels[v].split("\n")
        for li, part in enumerate(parts):
            if depth == 0:
                pre = ""
            elif li == 0:
                pre = anc_prefix + (END if last else FORK)
            else:
                pre = anc_prefix + (SPACE if last else CONT)
            out.append((pre, part, v, li))
        if expanded[v]:
            nxt = "" if depth == 0 else anc_prefix + (SPACE if last else CONT)
            for c in children[v]:
                walk(c, nxt, depth + 1, c == children[v][-1])

    walk(0, "", 0, True)
    return out, order


def check_tree(case, res):
    kind, W, d = case["con"], case["W"], case["desc"]
    _, parents, expanded, labels, guide = d
    out = _render_case(case, res)
    if out is None:
        return
    lines, ended = out
    texts = [t for t, _ in lines]
    gname = "ascii" if kind == "ascii" else "plain" if (kind == "legacy" or not guide) else guide
    if gname.startswith("child:"):
        # node 1 and its subtree carry the style; everything else is plain
        inside = [False] * len(parents)
        for i, p in enumerate(parents):
            inside[i] = i == 1 or (p >= 0 and inside[p])
        glyphs = [GUIDES[gname[6:]] if x else GUIDES["plain"] for x in inside]
    else:
        glyphs = GUIDES[gname]
    ref, order = _tree_reference(parents, expanded, labels, glyphs)
    dep = _tree_depths(parents)
    visible = set(order)
    n = len(parents)
    res.sig(("tree", kind, n, max(dep[v] for v in order), len(order) < n, any("\n" in labels[v] for v in order),
             gname))
    # every label part exactly once (hidden ones: never), in depth-first order, at 4 cells per level
    where = {}
    for v in range(n):
        for part in labels[v].split("\n"):
            hits = [(li, sw(t[:t.find(part)])) for li, t in enumerate(texts) if part in t]
            total = sum(t.count(part) for t in texts)
            if v not in visible:
                if total:
                    res.violate("tree/hidden-shown", case, "label %r of a collapsed subtree is shown: %r" % (part, texts))
                    return
                continue
            if total != 1:
                res.violate("tree/label-count", case, "label %r shown %d times: %r" % (part, total, texts))
                return
            where[(v, part)] = hits[0]
    seq = [where[(v, part)][0] for v in order for part in labels[v].split("\n")]
    if any(a >= b for a, b in zip(seq, seq[1:])):
        res.violate("tree/order", case, "labels are not in depth-first order: %r" % texts)
        return
    for v in order:
        for part in labels[v].split("\n"):
            li, col = where[(v, part)]
            if col != 4 * dep[v]:
                res.violate("tree/label-offset", case, "label %r of a node at depth %d starts at cell %d: %r"
                            % (part, dep[v], col, texts[li]))
                return
    if len(texts) != len(ref) or not ended:
        res.violate("tree/line-count", case, "got %d lines, expected %d: %r" % (len(texts), len(ref), texts))
        return
    for t, (pre, part, v, li) in zip(texts, ref):
        if t[:len(pre)] != pre:
            res.violate("tree/guide-glyphs", case, "line %r: guide prefix %r, expected %r" % (t, t[:len(pre)], pre))
            return
        if t[len(pre):].rstrip(" ") != part.rstrip(" "):
            res.violate("tree/label-changed", case, "line %r: after the guide comes %r, expected %r" % (t, t[len(pre):], part))
            return



# ------------------------------------------------------------------ HISTORY part (E2 style)
# Rendering is a function of the renderable's *current* content, not of what was rendered before: after any
# short history of renders (at two widths) and public mutations, the last render must equal the render of a
# fresh object built directly in the final state, and must pass the family's own clauses.
def check_group(case, res):
    out = _render_case(case, res)
    if out is None:
        return
    texts = [t.rstrip(" ") for t, _ in out[0]]
    want = [part for s in case["desc"][1] for part in s.split("\n")]
    if texts != want:
        res.violate("group/items", case, "group shows %r, items are %r" % (texts, want))


HIST_NEXT = {
    "columns": ["i3xxxx", "i4x", "i5", "i6"],
    "tree": ["a0", "a1\nb1", "a2", "a3"],
    "group": ["g2", "g3\ny", "g4", "g5"],
    "child": [T("a\nbb c"), T("abcdefgh"), T("x"), T("ab cd", "center")],
}


def _pbar_next(d, mut):
    """-> (total, completed, width) after mutator `mut` on the ProgressBar description d"""
    total, completed, width = d[1], d[2], d[3]
    if mut == "update":
        return total, completed + 5, width
    if mut == "update_smaller":
        return total / 2, total * 0.8, width
    if mut == "update_larger":
        return total * 2, total * 1.5, width
    if mut == "set_completed":
        return total, total + 5, width
    if mut == "set_total":
        return total / 2, completed, width
    if mut == "set_width":
        return total, completed, (5 if width is None else None)
    raise ValueError(mut)


def hist_mutate(obj, kind, mut, j, desc=None):
    """apply the j-th mutation of the history to the real object through its public interface"""
    from rich.text import Text
    if kind == "columns":
        item = Text(HIST_NEXT["columns"][j])
        if mut == "add_renderable":
            obj.add_renderable(item)
        else:
            obj.renderables.append(item)
    elif kind == "tree":
        target = obj.children[0] if (mut == "add_child" and obj.children) else obj
        target.add(Text(HIST_NEXT["tree"][j]))
    elif kind == "group":
        obj.renderables.append(Text(HIST_NEXT["group"][j]))
    elif kind == "pbar":
        total, completed, width = _pbar_next(desc, mut)
        if mut == "update":
            obj.update(completed)
        elif mut in ("update_smaller", "update_larger"):
            obj.update(completed, total=total)
        elif mut == "set_completed":
            obj.completed = completed
        elif mut == "set_total":
            obj.total = total
        else:
            obj.width = width
    else:
        obj.renderable = build(HIST_NEXT["child"][j])


def hist_apply(desc, kind, mut, j):
    """the same mutation on the description"""
    d = json.loads(json.dumps(desc))
    if kind == "columns":
        d[1].append(HIST_NEXT["columns"][j])
    elif kind == "tree":
        firsts = [i for i, p in enumerate(d[1]) if p == 0]
        d[1].append(firsts[0] if (mut == "add_child" and firsts) else 0)
        d[2].append(1)
        d[3].append(HIST_NEXT["tree"][j])
    elif kind == "group":
        d[1].append(HIST_NEXT["group"][j])
    elif kind == "pbar":
        d[1], d[2], d[3] = _pbar_next(d, mut)
    else:
        d[1] = HIST_NEXT["child"][j]
    return d


PBAR_MUTATORS = ["update", "update_smaller", "update_larger", "set_completed", "set_total", "set_width"]
HIST_SUBJECTS = [
    ("columns", ["columns", ["i0", "i1xx", "i2"], _cdev()], ["add_renderable", "append"], (14, 40)),
    ("columns", ["columns", ["i0", "i1xx", "i2"], _cdev(right_to_left=True)], ["add_renderable", "append"], (14, 40)),
    ("columns", ["columns", ["i0", "i1xx", "i2"], _cdev(equal=True, expand=True)], ["add_renderable", "append"], (14, 40)),
    ("columns", ["columns", ["i0", "i1xx", "i2"], _cdev(column_first=True)], ["add_renderable", "append"], (14, 40)),
    ("columns", ["columns", ["i0", "i1xx", "i2"], _cdev(width=6, align="right")], ["add_renderable", "append"], (14, 40)),
    ("columns", ["columns", [], _cdev()], ["add_renderable", "append"], (14, 40)),
    ("tree", ["tree", [-1], [1], ["n0"], None], ["add_root", "add_child"], (16, 40)),
    ("tree", ["tree", [-1, 0, 0, 1], [1, 1, 1, 1], ["n0", "n1", "n2", "n3"], None], ["add_root", "add_child"], (16, 40)),
    ("tree", ["tree", [-1, 0, 1], [1, 1, 1], ["n0\nm0", "n1\nm1", "n2"], "bold"], ["add_root", "add_child"], (16, 40)),
    ("group", ["group", ["g0", "g1\nz"]], ["append"], (6, 40)),
    ("panel", ["panel", T("ab cd"), _pdev()], ["set_child"], (12, 40)),
    ("panel", ["panel", T("ab cd"), _pdev(expand=False, title="t", style="on blue")], ["set_child"], (12, 40)),
    ("padding", ["padding", T("ab cd"), [1, 2], True, "none"], ["set_child"], (12, 40)),
    ("padding", ["padding", T("ab cd"), [0, 0, 0, 3], False, "on blue"], ["set_child"], (12, 40)),
    ("align", ["align", T("ab cd"), "center", True, None, None], ["set_child"], (12, 40)),
    ("align", ["align", T("ab cd"), "right", False, 6, "on blue"], ["set_child"], (12, 40)),
    ("constrain", ["constrain", T("ab cd"), 4], ["set_child"], (12, 40)),
    ("styled", ["styled", T("ab cd"), "bold red"], ["set_child"], (12, 40)),
    ("pbar", ["pbar", 10, 0, None, False, None], PBAR_MUTATORS, (7, 40)),
    ("pbar", ["pbar", 10, 0, None, True, 0.37], PBAR_MUTATORS, (7, 40)),
]



# ---- shared argument objects: every option that takes a Text / renderable object rather than a str
SHARED_VARIANTS = [T("ti"), T("a\nb c", "right", None, False, "spans")]


def _snapshot(text):
    """the observable state of a Text argument"""
    return {"plain": text.plain, "spans": [(sp.start, sp.end, str(sp.style)) for sp in text.spans],
            "style": str(text.style), "justify": text.justify, "overflow": text.overflow, "end": text.end,
            "no_wrap": text.no_wrap, "tab_size": text.tab_size}


def shared_frame(kind, opts, shared):
    """a fresh frame of `kind` that is handed the (possibly shared) Text object"""
    from rich.text import Text
    if kind == "panel-title":
        from rich.panel import Panel
        from rich import box
        return Panel(Text("ab cd"), getattr(box, opts["box"]), title=shared, title_align=opts["title_align"],
                     expand=opts["expand"], padding=_pad(opts["padding"]))
    if kind == "rule-title":
        from rich.rule import Rule
        return Rule(shared, characters=opts["chars"], align=opts["align"])
    if kind == "tree-label":
        from rich.tree import Tree
        if opts["at"] == "root":
            root = Tree(shared)
            root.add(Text("n1"))
        else:
            root = Tree(Text("n0"))
            root.add(shared)
        return root
    if kind == "columns-title":
        from rich.columns import Columns
        return Columns([Text("i0"), Text("i1")], title=shared, expand=opts["expand"])
    if kind == "columns-item":
        from rich.columns import Columns
        return Columns([shared, Text("i1")] if opts["first"] else [Text("i1"), shared], equal=opts["equal"])
    if kind == "group-item":
        from rich.console import RenderGroup
        return RenderGroup(Text("g0"), shared)
    if kind == "panel-child":
        from rich.panel import Panel
        return Panel(shared, expand=opts["expand"])
    if kind == "padding-child":
        from rich.padding import Padding
        return Padding(shared, _pad(opts["pad"]), expand=opts["expand"])
    if kind == "align-child":
        from rich.align import Align
        return Align(shared, opts["align"])
    if kind == "constrain-child":
        from rich.constrain import Constrain
        return Constrain(shared, opts["width"])
    if kind == "styled-child":
        from rich.styled import Styled
        return Styled(shared, opts["style"])
    raise ValueError(kind)


def shared_desc(kind, opts, v):
    """the plain description (family, desc) the frame is equivalent to, or None when the families' judges do
    not apply (styled / multi-line titles and labels)"""
    plain = v == SHARED_VARIANTS[0]
    if kind == "panel-title":
        return ("panel", ["panel", T("ab cd"), _pdev(box=opts["box"], title=v[1], title_align=opts["title_align"],
                                                    expand=opts["expand"], padding=opts["padding"])]) if plain else None
    if kind == "rule-title":
        return ("rule", ["rule", v[1], opts["chars"], opts["align"], "str"]) if plain else None
    if kind == "tree-label":
        labels = [v[1], "n1"] if opts["at"] == "root" else ["n0", v[1]]
        return ("tree", ["tree", [-1, 0], [1, 1], labels, None]) if plain else None
    if kind == "columns-title":
        return ("columns", ["columns", ["i0", "i1"], _cdev(expand=opts["expand"])])
    if kind == "columns-item":
        labels = [v[1], "i1"] if opts["first"] else ["i1", v[1]]
        return ("columns", ["columns", labels, _cdev(equal=opts["equal"])]) if plain else None
    if kind == "group-item":
        return ("group", ["group", ["g0", v[1]]]) if plain else None
    if kind == "panel-child":
        return ("panel", ["panel", v, _pdev(expand=opts["expand"])])
    if kind == "padding-child":
        return ("padding", ["padding", v, opts["pad"], opts["expand"], "none"])
    if kind == "align-child":
        return ("align", ["align", v, opts["align"], True, None, None])
    if kind == "constrain-child":
        return ("constrain", ["constrain", v, opts["width"]])
    if kind == "styled-child":
        return ("styled", ["styled", v, opts["style"]])
    raise ValueError(kind)


# (kind, options of frame A, options of frame B that shares the object, (W1, W2))
SHARED_SUBJECTS = [
    ("panel-title", {"box": "ROUNDED", "title_align": "center", "expand": True, "padding": [0, 1]},
     {"box": "ASCII", "title_align": "left", "expand": False, "padding": 0}, (12, 40)),
    ("panel-title", {"box": "ROUNDED", "title_align": "right", "expand": False, "padding": [0, 1]},
     {"box": "ROUNDED", "title_align": "center", "expand": True, "padding": [0, 1]}, (12, 40)),
    ("rule-title", {"chars": "─", "align": "center"}, {"chars": "=-", "align": "left"}, (5, 40)),
    ("rule-title", {"chars": "─", "align": "right"}, {"chars": "─", "align": "center"}, (12, 40)),
    ("tree-label", {"at": "root"}, {"at": "child"}, (8, 40)),
    ("columns-title", {"expand": False}, {"expand": True}, (8, 40)),
    ("columns-item", {"first": True, "equal": False}, {"first": False, "equal": True}, (8, 40)),
    ("group-item", {}, {}, (4, 40)),
    ("panel-child", {"expand": True}, {"expand": False}, (8, 40)),
    ("padding-child", {"pad": [1, 2], "expand": True}, {"pad": [0, 0, 0, 3], "expand": False}, (8, 40)),
    ("align-child", {"align": "center"}, {"align": "right"}, (8, 40)),
    ("constrain-child", {"width": 4}, {"width": None}, (8, 40)),
    ("styled-child", {"style": "bold red"}, {"style": "on blue"}, (8, 40)),
]
SHARED_EVENTS = ["RA1", "RA2", "MA", "RB1", "MB"]


def gen_shared(tier):
    depth = 3 if tier == "quick" else 4
    kinds = KINDS[:1] if tier == "quick" else KINDS
    for kind, a, b, (w1, w2) in SHARED_SUBJECTS:
        for v in SHARED_VARIANTS:
            for n in range(1, depth + 1):
                for evs in itertools.product(SHARED_EVENTS, repeat=n):
                    if evs[-1][0] != "R":
                        continue
                    for con in kinds:
                        yield {"fam": "history", "mode": "shared", "kind": kind, "con": con, "W1": w1, "W2": w2,
                               "shared": v, "A": a, "B": b, "events": list(evs)}


def check_shared(case, res):
    """One Text object handed to two frames; renders and measurements in any order. Every render must equal the
    render of a fresh frame holding a fresh copy of the object, and the object must come out unchanged."""
    from rich.measure import Measurement
    kind, v = case["kind"], case["shared"]
    con = console(case["con"])
    widths = {"1": case["W1"], "2": case["W2"]}
    try:
        shared = build(v)
        frames = {"A": shared_frame(kind, case["A"], shared), "B": shared_frame(kind, case["B"], shared)}
        pattern = []
        for step, ev in enumerate(case["events"]):
            which = ev[1]
            if ev[0] == "M":
                Measurement.get(con, frames[which], case["W1"])
                pattern.append("M" + which)
                continue
            w = widths[ev[2]]
            out = render(con, frames[which], w)
            pattern.append("R" + which)
            fresh = render(con, shared_frame(kind, case[which], build(v)), w)
            res.evaluations += 1
            if out != fresh:
                gt, ft = [t for t, _ in out[0]], [t for t, _ in fresh[0]]
                what = "characters" if gt != ft else "styles"
                res.violate("history/%s/differs-from-fresh" % kind, case,
                            "step %d of %r: render of frame %s at %d (%s) differs from a fresh frame with a fresh copy "
                            "of the argument: got %r, fresh %r" % (step, case["events"], which, w, what, gt, ft))
                break
            eq = shared_desc(kind, case[which], v)
            if eq is not None:
                inner = {"fam": eq[0], "con": case["con"], "W": w, "desc": eq[1], "color": "truecolor",
                         "no_color": False}
                _OVERRIDE_OUT[0] = out
                try:
                    CHECKS[eq[0]](inner, _HistoryResult(res, case, "history/" + kind + "/"))
                finally:
                    _OVERRIDE_OUT[0] = None
        before, after = _snapshot(build(v)), _snapshot(shared)
    except Exception as e:  # noqa: BLE001
        res.evaluations += 1
        res.violate("history/%s/%s" % (kind, _crash_key(e)), case, "%s: %s" % (type(e).__name__, e))
        return
    pat = "".join(pattern)
    res.sig(("shared", kind, v == SHARED_VARIANTS[0], pat.count("R"), "M" in pat, "A" in pat and "B" in pat),
            nontrivial=len(pattern) > 1)
    if before != after:
        diff = {k: (before[k], after[k]) for k in before if before[k] != after[k]}
        res.violate("history/%s/argument-mutated" % kind, case,
                    "after %r the caller's Text changed: %r (before, after)" % (case["events"], diff))


def gen_history(tier):
    yield from gen_mutation_histories(tier)
    yield from gen_shared(tier)


def gen_mutation_histories(tier):
    depth = 3 if tier == "quick" else 4
    kinds = KINDS[:1] if tier == "quick" else KINDS
    for kind, init, muts, (w1, w2) in HIST_SUBJECTS:
        alphabet = ["R1", "R2"] + muts
        for n in range(1, depth + 1):
            for evs in itertools.product(alphabet, repeat=n):
                if evs[-1] not in ("R1", "R2"):
                    continue
                for con in kinds:
                    yield {"fam": "history", "kind": kind, "con": con, "W1": w1, "W2": w2, "init": init,
                           "events": list(evs)}


class _HistoryResult:
    """lets a family's own judge run on the last render of a history: findings are filed under history/..."""

    def __init__(self, res, case, prefix="history/"):
        self.res, self.case, self.evaluations, self.prefix = res, case, 0, prefix

    def violate(self, key, case, detail):
        self.res.violate(self.prefix + key, self.case, detail)

    def sig(self, s, nontrivial=True):
        pass

    def count(self, name, n=1):
        pass


def check_history(case, res):
    if case.get("mode") == "shared":
        return check_shared(case, res)
    kind = case["kind"]
    con = console(case["con"])
    widths = {"R1": case["W1"], "R2": case["W2"]}
    desc, nmut, out, last_w = case["init"], 0, None, None
    pattern = []
    try:
        obj = build(desc)
        for ev in case["events"]:
            if ev in widths:
                last_w = widths[ev]
                out = render(con, obj, last_w)
                pattern.append("R")
            else:
                hist_mutate(obj, kind, ev, nmut, desc)
                desc = hist_apply(desc, kind, ev, nmut)
                nmut += 1
                pattern.append("M")
        fresh = render(con, build(desc), last_w)
    except Exception as e:  # noqa: BLE001
        res.evaluations += 1
        res.violate("history/%s/%s" % (kind, _crash_key(e)), case, "%s: %s" % (type(e).__name__, e))
        return
    res.evaluations += 1
    pat = "".join(pattern)
    res.sig(("history", kind, pat, last_w == case["W1"]), nontrivial="RM" in pat)
    if out != fresh:
        (lines, ended), (flines, fended) = out, fresh
        gt, ft = [t for t, _ in lines], [t for t, _ in flines]
        what = "characters" if gt != ft else "styles" if lines != flines else "trailing newline"
        res.violate("history/%s/differs-from-fresh" % kind, case,
                    "after %r the render at %d (%s) differs from a fresh object in the same state: got %r, fresh %r"
                    % (case["events"], last_w, what, gt, ft))
    inner = {"fam": kind, "con": case["con"], "W": last_w, "desc": desc, "color": "truecolor", "no_color": False}
    _OVERRIDE_OUT[0] = out
    try:
        CHECKS[kind](inner, _HistoryResult(res, case))
    finally:
        _OVERRIDE_OUT[0] = None

CHECKS = {"panel": check_panel, "padding": check_padding, "align": check_align, "constrain": check_constrain,
          "styled": check_styled, "rule": check_rule, "bar": check_bar, "pbar": check_bar,
          "columns": check_columns, "tree": check_tree, "group": check_group, "history": check_history}


# ------------------------------------------------------------------ enumeration
LEAF_T = ["a", "ab cd", "あい", "a\nbb c", "éx", "aあ b", "", "abcdefgh", "ああああ", " lead", "tab\tx"]
LEAVES = [T(s) for s in LEAF_T]
LEAF_VARIANTS = [
    T("ab cd", "center"), T("ab cd", "right"), T("ab cd e", "full"), T("ab cd", "left"),
    T("abcdefgh", None, "ellipsis"), T("abcdefgh", None, "crop"), T("ab cd", None, None, True),
    T("ab cd", None, None, False, "spans"), T("aあ b", None, None, False, "green on red"), ["str", "ab cd"],
]


NESTED_QUICK = [
    ["table"],
    ["panel", T("ab cd"), _pdev()],
    ["panel", T("a\nbb c"), _pdev(expand=False, title="t")],
    ["padding", T("ab cd"), [1, 2], True, "none"],
    ["padding", T("ab cd"), [0, 0, 0, 3], False, "none"],
    ["align", T("ab"), "center", True, None, None],
    ["align", T("ab cd"), "right", False, None, None],
    ["constrain", T("ab cd"), 4],
    ["styled", T("ab cd"), "bold red"],
    ["rule", "ti", "─", "center"],
    ["pbar", 10, 5, None, False, None],
    ["bar", 10, 2.5, 7.3, None],
    ["columns", ["i0", "i1xx", "i2"], _cdev()],
    ["tree", [-1, 0, 0], [1, 1, 1], ["n0", "n1", "n2"], None],
]


def _frames_of(leaf):
    """every framing kind around `leaf` with default options and each single deviation (thorough nesting)"""
    yield ["panel", leaf, _pdev()]
    yield ["panel", leaf, _pdev(expand=False)]
    yield ["panel", leaf, _pdev(title="t")]
    yield ["panel", leaf, _pdev(padding=0)]
    yield ["panel", leaf, _pdev(padding=[1, 2])]
    yield ["panel", leaf, _pdev(style="on blue")]
    yield ["panel", leaf, _pdev(box="ASCII", expand=False, title="あ t")]
    for pad in (1, [0, 2], [1, 0, 1, 3]):
        for expand in (True, False):
            yield ["padding", leaf, pad, expand, "none"]
    yield ["padding", leaf, 1, True, "on blue"]
    for al in ("left", "center", "right"):
        for pad in (True, False):
            yield ["align", leaf, al, pad, None, None]
    yield ["align", leaf, "center", True, None, "on blue"]
    yield ["constrain", leaf, 4]
    yield ["constrain", leaf, None]
    yield ["styled", leaf, "bold red"]
    yield ["styled", leaf, "on blue"]


def children_for(tier):
    ch = LEAVES + LEAF_VARIANTS + NESTED_QUICK
    if tier == "thorough":
        for leaf in (T("ab cd"), T("a\nbb c"), T("aあ b", None, None, False, "green on red")):
            ch = ch + list(_frames_of(leaf))
        ch = ch + [["panel", ["panel", T("ab cd"), _pdev(expand=False)], _pdev(title="t", padding=0)],
                   ["padding", ["align", T("ab"), "right", True, None, None], [0, 2], False, "none"],
                   ["columns", ["i0\nz", "あ1", "i2", "i3xx"], _cdev(equal=True, column_first=True)],
                   ["tree", [-1, 0, 1, 0], [1, 1, 1, 1], ["n0", "n1\nm1", "n2", "n3"], None]]
    return ch


def deviations(axes, k):
    """axes: [(name, [default, alt...])] -> option dicts with at most k non-default entries (simplest first)"""
    base = {a: v[0] for a, v in axes}
    for r in range(0, k + 1):
        for combo in itertools.combinations(range(len(axes)), r):
            for alts in itertools.product(*[axes[i][1][1:] for i in combo]):
                o = dict(base)
                for i, a in zip(combo, alts):
                    o[axes[i][0]] = a
                yield r, o


TITLES = [None] + [(t, a) for t in ("t", "あ t", "long title here") for a in ("center", "left", "right")]
PANEL_AXES = [
    ("box", ["ROUNDED", "ASCII", "DOUBLE", "HEAVY"]),
    ("titled", TITLES),
    ("expand", [True, False]),
    ("width", [None, "rel"]),
    ("padding", [[0, 1], 0, [1, 2], [0, 0, 1, 3]]),
    ("style", ["none", "on blue"]),
    ("border_style", ["none", "bold red"]),
    ("safe_box", [None, False]),
]


def panel_vectors(tier):
    """-> [(deviation count, option dict)]"""
    out = []
    if tier == "quick":
        gen = deviations(PANEL_AXES, 2)
    else:
        arith = [a for a in PANEL_AXES if a[0] in ("titled", "expand", "width", "padding")]
        look = [a for a in PANEL_AXES if a[0] not in ("titled", "expand", "width", "padding")]
        gen = []
        for r1, o1 in deviations(look, 1):
            for r2, o2 in deviations(arith, len(arith)):
                o = dict(o1)
                o.update(o2)
                gen.append((r1 + r2, o))
    for r, o in gen:
        o = dict(o)
        td = o.pop("titled")
        o["title"], o["title_align"] = (None, "center") if td is None else td
        out.append((r, o))
    return out


def widths_for(smin):
    return list(range(smin, smin + 9)) + [w for w in (40, 80) if w >= smin + 9]


def gen_panel(tier):
    vectors = panel_vectors(tier)
    base_children = children_for("quick")
    quick_vectors = vectors if tier == "quick" else panel_vectors("quick")
    for ci, child in enumerate(children_for(tier)):
        # thorough: the deeper nestings get the <=2-deviation vectors, the base children the product
        for r, o in (vectors if ci < len(base_children) else quick_vectors):
            o = dict(o)
            rel = o["width"] == "rel"
            o["width"] = None
            smin = cmin(["panel", child, o])
            if rel:
                o["width"] = smin + 3
            look_only = all(o[a] == PANEL_DEFAULT[a] for a in PANEL_DEFAULT if a not in ("box", "safe_box", "width"))
            kinds = KINDS if ((tier == "thorough" and ci < len(base_children)) or r <= 1
                              or (look_only and not rel)) else KINDS[:1]
            for kind in kinds:
                for W in widths_for(smin):
                    yield {"fam": "panel", "con": kind, "W": W, "desc": ["panel", child, o]}


def gen_padding(tier):
    for child in children_for(tier):
        for pad in (1, [0, 2], [1, 0, 1, 3], [2, 1, 0, 3], [0, 0, 0, 0]):
            for expand in (True, False):
                for style in ("none", "on blue"):
                    d = ["padding", child, pad, expand, style]
                    smin = cmin(d)
                    for kind in (KINDS if (tier == "thorough" or style == "none") else KINDS[:1]):
                        for W in widths_for(smin):
                            yield {"fam": "padding", "con": kind, "W": W, "desc": d}


def gen_align(tier):
    for child in children_for(tier):
        for align in ("left", "center", "right"):
            for pad in (True, False):
                for width in (None, "rel", 30):
                    for style in (None, "on blue"):
                        smin = cmin(child)
                        d = ["align", child, align, pad, (smin + 2) if width == "rel" else width, style]
                        for kind in (KINDS if (tier == "thorough" or (width is None and style is None)) else KINDS[:1]):
                            for W in widths_for(smin):
                                yield {"fam": "align", "con": kind, "W": W, "desc": d}


def gen_constrain(tier):
    for child in children_for(tier):
        smin = cmin(child)
        for width in (None, smin, smin + 2, 100):
            for kind in KINDS:
                for W in widths_for(smin):
                    yield {"fam": "constrain", "con": kind, "W": W, "desc": ["constrain", child, width]}


def gen_styled(tier):
    for child in children_for(tier):
        smin = cmin(child)
        for style in ("on blue", "bold red"):
            for kind in KINDS:
                for W in widths_for(smin):
                    yield {"fam": "styled", "con": kind, "W": W, "desc": ["styled", child, style]}


RULE_WIDTHS = list(range(1, 25)) + [40, 41, 80]


def gen_rule(tier):
    titles = ["", "ti", "あ", "a long rule title"] + (["t\nu", "あいう", "x"] if tier == "thorough" else [])
    chars = ["─", "=-", "あ", "-"] + (["━", "abc", "あ-", "*"] if tier == "thorough" else [])
    for title in titles:
        for ch in chars:
            for align in ("center", "left", "right"):
                for form in ("str", "Text"):
                    if form == "Text" and not title:
                        continue
                    for kind in KINDS:
                        for W in RULE_WIDTHS:
                            yield {"fam": "rule", "con": kind, "W": W, "desc": ["rule", title, ch, align, form]}


BAR_WIDTHS = list(range(1, 14)) + [40, 80]
COLOURS = [("truecolor", False), (None, False), ("truecolor", True), (None, True)]


def gen_bar(tier):
    ends = [0, 5, 7.3, 10, 20] + ([0.1, 9.99, 2.5] if tier == "thorough" else [])
    for size in (10, 0):
        for begin in (0, 2.5, 5, -1):
            for end in ends:
                for width in (None, 1, 5, "W+3"):
                    for color, no_color in COLOURS:
                        for kind in KINDS:
                            for W in BAR_WIDTHS:
                                yield {"fam": "bar", "con": kind, "W": W, "color": color, "no_color": no_color,
                                       "desc": ["bar", size, begin, end, W + 3 if width == "W+3" else width]}


def gen_pbar(tier):
    comps = [0, 5, 10, 20] + ([3.3, 0.1, 9.99, -1] if tier == "thorough" else [3.3])
    for total in (10, 0):
        for completed in comps:
            for width in (None, 1, 5, "W+3"):
                for pulse, atime in ((False, None), (True, 0.0), (True, 0.37)):
                    for color, no_color in COLOURS:
                        for kind in KINDS:
                            for W in BAR_WIDTHS:
                                yield {"fam": "pbar", "con": kind, "W": W, "color": color, "no_color": no_color,
                                       "desc": ["pbar", total, completed, W + 3 if width == "W+3" else width,
                                                pulse, atime]}


LABEL_SETS = [
    ["i0", "i1", "i2", "i3", "i4", "i5", "i6", "i7", "i8"],
    ["i0", "i1xx", "i2", "i3xxxx", "i4x", "i5", "i6xxx", "i7", "i8x"],
    ["i0\nz", "あ1", "i2", "i3xx", "i4", "あ5x", "i6\ny", "i7", "i8"],
]
COLUMN_AXES = [
    ("padding", [[0, 1], 0, [0, 2], [1, 3, 1, 1]]),
    ("width", [None, "max", "max+2"]),
]
COLUMN_ALIGNS = [None, "left", "center", "right"]


def gen_columns(tier):
    """column_first x right_to_left x equal x expand x align (complete product) x item counts 0..2*columns+1 x
    widths that give 1..4 columns, for every (padding, width) vector (quick: thinned for the non-default vectors)"""
    quick = tier == "quick"
    for li, ls in enumerate(LABEL_SETS):
        cells = [max(sw(p) for p in s.split("\n")) for s in ls]
        mx, mn = max(cells), min(cells)
        for r, o2 in deviations(COLUMN_AXES, 2):
            wopt = {None: None, "max": mx, "max+2": mx + 2}[o2["width"]]
            _, pr_, _, pl_ = unpack(o2["padding"])
            gap = max(pl_, pr_)
            smin = (max(mx, wopt) + gap) if wopt else mx
            for equal, expand, cf, r2l in itertools.product((False, True), repeat=4):
                for align in COLUMN_ALIGNS:
                    if quick:
                        if r == 0 and li == 2 and align not in (None, "right"):
                            continue
                        if r == 1 and (li != 1 or align == "left"):
                            continue
                        if r == 2 and (li != 0 or align is not None):
                            continue
                    o = _cdev(equal=equal, expand=expand, column_first=cf, right_to_left=r2l, align=align,
                              padding=o2["padding"], width=wopt)
                    # glyph substitution does not touch Columns: other consoles only for the plainest vectors in quick
                    kinds = KINDS if (not quick or (r == 0 and li == 0 and align is None)) else KINDS[:1]
                    for W in list(range(smin, smin + 13)) + [40]:
                        # upper bound on the number of columns that fit (capped at 4): counts 0..2*columns+1
                        cap = (W // (wopt + gap)) if wopt else ((W + gap) // (mn + gap))
                        cap = max(1, min(cap, 4))
                        for n in range(0, min(2 * cap + 1, len(ls)) + 1):
                            for kind in kinds:
                                yield {"fam": "columns", "con": kind, "W": W, "desc": ["columns", ls[:n], o]}


def tree_shapes(n):
    """all ordered rooted trees with n nodes as pre-order parent arrays"""
    def rec(parents, path):
        if len(parents) == n:
            yield list(parents)
            return
        # the next node hangs under any node of the right-most path
        for j in range(len(path)):
            p = path[j]
            yield from rec(parents + [p], path[:j + 1] + [len(parents)])
    yield from rec([-1], [0])


def gen_tree(tier):
    for n in range(1, 6):
        for parents in tree_shapes(n):
            internal = sorted(set(p for p in parents if p >= 0))
            for flags in itertools.product((1, 0), repeat=len(internal)):
                expanded = [1] * n
                for v, f in zip(internal, flags):
                    expanded[v] = f
                for lk in ("one", "two", "mixed"):
                    labels = ["n%d" % i if (lk == "one" or (lk == "mixed" and i % 2)) else "n%d\nm%d" % (i, i)
                              for i in range(n)]
                    for guide in (None, "bold", "underline2", "child:bold"):
                        if guide == "underline2" and tier == "quick" and n > 3:
                            continue
                        if guide == "child:bold" and 1 not in internal:
                            continue
                        d = ["tree", parents, expanded, labels, guide]
                        smin = cmin(d)
                        for kind in KINDS:
                            if guide and kind != "utf8" and tier == "quick" and n > 3:
                                continue
                            for W in widths_for(smin):
                                yield {"fam": "tree", "con": kind, "W": W, "desc": d}


GENS = {"panel": gen_panel, "padding": gen_padding, "align": gen_align, "constrain": gen_constrain,
        "styled": gen_styled, "rule": gen_rule, "bar": gen_bar, "pbar": gen_pbar, "columns": gen_columns,
        "tree": gen_tree, "history": gen_history}
SHARDS = {"quick": {"panel": 24, "padding": 4, "align": 6, "constrain": 2, "styled": 2, "rule": 2, "bar": 2,
                    "pbar": 3, "columns": 24, "tree": 8, "history": 4},
          "thorough": {"panel": 96, "padding": 8, "align": 12, "constrain": 4, "styled": 3, "rule": 3, "bar": 3,
                       "pbar": 4, "columns": 40, "tree": 12, "history": 8}}


# ------------------------------------------------------------------ protocol
def plan(tier, seed):
    shards = []
    for fam, n in SHARDS[tier].items():
        shards += [{"fam": fam, "i": i, "n": n} for i in range(n)]
    return shards


def run_shard(sh, tier, seed):
    res = Result()
    check = CHECKS[sh["fam"]]
    i, n = sh["i"], sh["n"]
    done = 0
    for idx, case in enumerate(GENS[sh["fam"]](tier)):
        if idx % n != i:
            continue
        done += 1
        if done % 128 == 0 and deadline_passed():
            res.capped = True
            break
        check(case, res)
        res.count("cases_" + sh["fam"])
        if idx % 9973 == i:
            res.sample(case, limit=1)
    return res


def describe(tier, seed, res):
    q = tier == "quick"
    return {
        "rule": "frames x children x widths [struct_min, struct_min+8] u {40, 80} x consoles {utf-8, ascii-only, legacy_windows}. "
                "children: 11 text leaves + 10 leaf variants (justify/overflow/no_wrap/spans/str) + 2x2 table + one nested frame "
                "of each kind%s. Panel options (box 4, title 3 x title_align 3, expand, width, padding 4, style, border_style, "
                "safe_box): %s. Padding 5 pads x expand x style; Align 3 x pad x width 3 x style; Constrain 4 widths; Styled 2 "
                "styles: full products (quick: ascii/legacy consoles only for unstyled Padding and Align without width/style). Rule: %d titles x %d character strings x 3 aligns x str/Text x W 1..24,40,41,80. "
                "Bar / ProgressBar: size/total {10,0} x begin x end / completed x width {None,1,5,W+3} x pulse x colour system "
                "{truecolor, None} x no_color x W 1..13,40,80. Columns: complete product column_first x right_to_left x equal x expand x "
                "align {None,left,center,right} x item counts 0..2*columns+1 x W = min..min+12, 40 (1..4 columns) x every "
                "(padding 4, width 3) vector over 3 label sets of 9 items (%s); every item is placed in its grid cell by an "
                "independent row-first / column-first fill (mirrored for right_to_left), and with `width` the first item must "
                "sit in the outermost column. Tree: every ordered tree shape with <=5 nodes "
                "(23 shapes) x expanded flags of the internal nodes x 3 label layouts (one-line, two-line, mixed) x guide style "
                "{default, bold, underline2 on the root, bold on the first child only}. HISTORY part: %d mutable subjects (Columns add_renderable / renderables.append, "
                "Tree.add on root and on the first child, RenderGroup.renderables.append, Panel/Padding/Align/Constrain/Styled "
                "with .renderable reassigned, ProgressBar update(completed[, total smaller|larger]) and assignment to "
                "completed/total/width) x every history of length <=%d over {render at W1, render at W2, each mutator} that "
                "ends in a render: the last render must equal (characters + visible styles) the render of a fresh object built "
                "in the final state and pass the family's own clauses. Shared arguments: 13 subjects (Text object as Panel "
                "title, Rule title, Tree label, Columns title/item, RenderGroup item, child of the five wrappers) x 2 Text "
                "variants x every history of the same length over {render A at W1, render A at W2, measure A, render B, "
                "measure B} with A and B sharing the object: every render equals a fresh frame with a fresh copy and the "
                "object is unchanged afterwards. "
                "A case is non-trivial when the frame was compared cell by cell with the child "
                "rendered alone (or, for rules/bars/columns/trees, when the clause it exercises was applicable; for "
                "histories, when a mutation follows a render and precedes the last render)."
                % ("" if q else " + every frame kind with each single option deviation around 3 leaves + 4 deeper nestings",
                   "all vectors with <=2 deviations (consoles other than utf-8 only for <=1 deviation and for box x safe_box)" if q
                   else "full product of title x expand x width x padding with <=1 deviation of box/style/border_style/safe_box (deeper nestings: <=2 deviations)",
                   4 if q else 7, 4 if q else 8,
                   "quick: default vector on all label sets (third set: align None/right), one-deviation vectors on the "
                   "varied-width set without align=left, two-deviation vectors on the uniform set with align None; consoles "
                   "other than utf-8 only for the default vector" if q else "everything on three consoles",
                   len(HIST_SUBJECTS), 3 if q else 4),
        "assumptions": [
            "the child rendered alone by the real code at the inner width is the reference for 'the child's own lines' "
            "(children are judged as frames of their own in other cases; width budget of children is C01)",
            "width oracle = vf/width.py; box, guide and substitution tables are hand written in vf/checks/c08.py",
            "struct_min is conservative: text = widest character, table 9, frame overhead added; a panel with a title needs >=4; "
            "a title that does not fit is only checked loosely; `width` smaller than title+6 is outside the statement",
            "the width a fitting frame gives its child = widest unwrapped line for text leaves (harness count); for tables, nested frames and tab text the child's own Measurement (decided by C09), never the frame's",
            "Align around an empty text (measured width 0) is outside the statement",
            "exact guide glyphs (fork/end/continue per level) are taken as part of 'guide prefix'",
        ],
        "coverage": {k: v for k, v in res.counters.items() if k.startswith("cases_")},
    }


def replay(case):
    res = Result()
    CHECKS[case["fam"]](case, res)
    return [(k, v[2]) for k, v in sorted(res.violations.items())]


TECHNIQUE = ("bounded-exhaustive enumeration of frame/child/option/width/console descriptions on the real renderables, "
             "judged cell by cell against a picture assembled from the child rendered alone plus hand-written border, "
             "padding, offset, order and guide arithmetic; plus all short render/mutate histories of the mutable frames, "
             "judged differentially against a fresh object in the final state")
LEVEL_TEXT = ("Every frame description in the stated bounds is rendered by the real code at every width of the range on three "
              "console kinds and compared with an independently assembled expected picture (characters and visible styles per "
              "cell). Exhaustive inside the bounds; option spaces of Panel and Columns are deviation-bounded in the quick tier; "
              "nothing is sampled.")
LEVEL_NOTE = ("Trusted: CPython, the width table data, RefStyle, the ~600-line reference in vf/checks/c08.py, and the real "
              "rendering of the *child alone* (the property is about what the frame adds). Bounds: see coverage.rule.")
