"""C15 -- Recording, capture and export agree with what was written.

E2: depth-bounded exhaustive enumeration of operation histories on a real
`Console(record=True)` with a non-recording twin console as reference.

    state      = the event history; the real console is rebuilt by replaying it on a
                 fresh object (fresh StringIO file, fixed clock).  The twin replays only
                 what can influence its later output (the log events: LogRender remembers
                 the last time stamp) plus the judged event; the reference model of the
                 prefix is carried along from the run that judged the prefix.  This only
                 accelerates the passing case: whatever it reports, every history of length
                 <= 2 and every 64th one are replayed in full lock-step (twin executes the
                 whole history) and the lock-step verdict is the one reported.
    events     = print(9 payload/style combinations: markup strings with entities, a link, a
                 newline; a Text whose pieces put < > & and an entity under link-only, blink,
                 `not bold`, default-colour, conceal and default-background styles; a Text with
                 hex / rgb() / 8-bit / named colours; with and without a print style) | log | rule(2) | line(1|2) | bell |
                 clear | show_cursor(F|T) | control("") |
                 capture block entered through `with console.capture()` or begin_capture() |
                 left normally, by an exception propagating out of the with-block, or through
                 end_capture() |
                 export_text(clear=True, styles F|T) | export_html(clear=True, inline F|T)
                 -- 27 events; captures are not nested (enter is enabled when no block
                 is open, exit when one is, exit-by-exception for with-blocks)
    configs    = 20: color_system {None, standard, 256, truecolor} x force_terminal {F, T} at
                 width 40; four of them at width 10; every colour system with no_color=True
                 (terminal) and with NO_COLOR in _environ (not a terminal)
    twin       = Console(record=False) of the same configuration that executes every
                 output event directly (captures replaced by direct writes); the bytes
                 it appends to its file for one event are that event's *chunk*
    model      = file_exp (chunks of events outside a block), rec_exp (chunks in the
                 order they were written to the file or returned by a capture, reset
                 by a clearing export), pending (chunks of the open block)
    oracle     = after every history (link ids normalised; reader = vf.term.decode):
                   file == file_exp                     (nothing leaks out of a block)
                   Capture.get() == the block's chunks
                   observation with the four non-clearing exports:
                     export_text()            == characters decoded from rec_exp
                     export_html(inline F|T)  == the same text (tags stripped, entities decoded)
                     export_text(styles=True) decodes to the same (char, style) cells as
                       rec_exp as far as the file can carry them (colours exact on truecolor,
                       presence on 16/256 colours, attributes and links only under no_color,
                       characters only without a colour system) and, exactly and on every
                       configuration, as the record read through RefStyle (the styles as printed)
                     each leaves the canonical state unchanged
                   a clearing export returns what the non-clearing one is required to
                   return and leaves an empty record: directly afterwards all four exports
                   must come out empty, the styled one as the empty string (it also carries
                   recorded control codes, so a record holding only bell / clear / cursor
                   codes is seen)
                   a console that has written nothing since it records exports ""
                   a history that violates is reported and not extended
    canonical  = (file, record segments, thread buffer, buffer depth, log "last time",
                 reference model); a history reaching a canonical state seen before in
                 its shard is checked but not extended.  This is everything a Console
                 mutates in these events (theme stack and render hooks are untouched).

Strata: "full" = all 27 events on 20 configurations, depth <= 3 (quick) / <= 4 (thorough; the
fourth level on the 12 width-40 configurations without NO_COLOR-by-environment);
"core" = a 12-event core one level deeper (depth 4 quick on 6 configurations /
depth 5 thorough on those 12);
"pair" = TWO consoles of one configuration in one history (8 events each, interleaved in
every order, depth <= 3 quick on 3 configurations / <= 4 thorough on 2) x the 4 ways the
two came to record (record=True in the constructor | built without, one print, then
`.record = True`); every console has its own twin and model and all are observed after
every history, so what one console wrote, exported or cleared must not show in the other.
"TH" = thread part (E3, vf/sched.py): A exports with clear=True while B prints / captures on
the SAME console; 12 harnesses, all schedules with <= 1 (quick) / 2 (thorough) preemptions at
lock operations, file writes and lines of export_text / export_html / _render_buffer /
_check_buffer; nothing written may be lost or exported twice.
Shards = configuration x first event[s] (x construction modes); `states` is the sum of the
per-shard distinct canonical states (a state reached under two first events is counted
twice; core shards count only the histories of the additional depth).

Measured on this sandbox (16 workers, load ~8 from other jobs):
quick     277,260 histories, 220,015 states, 3,469 outcome signatures, ~500 CPU-s, 60 s wall
thorough  3,962,806 histories, 3,147,740 states, 4,089 outcome signatures, ~9,600 CPU-s, 950 s wall
"""
import html as _html
import io
import re
from datetime import datetime

from ..par import Result, deadline_passed
from ..refstyle import RefStyle
from ..term import decode

ID = "C15"
LEVEL = "model_checking"
ENGINE = "E2"
CAP_S = {"quick": 240, "thorough": 1500}
FRESH_WORKERS = True      # one configuration per process (a Style memoises its SGR string)
TECHNIQUE = ("depth-bounded exhaustive enumeration of print/log/rule/control/capture/export histories on a real "
             "recording Console (state = history, replayed on fresh consoles, dedup on record+file+buffer), judged "
             "against a non-recording twin console and an independent SGR/OSC-8 stream decoder")
LEVEL_TEXT = ("Every history up to the depth bound over 27 events and 20 console configurations (plus pairs of consoles with interleaved operations) is executed on a real "
              "recording Console and on a twin that writes directly; after every history the file, every capture result, "
              "the plain, styled and both HTML exports are compared with the twin's bytes read by an independent terminal "
              "stream decoder, and the clear / no-clear contract is checked on the canonical state. Every transition is a "
              "call into the real Console, so traces_validated_against_impl equals transitions. Exhaustive inside the "
              "stated bounds; nothing is sampled.")
LEVEL_NOTE = ("Trusted: CPython, vf/term.py (decoder), vf/refstyle.py, html.unescape + a tag regex, and the twin console as "
              "the definition of 'as it would have been written' (rendering itself is judged by C01-C09/C03). "
              "Bounds: history depth 3 over 27 events + depth 4 over a 12-event core + depth 3 over 2 x 8 events on two consoles "
              "(quick) / depth 4 + depth 5 + depth 4 (thorough); 9 print events over 7 payloads; captures not nested; single thread.")

# ------------------------------------------------------------------ alphabet
# print payloads: markup strings (highlighted by the console) or a list of (text, style) pieces that
# becomes a fresh Text (printed as given: no markup, no highlighting)
TEXTS = [
    "a",
    "&lt;<&>",
    "[b]x[/b] y",
    "[link=http://x.y/?q=1&r=2]l[/link]k",
    "a\nb",
    # < > & and an entity under styles that have no CSS rule of their own / only a default colour
    [("<l&>", "link http://x.y/?q=1&r=2"), ("<b&>", "blink"), ("<n&>", "not bold"), ("<d&>", "default"),
     ("&amp;", "conceal"), ("<f>", "on default")],
    # hex / rgb() / 8-bit / named colours
    [("h<", "#ff8040"), ("r&", "on rgb(1,2,3)"), ("e>", "bold color(201) on #102030"), ("s", "red"),
     ("i", "italic color(9)")],
]
STYLES = [None, "bold #ff8700 on blue"]
RULE_TITLES = ["", "t<"]

EVENTS = (
    [("print", 0, 0), ("print", 1, 0), ("print", 2, 0), ("print", 3, 0), ("print", 4, 0),
     ("print", 5, 0), ("print", 6, 0), ("print", 0, 1), ("print", 2, 1)]
    + [("line", 1), ("line", 2)]
    + [("bell",), ("clear",), ("cursor", False), ("cursor", True), ("control",)]
    # capture block: entered through the context manager or begin_capture(); left normally, by an
    # exception propagating out of the with-block (context manager only), or through end_capture()
    + [("begin", "cm"), ("begin", "raw"), ("end", "ok"), ("end", "exc")]
    + [("xtext", False), ("xtext", True), ("xhtml", False), ("xhtml", True)]
    + [("rule", 0), ("rule", 1)]
    + [("log",)]
)
# the 12-event core explored one level deeper than the full alphabet
CORE = [("print", 0, 0), ("print", 1, 0), ("print", 5, 0), ("print", 2, 1), ("line", 1), ("bell",),
        ("begin", "cm"), ("end", "ok"), ("end", "exc"), ("xtext", False), ("xhtml", True), ("log",)]
# two consoles in one history: per-console alphabet of the "pair" stratum
PAIR = [("print", 0, 0), ("print", 1, 0), ("bell",), ("begin", "cm"), ("end", "ok"),
        ("xtext", False), ("xhtml", True), ("log",)]
# how a console of the pair stratum came to record: record=True in the constructor, or built without,
# one print (which must not be recorded), then `console.record = True`
MODES = [("ctor", "ctor"), ("late", "late"), ("ctor", "late"), ("late", "ctor")]

# (color_system, force_terminal, width, no_color) with no_color in None | "arg" (no_color=True) |
# "env" (NO_COLOR in _environ).  Width 10 and no_color are crossed with the colour systems, not with
# each other (neither code path looks at the other).
CONFIGS = (
    [(cs, term, 40, None) for term in (False, True) for cs in (None, "standard", "256", "truecolor")]
    + [(None, False, 10, None), ("standard", True, 10, None), ("256", False, 10, None), ("truecolor", True, 10, None)]
    + [(cs, True, 40, "arg") for cs in (None, "standard", "256", "truecolor")]
    + [(cs, False, 40, "env") for cs in (None, "standard", "256", "truecolor")]
)
# configurations of the deeper core stratum: quick 6, thorough 12
CORE_CONFIGS_QUICK = [(None, False, 40, None), ("standard", True, 40, None), ("256", False, 40, None),
                      ("truecolor", True, 40, None), ("standard", True, 40, "arg"), ("truecolor", False, 40, "env")]
CORE_CONFIGS_THOROUGH = [c for c in CONFIGS if c[2] == 40 and c[3] in (None, "arg")]
# the deepest level of the full alphabet in the thorough tier runs on these, the rest stops one level earlier
FULL_DEEP_CONFIGS_THOROUGH = CORE_CONFIGS_THOROUGH
PAIR_CONFIGS_QUICK = [(None, False, 40, None), ("standard", True, 40, None), ("truecolor", True, 40, "arg")]
PAIR_CONFIGS_THOROUGH = [("standard", True, 40, None), ("truecolor", False, 40, "env")]

_FIXED_DT = datetime(2021, 2, 3, 4, 5, 6)
_LINK_ID = re.compile(r"\x1b\]8;id=[^;\x1b\x07]*;")


def _norm(s):
    """drop the random id parameter of OSC 8 (Style._link_id is time()+randint)"""
    return _LINK_ID.sub("\x1b]8;id=;", s)


def _console(cfg, record):
    from rich.console import Console
    cs, term, w, nc = cfg
    return Console(file=io.StringIO(), width=w, height=25, force_terminal=term, color_system=cs,
                   legacy_windows=False, record=record, _environ={"NO_COLOR": "1"} if nc == "env" else {},
                   no_color=True if nc == "arg" else None,
                   get_datetime=lambda: _FIXED_DT, get_time=lambda: 0.0)


def _emit(con, ev):
    """the one place where an output event is executed -- on the real and on the twin
    console from the same line, so Console.log reports the same caller"""
    k = ev[0]
    if k == "print":
        payload = TEXTS[ev[1]]
        if not isinstance(payload, str):
            from rich.text import Text
            payload = Text.assemble(*payload)
        con.print(payload, style=STYLES[ev[2]])
    elif k == "log":
        con.log("a [i]b[/i]")
    elif k == "rule":
        con.rule(RULE_TITLES[ev[1]])
    elif k == "line":
        con.line(ev[1])
    elif k == "bell":
        con.bell()
    elif k == "clear":
        con.clear()
    elif k == "cursor":
        con.show_cursor(ev[1])
    elif k == "control":
        con.control("")
    else:
        raise AssertionError(ev)


_OUTPUT = ("print", "log", "rule", "line", "bell", "clear", "cursor", "control")


# ------------------------------------------------------------------ readers
_DEC = {}


def _decode(stream):
    """memoised vf.term.decode (pure): -> (cells, controls, unknown sequences, characters)"""
    hit = _DEC.get(stream)
    if hit is None:
        cells, ctl, dec = decode(stream)
        hit = (cells, ctl, list(dec.unknown), "".join(ch for ch, _ in cells))
        if len(_DEC) > 50000:
            _DEC.clear()
        _DEC[stream] = hit
    return hit


def _cells(stream):
    return _decode(stream)[0]


def _chars(stream):
    return _decode(stream)[3]


_PRE = re.compile(r"<pre[^>]*>(.*)</pre>", re.S)
_TAG = re.compile(r"<[^>]*>")


def _html_text(doc):
    m = _PRE.search(doc)
    if m is None:
        return None
    return _html.unescape(_TAG.sub("", m.group(1)))


def _style_view(st, level):
    """st = (attrs, fg, bg, link). level 2: exact; 1: colours only present/absent;
    3: attributes and link only; 0: nothing"""
    if level == 2:
        return st
    if level == 1:
        return (st[0], st[1] is not None, st[2] is not None, st[3])
    if level == 3:
        return (st[0], st[3])
    return None


def _first_diff(a, b):
    n = min(len(a), len(b))
    for i in range(n):
        if a[i] != b[i]:
            return "at %d: %r vs %r" % (i, a[max(0, i - 2):i + 3], b[max(0, i - 2):i + 3])
    return "lengths %d vs %d: tails %r vs %r" % (len(a), len(b), a[n:n + 6], b[n:n + 6])


def _crash_key(exc):
    import traceback
    tb = traceback.extract_tb(exc.__traceback__)
    fr = None
    for f in tb:
        if "/rich/" in f.filename.replace("\\", "/"):
            fr = f
    if fr is None:
        fr = tb[-1]
    return "crash/%s/%s:%s" % (type(exc).__name__, fr.filename.rsplit("/", 1)[-1], fr.name)


# ------------------------------------------------------------------ one run
class Run:
    """One recording console + its twin + its reference model."""

    def __init__(self, cfg, mode="ctor"):
        self.cfg = cfg
        self.mode = mode
        self.twin = _console(cfg, False)
        self.twin_len = 0
        self.file_exp = ""
        self.rec_exp = ""
        self.pending = None       # chunks of the open capture block
        self.open_kind = None     # "cm" | "raw" while a block is open
        self.cap = None
        self.problems = []        # (key, detail)
        self.flags = set()        # for the outcome signature
        self.just_cleared = False
        self.closing = False
        if mode == "ctor":
            self.real = _console(cfg, True)
        else:
            # recording switched on afterwards; what was printed before is in the file, not in the record
            self.real = _console(cfg, False)
            ev = ("print", 0, 0)
            _emit(self.twin, ev)
            _emit(self.real, ev)
            whole = self.twin.file.getvalue()
            self.file_exp = _norm(whole)
            self.twin_len = len(whole)
            self.real.record = True
        # a console that has not written anything since it records must export nothing -- whatever
        # other consoles did before in this process
        try:
            left = self.real.export_text(clear=False, styles=True)
        except Exception:     # noqa: BLE001 -- reported by the first observation
            left = ""
        if left != "":
            self.bad("export/fresh-console-exports-something",
                     "a new console (recording %s) exports %r before anything was written to it"
                     % ("from the constructor" if mode == "ctor" else "switched on after construction", left[:80]))

    # -- state
    def is_open(self):
        return self.pending is not None

    def canon(self):
        r = self.real
        return (_norm(r.file.getvalue()), _segs(r._record_buffer), _segs(r._buffer), r._buffer_index,
                r._log_render._last_time, self.file_exp, self.rec_exp, self.pending, self.open_kind,
                self.twin._log_render._last_time)

    def model(self):
        return (self.file_exp, self.rec_exp, self.pending, self.open_kind)

    def bad(self, key, detail):
        self.problems.append((key, detail))

    # -- the capture events on the real console
    def _begin(self, kind):
        if kind == "cm":
            self.cap = self.real.capture()
            self.cap.__enter__()
        else:
            self.real.begin_capture()

    def _end(self, how):
        """-> the captured string, or None when the Capture object has no result"""
        if self.open_kind == "raw":
            return self.real.end_capture()
        if how == "exc":
            try:
                raise KeyError("application error inside the capture block")
            except KeyError as exc:
                self.cap.__exit__(KeyError, exc, exc.__traceback__)
        else:
            self.cap.__exit__(None, None, None)
        from rich.console import CaptureError
        try:
            return self.cap.get()
        except CaptureError:
            return None

    # -- transitions
    def step(self, ev, check):
        k = ev[0]
        self.just_cleared = k in ("xtext", "xhtml")
        self.closing = k == "end"
        try:
            if k in _OUTPUT:
                _emit(self.twin, ev)
                whole = self.twin.file.getvalue()
                chunk = _norm(whole[self.twin_len:])
                self.twin_len = len(whole)
                _emit(self.real, ev)
                if self.pending is None:
                    self.file_exp += chunk
                    self.rec_exp += chunk
                else:
                    self.pending += chunk
            elif k == "begin":
                self._begin(ev[1])
                self.pending = ""
                self.open_kind = ev[1]
            elif k == "end":
                got = self._end(ev[1])
                want = self.pending
                kind = self.open_kind
                self.pending = None
                self.open_kind = None
                self.rec_exp += want
                if check:
                    if got is None:
                        self.bad("capture/no-result-after-block",
                                 "Capture.get() raises CaptureError after the block was left (%s)" % ev[1])
                    elif _norm(got) != want:
                        got = _norm(got)
                        self.bad("capture/result-differs-from-direct-write",
                                 "%s %r, the twin wrote %r (%s)" % ("end_capture()" if kind == "raw" else "Capture.get()",
                                                                    got, want, _first_diff(got, want)))
                self.flags.add(("cap-empty" if not want else "cap") + ("-exc" if ev[1] == "exc" else ""))
            elif k == "xtext":
                ref = _record_cells(self.real._record_buffer) if check and ev[1] else None
                out = self.real.export_text(clear=True, styles=ev[1])
                if check:
                    self.judge_text(out, ev[1], "clear=True", ref)
                self.rec_exp = ""
            elif k == "xhtml":
                out = self.real.export_html(clear=True, inline_styles=ev[1])
                if check:
                    self.judge_html(out, ev[1], "clear=True")
                self.rec_exp = ""
        except Exception as exc:     # noqa: BLE001 -- any exception of the code under test is a finding
            self.bad(_crash_key(exc), "%s: %s" % (type(exc).__name__, exc))
            return False
        if check:
            self.check_file()
        return True

    def check_file(self):
        got = _norm(self.real.file.getvalue())
        if got != self.file_exp:
            if (self.pending is not None or self.closing) and len(got) > len(self.file_exp):
                self.bad("capture/output-reached-the-file", "file %r, expected %r (block %s)"
                         % (got, self.file_exp, "open" if self.pending is not None else "just left"))
            else:
                self.bad("file/differs-from-direct-writes", "file %r, twin (events outside blocks) %r (%s)"
                         % (got, self.file_exp, _first_diff(got, self.file_exp)))

    def ff_event(self, ev):
        """replays a prefix event: real console only (the twin only logs)"""
        k = ev[0]
        if k in _OUTPUT:
            if k == "log":
                _emit(self.twin, ev)
            _emit(self.real, ev)
        elif k == "begin":
            self._begin(ev[1])
            self.open_kind = ev[1]
        elif k == "end":
            self._end(ev[1])
            self.open_kind = None
        elif k == "xtext":
            self.real.export_text(clear=True, styles=ev[1])
        elif k == "xhtml":
            self.real.export_html(clear=True, inline_styles=ev[1])

    def ff_finish(self, model):
        self.twin_len = len(self.twin.file.getvalue())
        self.file_exp, self.rec_exp, self.pending, self.open_kind = model

    # -- oracles on exports
    def judge_text(self, out, styles, how, ref=None):
        want_cells = _cells(self.rec_exp)
        want = _chars(self.rec_exp)
        if not styles:
            if out != want:
                ctl = any(ch < " " and ch != "\n" for ch in out)
                self.bad("export_text/control-bytes-in-text" if ctl else "export_text/visible-text-differs",
                         "export_text(%s) %r, visible text written %r (%s)" % (how, out, want, _first_diff(out, want)))
            return
        cells, _ctl, unknown, got = _decode(_norm(out))
        if got != want:
            self.bad("export_text-styles/characters-differ",
                     "export_text(styles=True, %s) decodes to %r, visible text written %r (%s)"
                     % (how, got, want, _first_diff(got, want)))
            return
        if unknown:
            self.bad("export_text-styles/undecodable-sequence", repr(unknown[:3]))
        cs, nc = self.cfg[0], self.cfg[3]
        # what the file can carry: nothing without a colour system, attributes and links only under
        # no_color, down-converted colours on 16/256-colour consoles (the conversion is C18/C03's)
        level = 0 if cs is None else 3 if nc else 2 if cs == "truecolor" else 1
        if level:
            a = [_style_view(st, level) for _, st in cells]
            b = [_style_view(st, level) for _, st in want_cells]
            if a != b:
                i = next(i for i in range(len(a)) if a[i] != b[i])
                self.bad("export_text-styles/style-differs-from-written",
                         "char %d %r: export %r, written %r (color_system=%s, no_color=%s)"
                         % (i, cells[i][0], cells[i][1], want_cells[i][1], cs, nc))
        # the record read through RefStyle: the styles as printed, exactly, whatever the console's colour system
        lvl = 2
        if ref is not None:
            a = [_style_view(st, lvl) for _, st in cells]
            b = [_style_view(st, lvl) for _, st in ref]
            if [c for c, _ in ref] == [c for c, _ in cells] and a != b:
                i = next(i for i in range(len(a)) if a[i] != b[i])
                self.bad("export_text-styles/style-differs-from-record",
                         "char %d %r: export %r, recorded segment style %r" % (i, cells[i][0], cells[i][1], ref[i][1]))

    def judge_html(self, out, inline, how):
        want = _chars(self.rec_exp)
        got = _html_text(out)
        if got is None:
            self.bad("export_html/no-pre-element", out[:200])
            return
        if got != want:
            ctl = any(ch < " " and ch != "\n" for ch in got)
            self.bad("export_html/control-bytes-in-text" if ctl else "export_html/text-differs",
                     "export_html(inline_styles=%s, %s) text %r, visible text written %r (%s)"
                     % (inline, how, got, want, _first_diff(got, want)))

    def observe(self):
        """the four non-clearing exports, each followed by a state comparison.  Judged in the
        order plain text, styled text, HTML; a later one is judged only when the plain export
        agreed (a record that differs from what was written is one defect, not three).
        Directly after a clearing export every kind of export must come out empty: the plain and
        the HTML text, and the styled export as the empty string (it also carries the recorded
        control codes, so this is the one that sees a record that still holds something)."""
        real = self.real
        before = self.canon()
        try:
            if self.just_cleared:
                left = [("export_text()", real.export_text(clear=False)),
                        ("export_text(styles=True)", real.export_text(clear=False, styles=True)),
                        ("export_html() text", _html_text(real.export_html(clear=False))),
                        ("export_html(inline_styles=True) text",
                         _html_text(real.export_html(clear=False, inline_styles=True)))]
                left = [(n, o) for n, o in left if o]
                if left:
                    self.bad("export/clear-true-left-record",
                             "after an export with clear=True a second %s returns %r" % (left[0][0], left[0][1][:80]))
                    return before
            n = len(self.problems)
            out = real.export_text(clear=False, styles=False)
            self.judge_text(out, False, "clear=False")
            plain_ok = len(self.problems) == n
            ref = _record_cells(real._record_buffer)
            out = real.export_text(clear=False, styles=True)
            if plain_ok:
                self.judge_text(out, True, "clear=False", ref)
            for inline in (False, True):
                out = real.export_html(clear=False, inline_styles=inline)
                if plain_ok:
                    self.judge_html(out, inline, "clear=False")
        except Exception as exc:     # noqa: BLE001
            self.bad(_crash_key(exc), "%s: %s" % (type(exc).__name__, exc))
            return before
        after = self.canon()
        if after != before:
            self.bad("export/clear-false-changed-state", "record/file/buffer changed by export(clear=False)")
        return before


class World:
    """One console (single strata) or two consoles of the same configuration whose operations are
    interleaved in one history (pair stratum).  A history is a list of (side, event)."""

    def __init__(self, cfg, modes=("ctor",)):
        self.cfg = cfg
        self.modes = tuple(modes)
        self.sides = [Run(cfg, m) for m in modes]
        self.acting = None

    @property
    def problems(self):
        out = []
        for i, s in enumerate(self.sides):
            for key, detail in s.problems:
                out.append((key, detail if len(self.sides) == 1 else "console %d: %s" % (i, detail)))
        return out

    def models(self):
        return tuple(s.model() for s in self.sides)

    def step(self, sev, check):
        side, ev = sev
        self.acting = side
        for i, s in enumerate(self.sides):
            if i != side:
                s.just_cleared = s.closing = False
        return self.sides[side].step(tuple(ev), check)

    def fast_forward(self, prefix, models):
        try:
            for side, ev in prefix:
                self.sides[side].ff_event(tuple(ev))
        except Exception as exc:     # noqa: BLE001
            self.sides[0].bad(_crash_key(exc), "%s: %s (while replaying a prefix that ran before)"
                              % (type(exc).__name__, exc))
            return False
        for s, m in zip(self.sides, models):
            s.ff_finish(m)
        return True

    def observe(self):
        """every console is observed after every history: what one console did must not show in
        the file or in any export of the other"""
        canon = []
        for i, s in enumerate(self.sides):
            if i != self.acting and self.acting is not None:
                s.check_file()
            canon.append(s.observe())
        return tuple(canon)


def _segs(segments):
    out = []
    for text, style, ctl in segments:
        out.append((text, None if style is None else _stylekey(style), ctl))
    return tuple(out)


_SK = {}


def _ref(style):
    """-> (style, RefStyle key, visible tuple), memoised per Style object"""
    k = id(style)
    hit = _SK.get(k)
    if hit is None or hit[0] is not style:
        r = RefStyle.from_rich(style)
        hit = (style, r.key(), r.visible())
        if len(_SK) > 20000:
            _SK.clear()
        _SK[k] = hit
    return hit


def _stylekey(style):
    return _ref(style)[1]


_NULL_VIS = RefStyle().visible()


def _record_cells(segments):
    out = []
    for text, style, ctl in segments:
        if ctl:
            continue
        v = _NULL_VIS if style is None else _ref(style)[2]
        for ch in text:
            out.append((ch, v))
    return out


def enabled(ev, open_kind):
    """captures are not nested; an exception can only leave a with-block"""
    if ev[0] == "begin":
        return open_kind is None
    if ev[0] == "end":
        return open_kind is not None and (ev[1] == "ok" or open_kind == "cm")
    return True


def run_history(cfg, hist, models=None, modes=("ctor",)):
    """Replays `hist` (list of (side, event)) on fresh consoles; oracles are evaluated on the last
    event and on the final observation (every proper prefix is a history of its own).
    -> (World, canon)

    models=None: twins and reference models run in lock-step over the whole history (replay files,
    self-check).  models = per console (file_exp, rec_exp, pending, open_kind) of the prefix
    hist[:-1], as computed when that prefix was judged: the prefix is replayed on the real
    consoles only; a twin replays just the prefix's log events of its console (the only events
    that change what a later event makes it write: LogRender._last_time) and then the last event."""
    world = World(cfg, modes)
    n = len(hist)
    ok = True
    if models is not None and n:
        ok = world.fast_forward(hist[:-1], models)
        if ok:
            ok = world.step(hist[-1], True)
    else:
        for i, sev in enumerate(hist):
            ok = world.step(sev, i == n - 1)
            if not ok:
                break
    canon = world.observe() if ok else None
    return world, canon


def _signature(world, hist):
    cfg = world.cfg
    last = hist[-1][1][0] if hist else "-"
    parts = []
    nontrivial = False
    for run in world.sides:
        rec = run.rec_exp
        cells, ctl = _decode(rec)[:2]
        nontrivial = nontrivial or bool(cells) or bool(ctl) or bool(run.flags)
        if len(world.sides) == 1:
            styled = any(st[0] or st[1] or st[2] for _, st in cells)
            linked = any(st[3] for _, st in cells)
            nl = sum(1 for ch, _ in cells if ch == "\n")
            parts.append((run.open_kind, bool(cells), styled or linked, bool(ctl), min(nl, 2),
                          tuple(sorted(run.flags))))
        else:
            parts.append((run.is_open(), bool(cells), bool(ctl), bool(run.flags)))
    if len(world.sides) == 1:
        sig = (cfg[0], bool(cfg[3]), last) + parts[0]
    else:
        sig = (cfg[0], "pair", world.modes, hist[-1][0] if hist else -1, last, tuple(parts))
    return sig, nontrivial


def _external(hist, modes):
    """history as written into case descriptions: plain events for one console, [side, event] for two"""
    if len(modes) == 1:
        return [list(ev) for _, ev in hist]
    return [[side, list(ev)] for side, ev in hist]


def _case(cfg, hist, modes):
    case = {"config": list(cfg), "history": _external(hist, modes)}
    if len(modes) > 1:
        case["modes"] = list(modes)
    return case


def _check(cfg, hist, res, models=None, counted=True, modes=("ctor",)):
    world, canon = run_history(cfg, hist, models, modes)
    res.evaluations += 1
    res.count("transitions", 1 if hist and counted else 0)
    res.count("events_executed_including_replays", len(hist))
    if models is not None and (world.problems or len(hist) <= 2 or res.evaluations % 64 == 0):
        # The fast path only accelerates the passing case.  Anything it reports, all short
        # histories and every 64th one are replayed in full lock-step (the twin executes the
        # whole history); the lock-step verdict is the one that counts.
        world2, canon2 = run_history(cfg, hist, None, modes)
        res.count("lockstep_reruns")
        k1, k2 = [k for k, _ in world.problems], [k for k, _ in world2.problems]
        if k1 != k2:
            res.count("fast_path_verdict_differs")
        elif not k1 and (canon2 != canon or world2.models() != world.models()):
            raise AssertionError("fast-forward and lock-step replay reach different states on %r %r %r"
                                 % (cfg, modes, hist))
        world, canon = world2, canon2
    for key, detail in world.problems:
        res.violate(key, _case(cfg, hist, modes), detail)
    sig, nt = _signature(world, hist)
    res.sig(sig, nontrivial=nt)
    return world, canon


def _depths(tier):
    """-> (full-alphabet depth, core-alphabet depth, pair depth)"""
    return (3, 4, 3) if tier == "quick" else (4, 5, 4)


def _core_configs(tier):
    """indices of the configurations of the core stratum"""
    return [CONFIGS.index(c) for c in (CORE_CONFIGS_QUICK if tier == "quick" else CORE_CONFIGS_THOROUGH)]


def _pair_configs(tier):
    return [CONFIGS.index(c) for c in (PAIR_CONFIGS_QUICK if tier == "quick" else PAIR_CONFIGS_THOROUGH)]


def _full_depth(tier, cfg):
    d = _depths(tier)[0]
    if tier != "quick" and cfg not in FULL_DEEP_CONFIGS_THOROUGH:
        d -= 1
    return d


_PAIR_ALPHABET = [(side, ev) for ev in PAIR for side in (0, 1)]


def plan(tier, seed):
    import rich.console, rich.rule, rich.table, rich.styled, rich.markup, rich.containers  # noqa: F401,E401 -- forked workers inherit the imports
    # the small strata first: if the wall cap triggers, it cuts the last level of the full alphabet
    nsplit = 1 if tier == "quick" else 8
    shards = [{"alpha": "TH", "h": i, "i": k, "n": nsplit} for i in range(len(TH_HARNESSES)) for k in range(nsplit)]
    shards.append({"alpha": "RE"})
    for ci in _pair_configs(tier):
        for mi in range(len(MODES)):
            for fi in range(len(_PAIR_ALPHABET)):
                shards.append({"cfg": ci, "modes": mi, "first": fi, "alpha": "pair"})
    for ci in _core_configs(tier):
        for fi in range(len(CORE)):
            # thorough splits further (by the second event) to keep the shards short
            for si in (range(len(CORE)) if tier != "quick" else (None,)):
                shards.append({"cfg": ci, "first": fi, "second": si, "alpha": "core"})
    for ci in range(len(CONFIGS)):
        for fi in range(len(EVENTS)):
            shards.append({"cfg": ci, "first": fi, "alpha": "full"})
    return shards


def _explore(cfg, root, alphabet, maxdepth, res, count_from=1, modes=("ctor",)):
    """BFS by levels below the root history (which is itself judged, in lock-step).
    Histories shorter than count_from are executed and judged again but belong to another
    stratum: they are left out of `states` / `transitions`."""
    _, c0 = run_history(cfg, [], None, modes)
    seen = {hash(c0)}
    frontier = []
    maxd = 0
    nstates = 0
    # prefixes of the root were judged by another shard; here they only have to be replayable
    world, canon = _check(cfg, root, res, counted=len(root) >= count_from, modes=modes)
    if canon is not None and hash(canon) not in seen and not world.problems:
        seen.add(hash(canon))
        frontier.append((root, world.models()))
        maxd = len(root)
        nstates += len(root) >= count_from
    elif canon is not None:
        res.count("histories_reaching_seen_state")
    depth = len(root)
    while frontier and depth < maxdepth:
        nxt = []
        for h, models in frontier:
            if deadline_passed():
                res.capped = True
                break
            for sev in alphabet:
                if not enabled(sev[1], models[sev[0]][3]):
                    continue
                h2 = h + [sev]
                counted = len(h2) >= count_from
                world, canon = _check(cfg, h2, res, models, counted, modes)
                if canon is None or world.problems:
                    # behaviour behind a violating transition is not explored (one defect, one key)
                    continue
                hc = hash(canon)
                if hc in seen:
                    res.count("histories_reaching_seen_state")
                    continue
                seen.add(hc)
                nxt.append((h2, world.models()))
                maxd = len(h2)
                nstates += counted
        if res.capped:
            break
        frontier = nxt
        depth += 1
    if not res.capped:
        res.count("frontier_at_depth_cap", len(frontier))
        if frontier:
            res.sample(_case(cfg, frontier[len(frontier) // 2][0], modes), limit=1)
    res.count("states", nstates)
    res.counters["max_depth"] = max(res.counters.get("max_depth", 0), maxd)
    return seen


# ------------------------------------------------------------------ part TH: two threads, ONE recording console (E3, vf/sched.py)
# A exports with clear=True while B prints (or captures and prints) on the same console.  Scheduling points:
# every cooperative lock operation, every write to the file and every executed line of Console.export_text /
# export_html / _render_buffer / _check_buffer (line events restricted to those code objects).  Every execution
# with <= bound preemptions is run.  Oracle, after both threads finished: the text A's clearing export returned
# followed by a final non-clearing export must be exactly the text that was written (to the file or to the
# capture), each line once and in order; the file holds exactly what was printed outside the capture block and
# the capture returns what was printed inside.
TH_FIRST = "first <line> & 0"
TH_P1 = "late <b> & 1"
TH_P2 = "later & 2"
TH_A = [("xtext", False), ("xtext", True), ("xhtml", False), ("xhtml", True)]
TH_B = ["print1", "print2", "capture"]
TH_HARNESSES = [(a, b) for b in TH_B for a in TH_A]
TH_LINES_OF = ("Console.export_text", "Console.export_html", "Console._render_buffer", "Console._check_buffer")
TH_STOP_AFTER_VIOLATIONS = 8


def _th_bound(tier):
    return 1 if tier == "quick" else 2


def _th_setup():
    """forked child only: installs the scheduler, line events on the four functions only"""
    import sys
    from .. import sched
    sched.install()
    mon = sys.monitoring
    for name in sched.WHITELIST:
        for co, qual in sched._code_objects(sys.modules[name]).items():
            base = ".".join(qual.split(".")[:2])
            on = name == "rich.console" and base in TH_LINES_OF
            mon.set_local_events(sched.TOOL, co, mon.events.LINE if on else 0)
    sched.SKIP_CODES = frozenset()


def _th_make(hid):
    akind, bkind = hid

    def make(s):
        from rich.console import Console
        from .. import sched
        f = sched.RecFile()
        con = Console(file=f, width=40, height=25, force_terminal=False, color_system=None, legacy_windows=False,
                      record=True, _environ={}, get_datetime=lambda: _FIXED_DT, get_time=lambda: 0.0)
        con.print(TH_FIRST)
        out = {}

        def A():
            if akind[0] == "xtext":
                out["A"] = con.export_text(clear=True, styles=akind[1])
            else:
                out["A"] = con.export_html(clear=True, inline_styles=akind[1])

        def B():
            if bkind == "capture":
                with con.capture() as cap:
                    con.print(TH_P1)
                out["cap"] = cap.get()
                con.print(TH_P2)
            else:
                con.print(TH_P1)
                if bkind == "print2":
                    con.print(TH_P2)

        def finish():
            try:
                final = con.export_text(clear=False)
            except Exception as e:      # noqa: BLE001
                final = e
            return {"A": out.get("A"), "cap": out.get("cap"), "final": final, "file": f.getvalue()}
        return {"A": A, "B": B}, finish
    return make


def _th_judge(hid, s, obs):
    """-> (signature, [(key, detail)])"""
    akind, bkind = hid
    vio = []
    if s.problem:
        vio.append(("threads/%s" % s.problem.split(":")[0], s.problem))
    for tid, e in s.errors:
        vio.append(("threads/exception/%s" % type(e).__name__, "thread %s raised %r" % (tid, e)))
    lines = [TH_FIRST, TH_P1] + ([TH_P2] if bkind != "print1" else [])
    want_total = "".join(x + "\n" for x in lines)
    want_file = "".join(x + "\n" for x in lines if not (bkind == "capture" and x == TH_P1))
    share = -1
    if not vio:
        a = obs["A"]
        if akind[0] == "xhtml":
            a_text = _html_text(a)
        else:
            a_text = _chars(_norm(a))
        final = obs["final"]
        if isinstance(final, Exception) or a_text is None:
            vio.append(("threads/export-failed", "A %r final %r" % (a, final)))
        else:
            total = a_text + final
            if total != want_total:
                got_lines = total.split("\n")
                lost = [x for x in lines if x not in got_lines]
                twice = [x for x in lines if got_lines.count(x) > 1]
                key = ("threads/export/written-line-in-no-export" if lost else
                       "threads/export/line-exported-twice" if twice else "threads/export/order-or-content-differs")
                vio.append((key, "clearing %s returned %r, the final export_text(clear=False) %r; written: %r"
                            % (akind, a_text, final, want_total)))
            share = sum(1 for x in lines if x in a_text.split("\n"))
        if obs["file"] != want_file:
            leak = bkind == "capture" and TH_P1 in obs["file"]
            vio.append(("threads/capture/output-reached-the-file" if leak else "threads/file-differs",
                        "file %r, printed outside capture blocks %r" % (obs["file"], want_file)))
        if bkind == "capture" and obs["cap"] != TH_P1 + "\n":
            vio.append(("threads/capture/result-differs", "Capture.get() %r, printed inside the block %r"
                        % (obs["cap"], TH_P1 + "\n")))
    dev = s.deviations_before(len(s.choices))
    return ("TH", akind, bkind, min(dev, 3), share, bool(vio)), vio


def _in_child(fn):
    """runs fn() in a forked child (the scheduler's monkey-patching and monitoring never touch the worker)"""
    import os
    import pickle
    import traceback
    from ..par import MachineryError
    r, w = os.pipe()
    pid = os.fork()
    if pid == 0:
        try:
            os.close(r)
            try:
                data = pickle.dumps(("ok", fn()))
            except BaseException:           # noqa: BLE001
                data = pickle.dumps(("err", traceback.format_exc()))
            with os.fdopen(w, "wb") as f:
                f.write(data)
        finally:
            os._exit(0)
    os.close(w)
    with os.fdopen(r, "rb") as f:
        data = f.read()
    os.waitpid(pid, 0)
    st, out = pickle.loads(data) if data else ("err", "child process died without an answer")
    if st != "ok":
        raise MachineryError("child failed: %s" % out)
    return out


def _th_explore(hid, bound, first_level=(0, 1)):
    from .. import sched
    _th_setup()
    recs = []
    bad = [0]

    def judge_exec(s, obs):
        sig, vio = _th_judge(hid, s, obs)
        ch = list(s.choices)
        while ch and ch[-1] == 0:
            ch.pop()
        if vio:
            # a counterexample must reproduce identically before it is reported
            s2, obs2 = sched.run_once(_th_make(hid), ch, "line", 0)
            _sig2, vio2 = _th_judge(hid, s2, obs2)
            if [k for k, _ in vio2] != [k for k, _ in vio]:
                raise RuntimeError("schedule not reproducible: %r then %r (choices %r)" % (vio, vio2, ch))
            bad[0] += 1
        recs.append((sig, vio, ch, len(s.choices)))

    st = sched.explore(_th_make(hid), bound, judge_exec, granularity="line", timeout_budget=0,
                       first_level=first_level,
                       stop=lambda: deadline_passed() or bad[0] >= TH_STOP_AFTER_VIOLATIONS)
    return {"recs": recs, "stats": st, "stopped_on_violations": bad[0] >= TH_STOP_AFTER_VIOLATIONS}


def _part_TH(sh, tier, res):
    hid = TH_HARNESSES[sh["h"]]
    bound = _th_bound(tier)
    out = _in_child(lambda: _th_explore(hid, bound, (sh.get("i", 0), sh.get("n", 1))))
    for sig, vio, ch, ncp in out["recs"]:
        res.evaluations += 1
        res.sig(sig, nontrivial=sig[3] > 0)
        res.counters["max_choice_points_per_schedule"] = max(res.counters.get("max_choice_points_per_schedule", 0), ncp)
        for key, detail in vio:
            res.violate(key, {"part": "TH", "h": [list(hid[0]), hid[1]], "choices": ch}, detail)
    res.count("schedules", out["stats"]["executions"])
    if out["stats"]["complete"]:
        res.count("thread_harness_shards_complete")
    elif not out["stopped_on_violations"]:
        res.capped = True
    if sh["h"] == 0 and sh.get("i", 0) == 0:
        res.sample({"part": "TH", "harness": [list(hid[0]), hid[1]], "bound": bound}, limit=1)


def _replay_TH(case):
    hid = (tuple(case["h"][0]), case["h"][1])

    def child():
        from .. import sched
        _th_setup()
        s, obs = sched.run_once(_th_make(hid), list(case["choices"]), "line", 0)
        return _th_judge(hid, s, obs)[1]
    return _in_child(child)


# ------------------------------------------------------------------ part RE: renderables that use the console while being rendered
# One print call with 0..2 ordinary renderables before a renderable R whose __rich_console__ enters
# console.capture(), prints, leaves the capture and then yields its own output -- under every print option
# that changes how the call's segments are collected (crop / soft_wrap / no_wrap / overflow) x record on/off
# x configurations. Oracle (twin consoles of the same configuration, nothing re-entrant on them):
#   captured == what a twin writes for print(inner);   file == what a twin writes for the same call with R
#   replaced by a plain renderable yielding R's output;   export_text == captured text + visible text of the file.
RE_PRE = [[], ["Report <1> & more:"], ["[b]p[/b]", "q"]]
RE_INNER = ["inner text", "[i]in[/i] <&>"]
RE_OPTS = [{}, {"crop": False}, {"soft_wrap": True}, {"no_wrap": True}, {"overflow": "ignore", "crop": False}, {"end": ""}]
RE_CONFIGS = [(None, False, 40, None), ("standard", True, 40, None), ("truecolor", True, 10, None), ("256", False, 40, "env")]


class _Plain:
    def __init__(self, text):
        self.text = text

    def __rich_console__(self, console, options):
        from rich.text import Text
        yield Text(self.text)


class _Reentrant:
    def __init__(self, inner):
        self.inner = inner
        self.captured = None

    def __rich_console__(self, console, options):
        from rich.text import Text
        with console.capture() as cap:
            console.print(self.inner)
        self.captured = cap.get()
        yield Text("R-out")


def check_reentrant(ci, pi, ii, oi, record, res):
    cfg, pre, inner, opts = RE_CONFIGS[ci], RE_PRE[pi], RE_INNER[ii], RE_OPTS[oi]
    case = {"part": "RE", "cfg": ci, "pre": pi, "inner": ii, "opts": oi, "record": record}
    what = "print(%s_Reentrant(%r)%s) on config %r record=%r" % ("".join("%r, " % p for p in pre), inner,
                                                                "".join(", %s=%r" % kv for kv in opts.items()), cfg, record)
    res.evaluations += 1
    try:
        t1 = _console(cfg, False)
        t1.print(inner)
        want_cap = _norm(t1.file.getvalue())
        t2 = _console(cfg, False)
        t2.print(*pre, _Plain("R-out"), **opts)
        want_file = _norm(t2.file.getvalue())
        con = _console(cfg, record)
        r = _Reentrant(inner)
        con.print(*pre, r, **opts)
        got_file = _norm(con.file.getvalue())
        got_cap = None if r.captured is None else _norm(r.captured)
        exported = con.export_text(clear=False) if record else None
    except Exception as exc:  # noqa: BLE001
        res.violate("reentrant/" + _crash_key(exc), case, "%s raised %r" % (what, exc))
        return
    if got_cap != want_cap:
        res.violate("reentrant/capture-content", case, "%s: the capture inside R returned %r, a print of the same text writes %r"
                    % (what, got_cap, want_cap))
    if got_file != want_file:
        res.violate("reentrant/file", case, "%s: file %r, the same call without the capture writes %r" % (what, got_file, want_file))
    # (captured output is recorded as well -- the convention of the whole check: it counts as written, at the
    # moment the capture block is left, i.e. before the segments of the outer call)
    if exported is not None and exported != _chars(want_cap) + _chars(got_file):
        res.violate("reentrant/export-differs-from-file", case, "%s: export_text %r, captured text + visible text of the file %r"
                    % (what, exported, _chars(want_cap) + _chars(got_file)))
    res.sig(("RE", ci, pi, oi, record), nontrivial=bool(pre))


def _part_RE(res):
    n = 0
    for ci in range(len(RE_CONFIGS)):
        for pi in range(len(RE_PRE)):
            for ii in range(len(RE_INNER)):
                for oi in range(len(RE_OPTS)):
                    for record in (False, True):
                        check_reentrant(ci, pi, ii, oi, record, res)
                        n += 1
    res.count("reentrant_cases", n)
    res.count("transitions", n)


def _cold_caches():
    """Style.parse hands out shared Style objects and a Style memoises its SGR string; every shard /
    replay starts with fresh objects so that a verdict never depends on what ran before in the process."""
    from rich.style import Style
    Style.parse.cache_clear()
    _SK.clear()


def run_shard(sh, tier, seed):
    res = Result()
    _cold_caches()
    if sh["alpha"] == "TH":
        _part_TH(sh, tier, res)
        return res
    if sh["alpha"] == "RE":
        _part_RE(res)
        return res
    cfg = CONFIGS[sh["cfg"]]
    full_d, core_d, pair_d = _depths(tier)
    if sh["alpha"] == "full":
        first = EVENTS[sh["first"]]
        if sh["first"] == 0:
            _check(cfg, [], res)           # the empty history
            res.count("states")            # the initial state, counted once per configuration
        if enabled(first, None):
            _explore(cfg, [(0, first)], [(0, ev) for ev in EVENTS], _full_depth(tier, cfg), res)
    elif sh["alpha"] == "core":
        first = CORE[sh["first"]]
        root = [(0, first)]
        ok = enabled(first, None)
        if ok and sh["second"] is not None:
            second = CORE[sh["second"]]
            ok = enabled(second, first[1] if first[0] == "begin" else None)
            root.append((0, second))
        if ok:
            _explore(cfg, root, [(0, ev) for ev in CORE], core_d, res, count_from=full_d + 1)
    else:
        modes = MODES[sh["modes"]]
        first = _PAIR_ALPHABET[sh["first"]]
        if sh["first"] == 0:
            _check(cfg, [], res, modes=modes)
            res.count("states")
        if enabled(first[1], None):
            _explore(cfg, [first], _PAIR_ALPHABET, pair_d, res, modes=modes)
    return res


def describe(tier, seed, res):
    full_d, core_d, pair_d = _depths(tier)
    c = res.counters
    rule = ("all histories of length <= %d over %d events (9 prints over 7 payloads -- markup strings, entities under CSS-less styles, hex/rgb/8-bit colours -- x 2 print styles, line(1|2), bell, clear, "
            "show_cursor(F|T), control(''), capture block entered through the context manager or begin_capture() and left "
            "normally / by an exception propagating out of the with-block / through end_capture() (not nested), "
            "export_text(clear=True, styles F|T), export_html(clear=True, inline F|T), rule('' | 't<'), log) x %d "
            "configurations (color_system None|standard|256|truecolor x terminal or not at width 40, 4 at width 10, "
            "8 with no_color / NO_COLOR)" % (full_d, len(EVENTS), len(CONFIGS)))
    if tier != "quick":
        rule += (" -- the last level on the %d width-40 configurations without NO_COLOR-by-environment, the other %d stop at length %d"
                 % (len(FULL_DEEP_CONFIGS_THOROUGH), len(CONFIGS) - len(FULL_DEEP_CONFIGS_THOROUGH), full_d - 1))
    rule += ("; plus all histories of length %d over a %d-event core (print a / entities / entities under CSS-less styles incl. a bare link / styled markup, "
             "line, bell, capture enter, exit, exit by exception, export_text(clear), export_html(clear, inline), log) on %d "
             "configurations" % (core_d, len(CORE), len(_core_configs(tier))))
    rule += ("; plus all interleaved histories of length <= %d of TWO consoles of one configuration (%d events each: print a / "
             "entities, bell, capture enter/exit, export_text(clear), export_html(clear, inline), log) x 4 ways the two came to "
             "record (record=True in the constructor | built without, one print, then .record = True) on %d configurations"
             % (pair_d, len(PAIR), len(_pair_configs(tier))))
    rule += ("; plus a thread part (E3, vf/sched.py): two real threads on ONE recording console, A = one clearing export "
             "(export_text styles F|T, export_html inline F|T), B = one print | two prints | a capture block around a print, then a "
             "print (%d harnesses); scheduling points = cooperative lock operations, file writes and the executed lines of "
             "Console.export_text / export_html / _render_buffer / _check_buffer; every schedule with <= %d preemption(s), %d schedules; "
             "after both threads: A's export followed by a final non-clearing export must be exactly the text written, each line "
             "once and in order, the file holds what was printed outside the block, the capture what was printed inside; a "
             "counterexample schedule is re-executed and must reproduce before it is reported"
             % (len(TH_HARNESSES), _th_bound(tier), c.get("schedules", 0)))
    rule += (". After every history, for every console: the file, the capture result, a clearing export's return value "
             "and the four non-clearing exports are judged; directly after a clearing export all four must come out empty "
             "(the styled one as the empty string: it also shows recorded control codes). A history reaching a canonical "
             "state already seen in its shard is judged but not extended. A history is non-trivial when something visible "
             "or a control code was recorded or a capture block was closed; distinct = distinct outcome signatures.")
    return {
        "rule": rule,
        "assumptions": [
            "captured output counts as written (to the capture) at the moment the block is closed, in the order the blocks were closed (DESIGN C15)",
            "a capture block left by an exception returns its output like one left normally and nothing reaches the file ('everything printed inside a capture block is returned by the capture ... nothing reaches the file meanwhile')",
            "the twin console (same configuration, record=False, no captures) defines 'as it would have been written'; rendering itself is decided by other properties",
            "OSC 8 id parameters are ignored (random per Style object)",
            "styled export vs written stream: colours compared exactly on truecolor consoles, as present/absent on 16/256-colour consoles (down-conversion is C18/C03), not at all under no_color or without a colour system; attributes and links whenever the file carries styles",
            "styled export vs record: exact (attributes, colours as printed, link) on every configuration",
            "control codes inside a non-empty styled export are not judged (the statement is about characters and styles); an empty record must export the empty string",
            "HTML export: text only (tags stripped, entities decoded, <pre> body); CSS and anchors are not judged",
            "capture blocks are not nested; export inside an open block sees only what was flushed before",
            "recording switched on after construction records from that moment on; a console that has written nothing since exports the empty string",
            "a history that violates is reported and not extended",
            "thread part: lines of other functions (rendering, Console.print itself) are not scheduling points; they touch per-thread buffers only (partial-order reduction)",
            "canonical state = per console (file, record segments, thread buffer, buffer depth, LogRender._last_time, reference model); theme stack and render hooks are not touched by these events",
            "states = sum over shards (configuration x first event[s]) of distinct canonical states; core shards count only histories of the additional depth",
            "the twin replays only the prefix's log events before the judged event (nothing else changes what a non-recording console writes later); every alarm, all histories of length <= 2 and every 64th one are re-run in full lock-step, whose verdict is the one reported",
        ],
        "coverage": {
            "states": c.get("states", 0),
            "transitions": c.get("transitions", 0),
            "traces_validated_against_impl": c.get("transitions", 0),
            "histories": res.evaluations,
            "max_depth": c.get("max_depth", 0),
            "depth_bound_full_alphabet": full_d,
            "depth_bound_core_alphabet": core_d,
            "depth_bound_two_consoles": pair_d,
            "schedules": c.get("schedules", 0),
            "preemption_bound": _th_bound(tier),
            "thread_harness_shards_complete": c.get("thread_harness_shards_complete", 0),
            "frontier_at_depth_cap": c.get("frontier_at_depth_cap", 0),
            "lockstep_reruns": c.get("lockstep_reruns", 0),
            "fast_path_verdict_differs": c.get("fast_path_verdict_differs", 0),
        },
    }


def replay(case):
    if case.get("part") == "TH":
        return _replay_TH(case)
    if case.get("part") == "RE":
        res = Result()
        check_reentrant(case["cfg"], case["pre"], case["inner"], case["opts"], case["record"], res)
        return [(k, v[2]) for k, v in sorted(res.violations.items())]
    cfg = tuple(case["config"])
    if len(cfg) == 3:
        cfg += (None,)
    modes = tuple(case.get("modes") or ("ctor",))
    if len(modes) == 1:
        hist = [(0, tuple(e)) for e in case["history"]]
    else:
        hist = [(side, tuple(e)) for side, e in case["history"]]
    # replay files written before the capture events carried a kind
    hist = [(s, (e[0], "cm" if e[0] == "begin" else "ok") if e in (("begin",), ("end",)) else e) for s, e in hist]
    _cold_caches()
    world, _ = run_history(cfg, hist, None, modes)
    return list(world.problems)
