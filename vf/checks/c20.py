"""C20 -- Named styles resolve through a well-behaved theme stack.

Part "stack" (E2, explicit-state BFS over operation histories on a real Console)
    state      = the event history; the session is rebuilt by replaying it on a fresh Console
                 with ONE Theme object per theme id for the whole history (so the same object
                 is pushed again and again, as a program does) and with the full probe vector
                 looked up after EVERY replayed event (as a session that prints between theme
                 operations does, so any per-console memo is populated). Every transition out
                 of a state of depth <= 2 (quick) / <= 3 (thorough) is executed a
                 second time with no lookup before the judged one, and judged again.
    events     = push_theme(T, inherit) | use_theme(T, inherit).__enter__ | pop_theme |
                 use_theme.__exit__(None..) | use_theme.__exit__(exception)  with
                 T in {T1..T4} x Theme(inherit in {True, False}); the harness holds the
                 stack of open context managers; only balanced use is enabled (pop when the
                 top entry was pushed explicitly or is the base, exit when the top entry
                 belongs to the innermost open block)
    refusals   = operations that must fail are events too, the caller handles the error and the
                 history goes on: pop_theme on the base, push_theme / use_theme of an invalid theme
                 (its styles fail half way through being read), Theme.from_file on three bad
                 configs + Theme() on a bad definition. After each: every lookup as before; and
                 because the state behind a refusal is a state of its own (`refused` flag in the
                 canonical form) every later operation is executed from it and judged by the
                 reference, so a changed depth or a half-done push shows at the next pop / push.
    drivers    = every history is run on a Console (get_style, push_theme, pop_theme, use_theme)
                 and, without the block events, on a bare rich.theme.ThemeStack (get, push_theme,
                 pop_theme; no parse fallback: an unresolvable name gives None)
    bases      = Console(theme=B0 | B1 | None)  /  ThemeStack(B0 | B1 | themes.DEFAULT)
    oracle     = RefStack: a list of (own definitions, has-defaults, inherit) walked top
                 down exactly as the statement says; hand-written RefStyles for every
                 definition and for the parse fallback of every probe; after every event
                 all probes (names, definitions, unparsable text, default=) are compared;
                 pop/exit must restore the observation vector recorded before the matching
                 push (reference-free clause); popping the base must raise ThemeStackError
                 and change nothing; after every event every Theme object's own .styles must
                 be what it was at construction; on every new state all 130 default names
                 are swept
    canonical  = per level (effective table over the name universe, block-owned flag) of the
                 reference + whether an operation was refused + the greatest height the history
                 has reached (= the set of depths
                 at which lookups have been made, the part of a lookup memo's key that the
                 stack alone does not determine) + the observed lookup vector + a fingerprint
                 of the real ThemeStack (entry sizes, get bound to the top entry). Theme
                 objects are part of the state only while unmodified (a modification is a
                 violation and is not expanded). States are partitioned over shards by the
                 canonical form of the entry directly above the base (the root shard owns the
                 bare base after excursions to height 1..5), so `states` is a sum over
                 disjoint owners.
    A transition that violates is reported and its target is not expanded (consequences
    of one defect do not produce further keys). A failure in a history with refusals is first
    re-run without them: if it is there too it is left to that history, otherwise it is what
    the refused operation left behind (keys refused-operation/later-...). Console keys are
    folded into the ThemeStack key of the same class.

Part "config" (E1): Theme.config -> Theme.from_file over a C06-style universe of styles
    (1.3 k styles: every attribute in 3 states, all attribute pairs, 12 colour spellings
    for fg/bg and all fg x bg pairs, 2 links; names lower-case dotted identifiers, links
    without "%" and whitespace), as 1-style and 6-style themes, through the keyword and
    the definition-string route, with and without inherited defaults (all four Theme(inherit) x
    from_file(inherit) combinations); a family that puts the null style under fresh names, over non-null
    defaults and over a null default, alone / beside a non-null entry / as every entry; names must be
    equal in both directions and every style equal; thorough adds all pairs U x U.

Measured numbers: see MEASURED below / describe().
"""
import collections
import io

from ..par import Result, deadline_passed
from ..refstyle import RefStyle, ATTRS

ID = "C20"
LEVEL = "model_checking"
ENGINE = "E2"
CAP_S = {"quick": 600, "thorough": 3600}
TECHNIQUE = ("explicit-state BFS over push/pop/use_theme/refused-operation histories on a real Console and on a bare "
             "ThemeStack (state = history, replayed on a fresh session, dedup on reference stack + observed lookups), judged "
             "in lock-step by a reference theme stack; bounded-exhaustive config round trip over a style universe")
LEVEL_TEXT = ("Every history of push_theme / pop_theme / use_theme enter / exit / exit-by-exception events and refused "
              "operations (pop of the base, push / use_theme of an invalid theme, bad theme input) over 8 themes "
              "and 3 base themes, on a Console and on a bare ThemeStack, is explored breadth first until the canonical state space closes under the stack-height "
              "bound (thorough) or up to depth 4 (quick, which closes the space of height <= 4). Every transition is a call "
              "into the real code followed by a comparison of all probe lookups with an independent reference stack, so "
              "traces_validated_against_impl equals transitions. The config round trip is exhaustive over the stated style universe.")
LEVEL_NOTE = ("Trusted: CPython, the DEFAULT_STYLES table data, Style.parse as the definition of the parse fallback for "
              "the 130 swept default names only (the probes use hand-written references), vf/refstyle.py and the "
              "reference stack in this module. Bounds: stack height <= 5, 8 themes over names {a, b, c, repr.number}; "
              "balanced use of blocks only; single thread.")

MAXHEIGHT = 5
QUICK_DEPTH = 4
QUICK_BOTH_MODES_DEPTH = 2      # quick: histories of <= 3 events are also run without intermediate lookups
THOROUGH_BOTH_MODES_DEPTH = 3   # thorough: histories of <= 4 events

# ------------------------------------------------------------------ reference vocabulary
R = RefStyle
DEFS = {
    "red": R(color=("std", 1)),
    "italic": R({"italic": True}),
    "magenta": R(color=("std", 5)),
    "green": R(color=("std", 2)),
    "none": R(),
    "blue on white": R(color=("std", 4), bgcolor=("std", 7)),
    "underline": R({"underline": True}),
    "yellow link http://x/": R(color=("std", 3), link="http://x/"),
    "not bold": R({"bold": False}),
    # what the probes mean when no theme defines them (Style definition syntax)
    "bold": R({"bold": True}),
    "conceal": R({"conceal": True}),
    "bold red": R({"bold": True}, color=("std", 1)),
}
# definitions handed to Theme() as Style objects built from keywords (the others go in as strings)
OBJ_ROUTE = {"yellow link http://x/": dict(color="yellow", link="http://x/"), "not bold": dict(bold=False)}

THEMES = collections.OrderedDict([
    ("T1", {"a": "green", "c": "none"}),
    ("T2", {"b": "blue on white", "repr.number": "underline"}),
    ("T3", {"a": "yellow link http://x/", "c": "not bold"}),
    ("T4", {}),
])
BASES = collections.OrderedDict([
    ("B0", ({"a": "red", "b": "italic"}, True)),
    ("B1", ({"a": "magenta"}, False)),
    ("B2", None),                      # Console(theme=None): the library default theme
])
NAMES = ("a", "b", "c", "repr.number", "repr.str")
MISSING = "<missing>"
PARSE = {"a": MISSING, "b": "bold", "c": "conceal", "repr.number": MISSING, "repr.str": MISSING,
         "bold red": "bold red", "not a style": MISSING}
PROBES = [(n, None) for n in NAMES] + [("bold red", None), ("not a style", None),
                                       ("not a style", "bold red"), ("a", "bold red"), ("repr.number", "bold red")]

PUSHES = [(kind, t, ti, pi) for kind in ("push", "enter") for t in THEMES for ti in (True, False) for pi in (True, False)]
# Refused operations are events like any other: the caller handles the error and goes on. None of
# them may change anything. ("pop" at base height is the fifth; it is in the alphabet already.)
REFUSALS = [("push_bad", True), ("push_bad", False), ("enter_bad", True), ("enter_bad", False), ("bad_input",)]
EVNAME = {"push": "push_theme", "enter": "use_theme", "pop": "pop_theme", "exit": "use_theme-exit",
          "exit_exc": "use_theme-exit-exc", "push_bad": "refused-push_theme", "enter_bad": "refused-use_theme",
          "bad_input": "refused-theme-input"}
# the two things the histories are run on: a Console (get_style / push_theme / pop_theme / use_theme)
# and a bare rich.theme.ThemeStack (get / push_theme / pop_theme; no blocks, no parse fallback)
DRIVERS = ("console", "stack")
STACK_PROBES = [(n, None) for n in NAMES]

_DEFAULTS = {}


def _defaults():
    """name -> RefStyle key of the library's default style table (data, read once)."""
    if not _DEFAULTS:
        from rich.default_styles import DEFAULT_STYLES
        for name, st in DEFAULT_STYLES.items():
            _DEFAULTS[name] = RefStyle.from_rich(st).key()
        assert "repr.number" in _DEFAULTS and "repr.str" in _DEFAULTS
        assert not any(n in _DEFAULTS for n in ("a", "b", "c", "bold red", "not a style"))
    return _DEFAULTS


_DEFKEYS = {d: ("s", r.key()) for d, r in DEFS.items()}
_DEFKEYS[MISSING] = ("m",)


def _value_key(v):
    """reference value id -> observation item"""
    if isinstance(v, tuple):
        return ("s", _defaults()[v[1]])
    return _DEFKEYS[v]


_EXPECT_MEMO = {}
_ORIGIN_MEMO = {}


class RefStack:
    """The statement, literally: a list of levels (own definitions, has the default table,
    inherit flag, owned by a use_theme block); a name resolves to the top-most level that
    defines it, looking below a level only if that level was pushed with inherit=True.
    A refused operation changes nothing but is remembered (`refused`)."""

    __slots__ = ("levels", "maxh", "refused")

    def __init__(self, base=None, levels=None, maxh=1, refused=False):
        self.maxh = maxh          # greatest height this history has been at (= depths looked up so far)
        self.refused = refused    # some operation of this history was refused
        if levels is not None:
            self.levels = levels
            return
        b = BASES[base]
        own, hasdef = (b if b is not None else ({}, True))
        self.levels = []
        self._add(own, hasdef, False, False)

    def copy(self):
        return RefStack(levels=list(self.levels), maxh=self.maxh, refused=self.refused)

    @property
    def height(self):
        return len(self.levels)

    def top_is_block(self):
        return self.levels[-1][3]

    def _add(self, own, hasdef, inherit, cm):
        self.levels.append((own, hasdef, inherit, cm, None))
        table = tuple(self.resolve(n)[0] for n in NAMES)
        self.levels[-1] = (own, hasdef, inherit, cm, table)

    def is_refusal(self, ev):
        return ev[0] in ("push_bad", "enter_bad", "bad_input") or (ev[0] == "pop" and len(self.levels) == 1)

    def apply(self, ev):
        kind = ev[0]
        if self.is_refusal(ev):
            self.refused = True
        elif kind in ("push", "enter"):
            self._add(THEMES[ev[1]], ev[2], ev[3], kind == "enter")
            if len(self.levels) > self.maxh:
                self.maxh = len(self.levels)
        else:
            self.levels.pop()

    def resolve(self, name, flip_top=False):
        """-> (value id | None, origin) ; origin: t/d = top own/default table, l/k = lower own/default."""
        top = len(self.levels) - 1
        dn = _defaults()
        for i in range(top, -1, -1):
            own, hasdef, inherit, _cm, _t = self.levels[i]
            if name in own:
                return own[name], ("t" if i == top else "l")
            if hasdef and name in dn:
                return ("default", name), ("d" if i == top else "k")
            if i == top and flip_top:
                inherit = not inherit
            if not inherit:
                break
        return None, None

    def _ident(self):
        # own-definition dicts are module constants, so their ids identify them
        return tuple((id(lv[0]), lv[1], lv[2]) for lv in self.levels)

    def expected(self, flip_top=False, driver="console"):
        mk = (self._ident(), flip_top, driver)
        hit = _EXPECT_MEMO.get(mk)
        if hit is None:
            hit = _EXPECT_MEMO[mk] = self._expected(flip_top) if driver == "console" else self._expected_stack(flip_top)
        return hit

    def _expected(self, flip_top):
        out = []
        for name, default in PROBES:
            v = self.resolve(name, flip_top)[0]
            if v is None:
                v = PARSE[name]
            if v == MISSING and default is not None:
                v = self.resolve(default, flip_top)[0]
                if v is None:
                    v = PARSE[default]
            out.append(_value_key(v))
        return tuple(out)

    def _expected_stack(self, flip_top):
        """ThemeStack.get(name): the entry, or None when no theme in reach defines the name"""
        out = []
        for name, _d in STACK_PROBES:
            v = self.resolve(name, flip_top)[0]
            out.append(("m",) if v is None else _value_key(v))
        return tuple(out)

    def origins(self):
        mk = self._ident()
        hit = _ORIGIN_MEMO.get(mk)
        if hit is None:
            hit = _ORIGIN_MEMO[mk] = self._origins()
        return hit

    def _origins(self):
        out = []
        for n in NAMES:
            v, o = self.resolve(n)
            out.append(o if v is not None else ("m" if PARSE[n] == MISSING else "p"))
        return "".join(out)

    def canon(self):
        return (tuple((lv[4], lv[3]) for lv in self.levels), self.maxh, self.refused)

    def level1(self):
        return (self.levels[1][4], self.levels[1][3])


def _enabled(ref, maxheight, driver="console"):
    evs = []
    if ref.height < maxheight:
        evs.extend(PUSHES if driver == "console" else [e for e in PUSHES if e[0] == "push"])
    if ref.height > 1 and ref.top_is_block():
        evs.append(("exit",))
        evs.append(("exit_exc",))
    else:
        evs.append(("pop",))          # at height 1 this is the refused pop of the base theme
    evs.extend(REFUSALS if driver == "console" else [e for e in REFUSALS if e[0] != "enter_bad"])
    return evs


# ------------------------------------------------------------------ the real thing
class _Boom(Exception):
    pass


class _HalfStyles:
    """What an invalid theme carries for styles: a mapping that fails half way through being read."""

    def keys(self):
        return ["a", "zz.never"]

    def __getitem__(self, name):
        if name == "a":
            from rich.style import Style
            return Style(bold=True, color="bright_magenta")
        raise _Boom("styles of an invalid theme")

    def __iter__(self):
        return iter(self.keys())

    def __len__(self):
        return 2

    def items(self):
        yield ("a", self["a"])
        raise _Boom("styles of an invalid theme")

    def copy(self):
        raise _Boom("styles of an invalid theme")


class _BadTheme:
    """Not a Theme: pushing it cannot succeed."""

    def __init__(self):
        self.styles = _HalfStyles()


BAD_CONFIGS = ("[styles]\na = not a style\n", "a = red\n", "[styles]\nb = bold\nb = dim\n")


def _bad_input():
    """Three ways of failing to make a theme. -> how many of them raised"""
    from rich.theme import Theme
    raised = 0
    for text in BAD_CONFIGS:
        try:
            Theme.from_file(io.StringIO(text))
        except Exception:
            raised += 1
    try:
        Theme({"a": "not a style"})
    except Exception:
        raised += 1
    return raised


_STYLE_OBJS = {}


def _style_arg(d):
    if d in OBJ_ROUTE:
        st = _STYLE_OBJS.get(d)
        if st is None:
            from rich.style import Style
            st = _STYLE_OBJS[d] = Style(**OBJ_ROUTE[d])     # immutable value; the Theme around it is fresh per history
        return st
    return d


def _theme(defs, inherit):
    from rich.theme import Theme
    return Theme({n: _style_arg(d) for n, d in defs.items()}, inherit=inherit)


class Impl:
    """One session: a fresh Console (or a fresh bare ThemeStack) and ONE Theme object per theme id
    for the whole history (a program keeps its Theme objects and pushes them again and again)."""

    def __init__(self, base, driver="console"):
        self.driver = driver
        self.themes = {}            # id -> (Theme, copy of its .styles taken at construction)
        b = BASES[base]
        theme = None if b is None else self.theme(base, b[0], b[1])
        if driver == "console":
            from rich.console import Console
            self.console = Console(file=io.StringIO(), width=80, height=25, force_terminal=False, color_system=None,
                                   legacy_windows=False, _environ={}, theme=theme)
            self.target = self.console
        else:
            from rich.theme import ThemeStack
            from rich import themes
            self.console = None
            self.target = ThemeStack(themes.DEFAULT if theme is None else theme)
        self.blocks = []

    def theme(self, tid, defs, inherit):
        hit = self.themes.get((tid, inherit))
        if hit is None:
            t = _theme(defs, inherit)
            hit = self.themes[(tid, inherit)] = (t, dict(t.styles))
        return hit[0]

    def modified_themes(self):
        """ids of Theme objects whose own .styles mapping is not what it was when constructed"""
        bad = []
        for key, (t, snap) in self.themes.items():
            cur = t.styles
            if len(cur) != len(snap) or cur != snap:      # dict == compares values identity-first, at C speed
                bad.append("%s(inherit=%s): %d names -> %d; changed %r" % (
                    key[0], key[1], len(snap), len(cur),
                    sorted(n for n in set(cur) | set(snap) if cur.get(n) is not snap.get(n))[:4]))
        return bad

    def apply(self, ev):
        """Executes one event; returns the exception it raised or None."""
        kind = ev[0]
        try:
            if kind == "push":
                self.target.push_theme(self.theme(ev[1], THEMES[ev[1]], ev[2]), inherit=ev[3])
            elif kind == "enter":
                cm = self.console.use_theme(self.theme(ev[1], THEMES[ev[1]], ev[2]), inherit=ev[3])
                cm.__enter__()
                self.blocks.append(cm)
            elif kind == "pop":
                self.target.pop_theme()
            elif kind == "exit":
                self.blocks.pop().__exit__(None, None, None)
            elif kind == "exit_exc":
                cm = self.blocks.pop()
                try:
                    raise _Boom("block body failed")
                except _Boom as e:
                    cm.__exit__(type(e), e, e.__traceback__)
            elif kind == "push_bad":
                self.target.push_theme(_BadTheme(), inherit=ev[1])
            elif kind == "enter_bad":
                cm = self.console.use_theme(_BadTheme(), inherit=ev[1])
                cm.__enter__()               # raises: the body never runs and __exit__ is never called
                self.blocks.append(cm)       # only reached if the invalid theme was accepted
            elif kind == "bad_input":
                if _bad_input():
                    raise _Boom("refused")   # uniform with the other refusals: an exception reached the caller
            else:
                raise ValueError(kind)
        except Exception as e:          # noqa: the code under test may raise anything
            return e
        return None

    def fingerprint(self):
        try:
            ts = self.console._theme_stack if self.driver == "console" else self.target
            ent = ts._entries
            return (tuple(len(e) for e in ent), getattr(ts.get, "__self__", None) is ent[-1])
        except Exception:
            return None


_MEMO = {}


def _refkey(st):
    from rich.style import Style
    if not isinstance(st, Style):
        return ("not-a-Style", type(st).__name__)
    if st.link:
        return RefStyle.from_rich(st).key()
    m = _MEMO.get(id(st))
    if m is None:
        m = _MEMO[id(st)] = (st, RefStyle.from_rich(st).key())    # keeps st alive: the id stays unique
    return m[1]


def _lookup(impl, name, default=None):
    if impl.driver == "stack":
        try:
            st = impl.target.get(name)
        except Exception as e:
            return ("x", type(e).__name__)
        return ("m",) if st is None else ("s", _refkey(st))
    from rich.errors import MissingStyle
    console = impl.console
    try:
        st = console.get_style(name) if default is None else console.get_style(name, default=default)
    except MissingStyle:
        return ("m",)
    except Exception as e:
        return ("x", type(e).__name__)
    return ("s", _refkey(st))


def _probes(driver):
    return PROBES if driver == "console" else STACK_PROBES


def observe(impl):
    return tuple(_lookup(impl, n, d) for n, d in _probes(impl.driver))


def touch(impl):
    """the same lookups as observe(), results dropped: what a session does between two theme
    operations (it prints); run after every event of a replayed prefix"""
    if impl.driver == "stack":
        for n, _d in STACK_PROBES:
            try:
                impl.target.get(n)
            except Exception:
                pass
        return
    get = impl.console.get_style
    for n, d in PROBES:
        try:
            get(n) if d is None else get(n, default=d)
        except Exception:
            pass


def execute(base, hist, ev, lookups=True, driver="console"):
    """Fresh session, replay `hist` (with the probe lookups after every step, or with none),
    then `ev`. -> (impl, exception of ev, observation after ev)"""
    impl = Impl(base, driver)
    if lookups:
        touch(impl)
    for e in hist:
        impl.apply(e)
        if lookups:
            touch(impl)
    exc = impl.apply(ev)
    return impl, exc, observe(impl)


def _crash_key(e):
    import traceback
    where = "?"
    for fr in traceback.extract_tb(e.__traceback__):
        if "/rich/" in fr.filename:
            where = "%s:%s" % (fr.filename.rsplit("/", 1)[-1], fr.name)
    return "crash/%s/%s" % (type(e).__name__, where)


def _show(o):
    if o == ("m",):
        return "nothing (MissingStyle / None)"
    if o[0] == "x":
        return "raised " + o[1]
    k = o[1]
    if k and k[0] == "not-a-Style":
        return "a %s object" % k[1]
    return repr(R(dict(k[0]), k[1], k[2], k[3]))


def _diff(obs, exp, driver="console"):
    fn = "get_style" if driver == "console" else "ThemeStack.get"
    return "; ".join("%s(%r%s): got %s, reference %s" % (fn, n, "" if d is None else ", default=%r" % d, _show(o), _show(e))
                     for (n, d), o, e in zip(_probes(driver), obs, exp) if o != e)


def _classify(ev, ref_after, obs, exp, driver="console"):
    if ev is not None and ev[0] in ("push", "enter"):
        if obs == ref_after.expected(flip_top=True, driver=driver):
            return "inherit-false-still-inherits" if not ev[3] else "inherit-true-does-not-inherit"
    for (n, d), o, e in zip(_probes(driver), obs, exp):
        if o != e:
            sfx = "" if d is None else "-with-default"
            if o[0] == "x":
                return "raised-%s%s" % (o[1], sfx)
            if o[0] == "m":
                return "missing-style-for-resolvable-name" + sfx
            if e[0] == "m":
                return "style-for-unresolvable-name" + sfx
            return "wrong-style" + sfx
    return "mismatch"


def judge(ev, ref_before, ref_after, exc, obs, cur_obs, obs_stack, modified=(), driver="console"):
    """-> list of (finding key, detail) for one executed transition."""
    kind = ev[0]
    pre = "" if driver == "console" else "ThemeStack."
    name = pre + EVNAME[kind]
    if ref_before.is_refusal(ev):
        # the operation has to fail, and failing must leave everything as it was: every lookup now,
        # and (because the history goes on from here) the depth and every later lookup
        out = []
        if kind == "pop":
            from rich.theme import ThemeStackError
            name = pre + "pop-base"
            if exc is None:
                out.append((name + "/no-error", "pop_theme() on the base theme returned normally"))
            elif not isinstance(exc, ThemeStackError):
                out.append((name + "/wrong-exception/" + type(exc).__name__, repr(exc)))
        elif exc is None:
            return [("?accepted", "")]        # the invalid input was accepted: the statement has nothing to say
        if modified:
            out.append((name + "/theme-object-modified", "; ".join(modified)))
        if obs != cur_obs:
            out.append((name + "/lookups-changed", _diff(obs, cur_obs, driver)))
        return out
    if exc is not None:
        return [(_crash_key(exc), "%s raised %r" % (name, exc))]
    if modified:
        return [(name + "/theme-object-modified", "the Theme object's own styles changed: " + "; ".join(modified))]
    if kind in ("pop", "exit", "exit_exc") and obs != obs_stack[-1]:
        return [(name + "/not-restored", "lookups differ from those before the matching push: "
                 + _diff(obs, obs_stack[-1], driver))]
    exp = ref_after.expected(driver=driver)
    if obs != exp:
        return [("%s/%s" % (name, _classify(ev, ref_after, obs, exp, driver)), _diff(obs, exp, driver))]
    return []


_SWEEP = {}


def _sweep_table():
    """name -> what the parse fallback gives for it (Style.parse is the statement's own
    definition of the fallback; used for the 130 default names only)."""
    if not _SWEEP:
        from rich.style import Style
        from rich.errors import StyleSyntaxError
        for n in list(_defaults()) + ["a", "b", "c"]:
            try:
                _SWEEP[n] = ("s", RefStyle.from_rich(Style.parse(n)).key())
            except StyleSyntaxError:
                _SWEEP[n] = ("m",)
    return _SWEEP


def sweep(impl, ref):
    """all default names + a, b, c on one state -> list of mismatches"""
    bad = []
    fn = "get_style" if impl.driver == "console" else "ThemeStack.get"
    for n, fallback in _sweep_table().items():
        v = ref.resolve(n)[0]
        e = (fallback if impl.driver == "console" else ("m",)) if v is None else _value_key(v)
        o = _lookup(impl, n)
        if o != e:
            bad.append("%s(%r): got %s, reference %s" % (fn, n, _show(o), _show(e)))
    return bad


def _evjson(hist):
    return [list(e) for e in hist]


def _attribute(base, hist, ev, probs, driver):
    """A failure in a history that contains refused operations: is it there without them too?
    Then it is the business of the same transition in the refusal-free history (-> None, not
    reported here). Otherwise it is what a refused operation left behind: one key per way of
    showing (a later operation raises / later lookups are wrong)."""
    ref, twin = RefStack(base), []
    for e in hist:
        if not ref.is_refusal(e):
            twin.append(e)
        ref.apply(e)
    if not ref.is_refusal(ev):
        twin.append(ev)
    if _walk(base, twin, driver)[0]:
        return None
    pre = "" if driver == "console" else "ThemeStack."
    out = []
    for key, detail in probs:
        parts = key.split("/")
        if "crash" in parts[0] or "wrong-exception" in parts:
            exc = parts[1] if "crash" in parts[0] else parts[-1]
            k2 = pre + "refused-operation/later-operation-raises-" + exc
        elif parts[-1] == "no-error":
            k2 = pre + "refused-operation/later-pop-base-succeeds"
        else:
            k2 = pre + "refused-operation/later-lookups-wrong"
        out.append((k2, "after a refused operation earlier in this history: [%s] %s" % (key, detail)))
    return out


def _walk(base, hist, driver="console"):
    """One session stepping through `hist` with the probe lookups (and the judgement) after every
    event -- the very calls execute(lookups=True) makes. -> (problems, ref, cur obs, obs stack, impl)"""
    impl, ref = Impl(base, driver), RefStack(base)
    cur = observe(impl)
    exp = ref.expected(driver=driver)
    pre = "" if driver == "console" else "ThemeStack."
    if cur != exp:
        return [(pre + "initial/" + _classify(None, ref, cur, exp, driver), _diff(cur, exp, driver))], ref, cur, (), impl
    stack = ()
    hist = [tuple(e) for e in hist]
    for i, ev in enumerate(hist):
        ref2 = ref.copy()
        ref2.apply(ev)
        exc = impl.apply(ev)
        obs = observe(impl)
        probs = judge(ev, ref, ref2, exc, obs, cur, stack, impl.modified_themes(), driver)
        if probs and ref.refused and probs[0][0] != "?accepted":
            probs = _attribute(base, hist[:i], ev, probs, driver) or [("?elsewhere", "")]
        if probs:
            return probs, ref2, obs, stack, impl
        if ev[0] in ("push", "enter"):
            stack = stack + (cur,)
        elif not ref.is_refusal(ev):
            stack = stack[:-1]
        cur, ref = obs, ref2
    return [], ref, cur, stack, impl


def check_history(base, hist, lookups=True, driver="console"):
    """Re-executes one case the way the BFS executed it. -> list of (key, detail). Used by replay()."""
    hist = [tuple(e) for e in hist]
    pre = "" if driver == "console" else "ThemeStack."
    if lookups or not hist:
        probs, ref, _cur, _stack, impl = _walk(base, hist, driver)
        if probs:
            return [p for p in probs if not p[0].startswith("?")]
        bad = sweep(impl, ref)
        return [(pre + "sweep/lookup-mismatch", "; ".join(bad[:5]))] if bad else []
    probs, ref, cur, stack, _impl = _walk(base, hist[:-1], driver)
    if probs:
        return [p for p in probs if not p[0].startswith("?")]
    ev = hist[-1]
    ref2 = ref.copy()
    ref2.apply(ev)
    impl, exc, obs = execute(base, hist[:-1], ev, lookups=False, driver=driver)
    probs = judge(ev, ref, ref2, exc, obs, cur, stack, impl.modified_themes(), driver)
    if probs and ref.refused and probs[0][0] != "?accepted":
        probs = _attribute(base, hist[:-1], ev, probs, driver) or []
    return [p for p in probs if not p[0].startswith("?")]


# ------------------------------------------------------------------ BFS
def _bfs(sh, tier, res):
    from rich import themes
    from rich.default_styles import DEFAULT_STYLES
    snap_default = dict(themes.DEFAULT.styles)
    snap_table = dict(DEFAULT_STYLES)
    base = sh["base"]
    driver = sh.get("driver", "console")
    pre = "" if driver == "console" else "ThemeStack."
    root = [tuple(e) for e in sh["root"]]
    maxdepth = QUICK_DEPTH if tier == "quick" else None
    both_depth = QUICK_BOTH_MODES_DEPTH if tier == "quick" else THOROUGH_BOTH_MODES_DEPTH
    is_root_shard = not root
    case0 = {"part": "stack", "base": base, "driver": driver}
    mute = False
    seen = set()
    frontier = collections.deque()
    maxd = 0

    def admit(hist, ref, cur, stack, impl):
        seen.add((ref.canon(), cur, impl.fingerprint()))
        frontier.append((list(hist), cur, stack))

    # materialise the states this shard starts from
    probs, ref, cur, stack, impl = _walk(base, root, driver)
    if is_root_shard:
        res.evaluations += 1
        res.sig(("initial", base, driver), nontrivial=False)
        # A wrong initial state is reported once; the transitions out of it are still executed
        # (and counted) but what they show is a consequence, so they add no further keys.
        if probs:
            for key, detail in probs:
                res.violate(key, dict(case0, history=[]), detail)
            mute = True
        else:
            bad = sweep(impl, ref)
            if bad:
                res.violate(pre + "sweep/lookup-mismatch", dict(case0, history=[]), "; ".join(bad[:5]))
                mute = True
        admit(root, ref, cur, stack, impl)
        # the base with nothing pushed, after the session has been up to height k and back: with
        # the states refused operations lead to from there, these are all the states of height 1,
        # which no level-1 shard owns
        for k in range(2, MAXHEIGHT + 1):
            hk = [PUSHES[0]] * (k - 1) + [("pop",)] * (k - 1)
            if mute or (maxdepth is not None and len(hk) > maxdepth):
                break
            probs, ref, cur, stack, impl = _walk(base, hk, driver)
            if probs:
                res.count("subtrees_not_expanded_after_violation")     # reported by the shard owning [PUSHES[0]]
                break
            admit(hk, ref, cur, stack, impl)
            maxd = max(maxd, len(hk))
    else:
        if probs:
            res.count("subtrees_not_expanded_after_violation")         # reported by the root shard
            return
        bad = sweep(impl, ref)
        res.evaluations += 1
        res.count("states_swept")
        if bad:
            res.violate(pre + "sweep/lookup-mismatch", dict(case0, history=_evjson(root)), "; ".join(bad[:5]))
            return
        admit(root, ref, cur, stack, impl)
        maxd = len(root)
    transitions = 0
    while frontier:
        if deadline_passed():
            res.capped = True
            break
        hist, cur, stack = frontier.popleft()
        if maxdepth is not None and len(hist) >= maxdepth:
            res.count("frontier_at_depth_cap")
            continue
        ref = RefStack(base)
        for e in hist:
            ref.apply(e)
        if ref.height >= MAXHEIGHT:
            res.count("pushes_not_enabled_by_height_cap", len(PUSHES))
        both = len(hist) <= both_depth
        for ev in _enabled(ref, MAXHEIGHT, driver):
            refusal = ref.is_refusal(ev)
            ref2 = ref.copy()
            ref2.apply(ev)
            h2 = hist + [ev]
            # (A) the session looked all probes up after every step so far
            impl, exc, obs = execute(base, hist, ev, True, driver)
            transitions += 1
            res.evaluations += 1
            if refusal:
                res.count("refused_operations_executed")
            probs = judge(ev, ref, ref2, exc, obs, cur, stack, impl.modified_themes(), driver)
            org = ref2.origins()
            res.sig((driver, ev[0], ref2.height, ev[3] if len(ev) > 2 else (ev[1] if len(ev) > 1 else None), org, ref.refused),
                    nontrivial=("l" in org or "k" in org or "p" in org or len(ev) == 1 or refusal))
            case = dict(case0, history=_evjson(h2))
            # (B) the same history without any lookup before this point
            if both and not probs:
                implb, excb, obsb = execute(base, hist, ev, False, driver)
                res.evaluations += 1
                res.count("transitions_without_intermediate_lookups")
                probs = judge(ev, ref, ref2, excb, obsb, cur, stack, implb.modified_themes(), driver)
                if probs:
                    case = dict(case, lookups=False)
            if probs and probs[0][0] == "?accepted":
                res.count("invalid_input_accepted_not_judged")
                continue
            if probs and ref.refused:
                probs = _attribute(base, hist, ev, probs, driver)
                if probs is None:
                    res.count("failures_left_to_the_refusal_free_twin")
                    continue
            if probs:
                if not mute:
                    for key, detail in probs:
                        res.violate(key, case, "history %r%s: %s" % (
                            h2, "" if "lookups" not in case else " (no lookups before the last event)", detail))
                res.count("targets_not_expanded_after_violation")
                continue
            if (ref2.height == 1) != is_root_shard:
                continue                      # target owned by another shard
            k = (ref2.canon(), obs, impl.fingerprint())
            if k in seen:
                continue
            seen.add(k)
            bad = ()
            if (maxdepth is None or len(h2) < maxdepth) and not (ref2.refused and len(h2) > 3):
                # states at the depth cap are only recorded; states behind a refusal have the tables of
                # their unrefused twin, they are swept while the history is short
                bad = sweep(impl, ref2)
                res.evaluations += 1
                res.count("states_swept")
            if bad:
                res.violate(pre + "sweep/lookup-mismatch", case, "history %r: %s" % (h2, "; ".join(bad[:5])))
                continue
            if ev[0] in ("push", "enter"):
                st2 = stack + (cur,)
            elif refusal:
                st2 = stack
            else:
                st2 = stack[:-1]
            frontier.append((h2, obs, st2))
            maxd = max(maxd, len(h2))
            if len(seen) % 4001 == 0:
                res.sample(case)
    res.count("states", len(seen))
    res.count("transitions", transitions)
    res.counters["max_depth"] = maxd
    if len(root) == 1 and root[0][1] == "T2":
        res.sample(dict(case0, history=_evjson(root + [("push_bad", True), ("enter", "T1", False, True), ("exit_exc",)]
                                               if driver == "console" else root + [("push_bad", False), ("pop",), ("pop",)])),
                   limit=1)
    if dict(themes.DEFAULT.styles) != snap_default or dict(DEFAULT_STYLES) != snap_table:
        res.violate("global/default-theme-mutated", dict(case0, history=_evjson(root)),
                    "rich.themes.DEFAULT / DEFAULT_STYLES changed while exploring shard %r" % (sh,))
        themes.DEFAULT.styles.clear()
        themes.DEFAULT.styles.update(snap_default)
        DEFAULT_STYLES.clear()
        DEFAULT_STYLES.update(snap_table)


def _stack_shards():
    shards = []
    for driver in DRIVERS:
        for base in BASES:
            shards.append({"part": "stack", "driver": driver, "base": base, "root": []})
            classes = set()
            for ev in PUSHES:
                if driver == "stack" and ev[0] != "push":
                    continue
                ref = RefStack(base)
                ref.apply(ev)
                c = ref.level1()
                if c not in classes:
                    classes.add(c)
                    shards.append({"part": "stack", "driver": driver, "base": base, "root": [list(ev)]})
    return shards


# ------------------------------------------------------------------ config round trip (E1)
COLORS = collections.OrderedDict([
    ("red", ("std", 1)), ("bright_blue", ("std", 12)), ("grey0", ("idx", 16)), ("color(0)", ("std", 0)),
    ("color(7)", ("std", 7)), ("color(8)", ("std", 8)), ("color(15)", ("std", 15)), ("color(16)", ("idx", 16)),
    ("color(255)", ("idx", 255)), ("#ff8700", ("rgb", 255, 135, 0)), ("rgb(1,2,3)", ("rgb", 1, 2, 3)),
    ("default", ("default",)),
])
LINKS = ["http://example.com/a?b=c#d", "HTTPS://X.org/;p:1"]
CFG_NAMES = ["a", "repr.number", "my.style_1", "b2", "log.level.info", "rule.line"]
# names that get the null style: fresh names, non-null defaults, and a default that is null already
NULL_NAMES = CFG_NAMES + ["repr.str", "bold", "none", "quiet"]
# (Theme(inherit), from_file(inherit)); reading a non-inheriting theme with inherit=True must give
# the default table overlaid with the theme's entries
INHERIT_COMBOS = ((False, False), (True, True), (True, False), (False, True))

_UNIVERSE = []


def universe():
    """style descriptions: (attrs ((name, bool), ...), fg spelling | None, bg spelling | None, link | None)"""
    if _UNIVERSE:
        return _UNIVERSE
    U, seen = _UNIVERSE, set()

    def add(attrs=(), fg=None, bg=None, link=None):
        d = (tuple(attrs), fg, bg, link)
        if d not in seen:
            seen.add(d)
            U.append(d)
    add()
    for a in ATTRS:
        for v in (True, False):
            add([(a, v)])
    for i, a in enumerate(ATTRS):
        for b in ATTRS[i + 1:]:
            for va in (True, False):
                for vb in (True, False):
                    add([(a, va), (b, vb)])
    cols = list(COLORS)
    for c in cols:
        add(fg=c)
        add(bg=c)
    for c in cols:
        for d in cols:
            add(fg=c, bg=d)
    for l in LINKS:
        add(link=l)
    for a in ATTRS:
        for v in (True, False):
            for c in cols:
                add([(a, v)], fg=c)
            for l in LINKS:
                add([(a, v)], link=l)
    for c in cols:
        for d in cols:
            add(fg=c, bg=d, link=LINKS[0])
    for j, c in enumerate(cols):
        add([("bold", True), ("italic", False), ("overline", True)], fg=c, bg=cols[(j + 5) % len(cols)], link=LINKS[1])
    add([(a, i % 2 == 0) for i, a in enumerate(ATTRS)], fg="#ff8700", bg="default", link=LINKS[1])
    return U


def _desc_ref(d):
    attrs, fg, bg, link = d
    return RefStyle(dict(attrs), COLORS[fg] if fg else None, COLORS[bg] if bg else None, link)


def _desc_str(d):
    attrs, fg, bg, link = d
    words = [("" if v else "not ") + a for a, v in attrs]
    if fg:
        words.append(fg)
    if bg:
        words.append("on " + bg)
    if link:
        words.append("link " + link)
    return " ".join(words) or "none"


def _desc_obj(d):
    from rich.style import Style
    attrs, fg, bg, link = d
    return Style(color=fg, bgcolor=bg, link=link, **dict(attrs))


def _config_cases(tier):
    """-> (styles ((name, universe index), ...), route, theme inherit, read inherit)"""
    U = universe()
    n = len(U)
    for ti, ri in INHERIT_COMBOS:
        yield ((), "obj", ti, ri)
    # the null style is a value like any other: under every kind of name (fresh, overriding a non-null
    # default, overriding a default that is itself null), alone, next to a non-null entry, and as the
    # only kind of entry; through Style() and through "none"; every write/read inherit combination
    nonnull = (1, n // 2, n - 1)
    for route in ("obj", "str"):
        for ti, ri in INHERIT_COMBOS:
            for name in NULL_NAMES:
                yield (((name, 0),), route, ti, ri)
                for k, other in zip(nonnull, ("zz.other", "repr.str", "a")):
                    if other != name:
                        yield (((name, 0), (other, k)), route, ti, ri)
            yield (tuple((name, 0) for name in NULL_NAMES), route, ti, ri)
    for i in range(n):
        for route in ("obj", "str"):
            yield (((CFG_NAMES[i % len(CFG_NAMES)], i),), route, False, False)
    for i in range(n):
        yield (((CFG_NAMES[(i + 1) % len(CFG_NAMES)], i),), "str" if i % 2 else "obj", False, True)
    for i in range(n):
        name = "repr.number" if i % 2 == 0 else "my.style_1"
        for ri in (True, False):
            yield (((name, i),), "obj" if i % 3 else "str", True, ri)
    for stride in (1, 7, 37, 101):
        for i in range(n):
            yield (tuple((CFG_NAMES[j], (i + j * stride) % n) for j in range(len(CFG_NAMES))),
                   "obj" if (i + stride) % 2 else "str", False, False)
    if tier == "thorough":
        for i in range(n):
            for j in range(n):
                yield ((("a", i), ("repr.number", j)), "obj", False, False)


def check_config(styles, route, ti, ri, res):
    """styles: ((name, description), ...)"""
    from rich.theme import Theme
    case = {"part": "config", "styles": [[n, [[list(a) for a in d[0]], d[1], d[2], d[3]]] for n, d in styles],
            "route": route, "theme_inherit": ti, "read_inherit": ri}
    res.evaluations += 1
    arg = {n: (_desc_obj(d) if route == "obj" else _desc_str(d)) for n, d in styles}
    theme = Theme(arg, inherit=ti)
    want = dict(_defaults()) if ti else {}
    for n, d in styles:
        want[n] = _desc_ref(d).key()
    have = {n: _refkey(s) for n, s in theme.styles.items()}
    if have != want:
        bad = sorted(n for n in set(have) | set(want) if have.get(n) != want.get(n))
        res.violate("config/constructed-theme-differs-from-description", case, "names %r" % bad[:5])
        return
    text = None
    try:
        text = theme.config
        back = Theme.from_file(io.StringIO(text), inherit=ri)
        got = {n: _refkey(s) for n, s in back.styles.items()}
    except Exception as e:
        res.violate("config/" + _crash_key(e), case, "%r; config text %r" % (e, (text or "")[-300:]))
        return
    kinds = (min(max((len(d[0]) for _, d in styles), default=0), 3),
             any(d[1] for _, d in styles), any(d[2] for _, d in styles), any(d[3] for _, d in styles))
    res.sig(("config", route, ti, ri, min(len(styles), 2)) + kinds, nontrivial=bool(styles))
    back_want = dict(_defaults()) if ri else {}
    back_want.update(have)                  # == have whenever the theme itself inherited
    if set(got) != set(back_want):          # both directions: nothing lost, nothing invented
        res.violate("config/names-differ", case, "lost %r, invented %r; config tail %r" % (
            sorted(set(back_want) - set(got))[:5], sorted(set(got) - set(back_want))[:5], text[-200:]))
    elif got != back_want:
        bad = sorted(n for n in back_want if got[n] != back_want[n])
        res.violate("config/style-differs", case, "; ".join(
            "%s: wrote %s read %s" % (n, _show(("s", back_want[n])), _show(("s", got[n]))) for n in bad[:4]))


def _part_config(sh, tier, res):
    U = universe()
    for idx, (styles, route, ti, ri) in enumerate(_config_cases(tier)):
        if idx % sh["n"] != sh["i"]:
            continue
        if idx % 256 == sh["i"] and deadline_passed():
            res.capped = True
            break
        check_config(tuple((n, U[i]) for n, i in styles), route, ti, ri, res)
        res.count("config_themes")
        if idx % 1999 == 7:
            res.sample({"part": "config", "styles": [[n, _desc_str(U[i])] for n, i in styles], "route": route,
                        "theme_inherit": ti, "read_inherit": ri})
    res.counters["max_style_universe"] = len(U)


# ------------------------------------------------------------------ protocol
def plan(tier, seed):
    # the config shards are cheap (seconds) and go first, so that a wall cap hit on a loaded
    # machine can only cut the BFS short, never skip the round trip
    nc = 8 if tier == "quick" else 48
    shards = [{"part": "config", "i": i, "n": nc} for i in range(nc)]
    return shards + _stack_shards()


def run_shard(sh, tier, seed):
    res = Result()
    if sh["part"] == "stack":
        _bfs(sh, tier, res)
    else:
        _part_config(sh, tier, res)
    return res


_FOLD = (("initial", "push_theme", "use_theme"), ("pop_theme", "use_theme-exit", "use_theme-exit-exc"),
         ("refused-push_theme", "refused-use_theme"))


def _fold(res, keep, drop):
    if keep in res.violations and drop in res.violations and keep != drop:
        del res.violations[drop]
        res.vcount[keep] = res.vcount.get(keep, 0) + res.vcount.pop(drop, 0)
        res.count("finding_keys_folded")


def finish(tier, seed, res):
    """One key per defect class: use_theme is push_theme + pop_theme behind a context manager, so
    `use_theme/X` is a class of its own only when `push_theme/X` does not fail in the same way
    (likewise pop_theme > use_theme-exit > use_theme-exit-exc), and the Console operations are
    the ThemeStack operations behind one call, so `op/X` is a class of its own only when
    `ThemeStack.op/X` does not fail in the same way. The folded counts are added."""
    for pre in ("", "ThemeStack."):
        for chain in _FOLD:
            for i, op in enumerate(chain):
                for key in sorted(res.violations):
                    if key.startswith(pre + op + "/"):
                        cls = key[len(pre + op):]
                        for lower in chain[i + 1:]:
                            _fold(res, key, pre + lower + cls)
    for key in sorted(res.violations):
        if key.startswith("ThemeStack."):
            _fold(res, key, key[len("ThemeStack."):])


def describe(tier, seed, res):
    c = res.counters
    depth_capped = c.get("frontier_at_depth_cap", 0)
    closed = not res.capped and depth_capped == 0
    return {
        "rule": "BFS over histories of {push_theme, use_theme enter} x {T1..T4} x Theme(inherit T/F) x inherit T/F (32 events), "
                "pop_theme, use_theme exit, use_theme exit by exception, and the refused operations pop_theme on the base, "
                "push_theme / use_theme of an invalid theme (inherit T/F), bad Theme.from_file / Theme() input -- after which the "
                "history continues -- on Console(theme = B0 | B1 | None) and (push/pop/refusals only) on a bare ThemeStack; "
                "stack height <= %d; %s. "
                "Each history is replayed in one session: one Theme object per theme id, all probes looked up after every event"
                "; a second execution without lookups before the last event is judged too (%s). "
                "After every transition 10 probes (a, b, c, repr.number, repr.str, 'bold red', 'not a style', three with default=) "
                "are compared with the reference stack, pop/exit with the lookups recorded before the matching push; every new "
                "state is swept over all 130 default names + a, b, c. A transition is non-trivial when a probe resolves through an "
                "inheriting push to a lower entry, falls back to parsing, or the event is a pop/exit. Config round trip: %d themes "
                "over a universe of %d styles." % (
                    MAXHEIGHT, "depth <= %d" % QUICK_DEPTH if tier == "quick" else "until no new canonical state appears",
                    "histories of <= %d events" % ((QUICK_BOTH_MODES_DEPTH if tier == "quick" else THOROUGH_BOTH_MODES_DEPTH) + 1),
                    c.get("config_themes", 0), c.get("max_style_universe", 0)),
        "assumptions": [
            "canonical state = reference levels (effective table over {a,b,c,repr.number,repr.str}, block flag) + greatest height "
            "reached so far + observed probe vector + (entry sizes, get-bound-to-top) of the real ThemeStack; histories reaching a "
            "seen canonical state are not extended",
            "a session keeps one Theme object per theme id and looks all probes up after every event; hidden per-console state "
            "is assumed to depend on the history only through the stack, the depths visited and the unmodified Theme objects "
            "(which themes were at a depth earlier is covered one step deep: every push is tried from every such state)",
            "the run without intermediate lookups covers %s" % (
                "transitions out of states of depth <= %d" % (QUICK_BOTH_MODES_DEPTH if tier == "quick" else THOROUGH_BOTH_MODES_DEPTH)),
            "a refused operation must leave every lookup as it was; that it left the depth and all later behaviour as it was "
            "is judged by continuing the history from the state behind it (flag `refused` in the canonical state; one "
            "representative history per such state); an invalid theme that is accepted is counted and not judged",
            "only balanced use is explored: pop_theme on an explicitly pushed entry or the base, __exit__ of the innermost block "
            "when its entry is on top",
            "a violating transition's target is not expanded, so behaviour behind a defect is not explored until it is fixed",
            "get_style(default=) resolves the default like a name (theme first, then definition)",
            "config round trip: names are lower-case dotted identifiers, links contain neither '%' nor whitespace (DESIGN C20)",
            "DEFAULT_STYLES is trusted data; Style.parse defines the fallback for the swept default names only",
        ],
        "coverage": {
            "states": c.get("states", 0),
            "transitions": c.get("transitions", 0),
            "traces_validated_against_impl": c.get("transitions", 0),
            "max_depth": c.get("max_depth", 0),
            "height_bound": MAXHEIGHT,
            "depth_bound": QUICK_DEPTH if tier == "quick" else None,
            "closed": closed,
            "closed_up_to_height": MAXHEIGHT if closed else (QUICK_DEPTH if not res.capped else 0),
            "frontier_states_at_depth_cap": depth_capped,
            "config_themes": c.get("config_themes", 0),
            "transitions_without_intermediate_lookups": c.get("transitions_without_intermediate_lookups", 0),
            "refused_operations_executed": c.get("refused_operations_executed", 0),
            "drivers": list(DRIVERS),
        },
    }


def replay(case):
    res = Result()
    if case.get("part") == "stack":
        return check_history(case["base"], case["history"], case.get("lookups", True), case.get("driver", "console"))
    styles = tuple((n, (tuple((a, bool(v)) for a, v in d[0]), d[1], d[2], d[3])) for n, d in case["styles"])
    check_config(styles, case["route"], case["theme_inherit"], case["read_inherit"], res)
    return [(k, v[2]) for k, v in sorted(res.violations.items())]
