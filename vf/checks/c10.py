"""C10 -- Live and progress displays leave a correct screen after any history (E2 + E4).

E2: explicit-state BFS over operation histories of a real Live / Progress / Status on a terminal
console. State = the history; the real objects are rebuilt by replaying it. After every event
the bytes written are replayed on the terminal model (vf/term.py Screen) and compared with the
reference: permanent lines (printed / logged lines, final frames of stopped non-transient
displays) in order, followed by the frame of the renderable that was current at the last
rendering event.  Histories reaching an already seen canonical state are not extended.
E4: for every explored history up to a smaller depth, an exception is injected (a) at every
render-call index of a faulty renderable / progress column -- once as an Exception subclass and once as a
BaseException that is not an Exception, like KeyboardInterrupt -- and (b) after every position of
the `with` block; then cursor visibility, stdout/stderr identity, hook stack and propagation
are checked. (c) "caught and continued": the k-th render call raises once, the caller catches the
exception and the history goes on; from the next successful rendering on the screen oracle applies
again (the faulted print may have happened as a whole or not at all, nothing else may be damaged).
"""
import io
import sys

from ..par import Result, deadline_passed
from ..term import Screen

ID = "C10"
LEVEL = "model_checking"
ENGINE = "E2+E4"
CAP_S = {"quick": 300, "thorough": 2400}
TECHNIQUE = ("explicit-state BFS over operation histories of the real Live/Progress/Status replayed on a terminal "
             "model, plus exhaustive fault injection at every render call and block position of every explored history")
LEVEL_TEXT = ("Every operation history up to the depth bound (deduplicated on a canonical state that contains everything "
              "the implementation and the oracle can still observe) is executed on the real display classes; the emitted "
              "bytes are interpreted by an independent VT100-subset screen and compared with a reference of printed lines "
              "+ expected frame after every event. Every crash point (render-call index, block position) of every history "
              "up to the fault depth is enumerated. Exhaustive inside the bounds.")
LEVEL_NOTE = ("Trusted: vf/term.py Screen (xterm deferred wrap, LF implies CR), the reference in this file. Bounds: screen "
              "12x4 and 20x4, frames of height 0..6, histories to depth 4 (quick) / 6+ (thorough), one fault per history. "
              "Frames taller than the screen are judged under crop/ellipsis only (the documentation disclaims 'visible').")

H = 4


class InjectedFault(Exception):
    pass


class InjectedBaseFault(BaseException):
    """like KeyboardInterrupt / SystemExit: not an Exception subclass"""


FAULT_CLASS = [InjectedFault]      # the class raised by the injection points (switched per fault run)
ANY_FAULT = (InjectedFault, InjectedBaseFault)


class Faulty:
    """A renderable that raises on its k-th render call (1-based); counts calls."""

    def __init__(self, lines, counter, k):
        self.lines = lines
        self.counter = counter
        self.k = k

    def __rich_console__(self, console, options):
        self.counter[0] += 1
        if self.counter[0] == self.k:
            raise FAULT_CLASS[0]("render call %d" % self.k)
        from rich.text import Text
        if self.lines:
            yield Text("\n".join(self.lines))


def frame_lines(fid, height):
    return ["f%d.%d" % (fid, i + 1) for i in range(height)]


FRAMES = [1, 2, 0, 3, H, H + 2]     # heights, simplest first; frame id = index


# ----------------------------------------------------------------------------- session
class Session:
    """Real console + display + screen model + reference, driven by events."""

    def __init__(self, cfg, fault_k=None):
        from rich.console import Console
        import datetime
        self.cfg = cfg
        self.W = cfg["W"]
        self.file = io.StringIO()
        self.pos = 0
        self.clock = [0.0]
        self.console = Console(file=self.file, width=self.W, height=H, force_terminal=True, color_system=None,
                               legacy_windows=False, _environ={}, log_time=False, log_path=False,
                               get_time=lambda: self.clock[0], get_datetime=lambda: datetime.datetime(2020, 1, 1))
        self.screen = Screen(self.W, H)
        self.kind = cfg["kind"]
        self.transient = cfg.get("transient", False)
        self.overflow = cfg.get("overflow", "ellipsis")
        self.fault_k = fault_k
        self.render_calls = [0]
        self.saved_stdout, self.saved_stderr = sys.stdout, sys.stderr
        # reference
        self.perm = []            # permanent lines
        self.cur = None           # description of the current renderable
        self.shown = None         # description of what the live region shows (None: nothing drawn)
        self.started = False
        self.nprint = 0
        self.max_h = 0            # Progress keeps the largest frame height (blank padding) -- ignored by rstrip of trailing blanks
        self.tasks = []           # progress reference: [id, desc, completed, visible]
        self.n_added = 0
        self.judge_frame = True
        self.candidates = None
        self.perm_alt = None           # after a faulted print: the printed lines may or may not have reached the screen
        self.pending_lines = None
        self.skip_screen = False       # after a fault the screen is judged again from the next successful rendering on
        self._build()

    # -- construction
    def _renderable(self, fid):
        lines = frame_lines(fid, FRAMES[fid])
        if self.fault_k is not None:
            return Faulty(lines, self.render_calls, self.fault_k)
        from rich.text import Text
        from rich.console import RenderGroup
        if not lines:
            return RenderGroup()          # a frame that is really empty (Text("") would be one blank line)
        return Text("\n".join(lines))

    def _build(self):
        if self.kind == "live":
            from rich.live import Live
            self.cur = 0
            self.disp = Live(self._renderable(0), console=self.console, auto_refresh=False,
                             transient=self.transient, vertical_overflow=self.overflow)
        elif self.kind == "progress":
            from rich.progress import Progress, ProgressColumn
            from rich.text import Text
            sess = self

            class Col(ProgressColumn):
                def render(self, task):
                    sess.render_calls[0] += 1
                    if sess.fault_k is not None and sess.render_calls[0] == sess.fault_k:
                        raise FAULT_CLASS[0]("column call %d" % sess.fault_k)
                    return Text("%s %d" % (task.description, task.completed))
            self.disp = Progress(Col(), console=self.console, auto_refresh=False, transient=self.transient,
                                 get_time=lambda: self.clock[0])
        elif self.kind == "status":
            from rich.status import Status
            self.disp = Status("s0", console=self.console)
            self.disp._live.auto_refresh = False      # harness seam: no refresh thread (C11 covers the thread)
            self.status_text, self.spinner = "s0", "dots"
            self.transient = True

    # -- reference helpers
    def _frame_expected(self, desc):
        """lines the live region must show for renderable description `desc`, or None = not judged"""
        if desc is None:
            return []
        if self.kind == "live":
            lines = frame_lines(desc, FRAMES[desc])
            if len(lines) > H:
                if self.overflow == "crop":
                    return lines[:H]
                if self.overflow == "ellipsis":
                    return lines[:H - 1] + [" " * ((self.W - 3) // 2) + "..."]
                return None          # 'visible': disclaimed
            return lines
        if self.kind == "progress":
            return ["%s %d" % (d, c) for _i, d, c, v in desc if v] or [""]    # an empty tasks table is one blank line
        if self.kind == "status":
            from rich.console import Console
            from rich.status import Status
            tw = Console(file=io.StringIO(), width=self.W, height=H, force_terminal=True, color_system=None,
                         legacy_windows=False, _environ={}, get_time=lambda: self.clock[0])
            st = Status(desc[0], console=tw, spinner=desc[1])
            lines = tw.render_lines(st.renderable, tw.options, pad=False)
            return ["".join(s.text for s in line).rstrip() for line in lines]

    def _snapshot(self):
        if self.kind == "live":
            return self.cur
        if self.kind == "progress":
            return tuple(tuple(t) for t in self.tasks)
        return (self.status_text, self.spinner)

    def _rendered(self, must_be_current=True):
        """an event rendered the live region. A refresh shows the current renderable; a print re-draws
        the region with either the frame of the last refresh (Progress keeps the table it built then) or
        the current renderable (Live) -- the statement asks for 'the most recently refreshed live frame',
        and a print is allowed to count as a refresh, so both are accepted."""
        self.skip_screen = False
        if self.started:
            self.candidates = [self._snapshot()] if must_be_current else [self._snapshot(), self.shown]
            self.shown = self._snapshot()

    # -- events
    def enabled(self):
        ev = []
        if self.started:
            ev += [("print1",), ("print2",), ("printW",), ("log",), ("print0",), ("printS",), ("out",)]
            if self.kind != "status":
                ev += [("stdout",)]
        else:
            ev += [("print1",)]
        if self.kind == "live":
            for fid in range(len(FRAMES)):
                for r in (True, False):
                    ev.append(("update", fid, r))
        elif self.kind == "progress":
            if len(self.tasks) < H + 1:
                ev.append(("add_task",))
            if not self.tasks:
                ev.append(("add3",))                 # three tasks at once (a frame that can then shrink by two rows)
            if len(self.tasks) >= 2 and self.tasks[0][3] and self.tasks[1][3]:
                ev.append(("hide01",))               # two tasks hidden between two refreshes
            for i, t in enumerate(self.tasks[:2]):
                ev += [("advance", i), ("hide", i), ("show", i), ("remove", i), ("reset", i)]
        elif self.kind == "status":
            ev += [("status", "s1"), ("status", "a longer status"), ("spinner", "line")]
        ev += [("refresh",), ("stop",), ("start",), ("tick",)]
        return ev

    def apply(self, ev):
        c, d = self.console, self.disp
        k = ev[0]
        if k in ("print1", "print2", "printW", "log", "stdout", "print0", "printS", "out"):
            self.nprint += 1
            tag = "x%d" % (self.nprint % 3)
            wide = (tag * self.W)[:self.W]
            lines = {"print1": [tag], "print2": [tag, tag + "'"], "printW": [wide], "log": [tag], "print0": [""],
                     "stdout": [tag], "printS": [wide[:-2]], "out": [tag]}[k]
            self.pending_lines = lines
            if k == "print1":
                c.print(tag)
            elif k == "print2":
                c.print(tag + "\n" + tag + "'")
            elif k == "printW":
                c.print(wide)
            elif k == "log":
                c.log(tag)
            elif k == "print0":
                c.print()
            elif k == "printS":
                c.print(wide[:-2], style="bold")     # a print style is applied after the render hooks have run
            elif k == "out":
                c.out(tag)                           # the uncropped, unwrapped output path
            else:
                print(tag)          # builtin print through the redirected sys.stdout
            self.pending_lines = None
            self.perm += lines
            if self.perm_alt is not None:
                self.perm_alt += lines
            self._rendered(must_be_current=False)
        elif k == "update":
            self.cur = ev[1]
            d.update(self._renderable(ev[1]), refresh=ev[2])
            if ev[2]:
                self._rendered()
        elif k == "refresh":
            d.refresh() if self.kind != "status" else d._live.refresh()
            self._rendered()
        elif k == "stop":
            was = self.started
            d.stop()
            if was:
                self.started = False
                if not self.transient:
                    # the final frame is rendered in full ('visible') and stays
                    final = frame_lines(self.cur, FRAMES[self.cur]) if self.kind == "live" \
                        else self._frame_expected(self._snapshot())
                    self.perm += final
                    if self.perm_alt is not None:
                        self.perm_alt += final
                self.shown = None
                self.skip_screen = False
        elif k == "start":
            was = self.started
            d.start()
            self.started = True
            if not was and self.kind == "progress":
                self.shown = self._snapshot()       # Progress.start() refreshes
        elif k == "tick":
            self.clock[0] += 1.0
        elif k == "add_task":
            i = self.n_added
            self.n_added += 1
            # the task is registered before add_task refreshes: it exists even if that refresh raises
            self.tasks.append([i, "t%d" % i, 0, True])
            tid = d.add_task("t%d" % i, total=10)
            self.tasks[-1][0] = tid
            self._rendered()                         # add_task refreshes
        elif k == "add3":
            for _ in range(3):
                self.apply(("add_task",))
        elif k == "hide01":
            self.apply(("hide", 0))
            self.apply(("hide", 1))
        elif k == "advance":
            t = self.tasks[ev[1]]
            d.advance(t[0], 1)
            t[2] += 1
        elif k in ("hide", "show"):
            t = self.tasks[ev[1]]
            d.update(t[0], visible=(k == "show"))
            t[3] = k == "show"
        elif k == "remove":
            t = self.tasks.pop(ev[1])
            d.remove_task(t[0])
        elif k == "reset":
            t = self.tasks[ev[1]]
            t[2] = 0                                 # the counters are reset before reset() refreshes
            d.reset(t[0])
            self._rendered()                         # reset refreshes
        elif k == "status":
            self.status_text = ev[1]
            d.update(status=ev[1])
            self._rendered()
        elif k == "spinner":
            self.spinner = ev[1]
            d.update(spinner=ev[1])
            self._rendered()
        else:
            raise ValueError(ev)

    def on_fault(self, ev):
        """An injected fault escaped from event ev and was caught by the caller (the session goes on).
        Returns False when the history cannot be continued meaningfully (fault inside stop/start)."""
        if ev[0] in ("stop", "start", "add_task", "add3"):
            # (a fault inside add_task's refresh leaves the task registered but the id counter not advanced, so
            # the next add_task silently replaces it -- task bookkeeping is outside this property; not continued)
            return False
        if self.pending_lines is not None:
            # the print may or may not have happened as a whole
            self.perm_alt = list(self.perm) + list(self.pending_lines)
            self.pending_lines = None
        self.skip_screen = True
        self.candidates = None
        return True

    def feed(self):
        data = self.file.getvalue()
        new = data[self.pos:]
        self.pos = len(data)
        self.screen.feed(new)
        return new

    # -- oracle
    def _norm(self, lines, nframe):
        # blank lines are not compared: LiveRender pads shrunken frames with blank lines by design, and a
        # stopped display whose frame is empty leaves the newline stop() writes -- neither is a remnant of
        # a frame nor an overwritten printed line
        lines = [l for l in lines if l != ""]
        if self.kind == "status" and nframe:
            # the spinner glyph is time dependent: mask the first cell of the frame's first line
            i = len(lines) - nframe
            if 0 <= i < len(lines) and lines[i]:
                lines[i] = "*" + lines[i][1:]
        while lines and lines[-1] == "":
            lines.pop()
        return lines

    def check(self, ev):
        """-> list of (key, detail)"""
        out = []
        suffix = ("/transient" if self.transient and self.kind != "status" else "") + ("/tall-frame" if self._tall() else "")
        tag = "%s/%s" % (self.kind, ev[0])
        if self.kind == "progress" and self._tall():
            # Progress has no vertical overflow handling at all: whatever event comes next shows it, so the
            # event is not part of the finding key (one defect, few keys)
            tag = "progress/any-event"
        scr = self.screen
        cands = self.candidates if (self.started and self.candidates) else [self.shown if self.started else None]
        self.candidates = None
        frames = [self._frame_expected(c) if self.started else [] for c in cands]
        if any(f is None for f in frames):
            self.judge_frame = False     # a 'visible' over-tall frame was drawn: the documentation disclaims the result from here on
        for e in scr.events:
            if e[0] == "clamp-up" and self.judge_frame and not self.skip_screen:
                out.append((tag + "/cursor-above-screen" + suffix, "cursor-up clamped at the top: %r" % (e,)))
            elif e[0] == "unknown":
                out.append((tag + "/unknown-control", repr(e)))
        scr.events = []
        if self.judge_frame and not self.skip_screen:
            got_raw = scr.visible_lines()
            ok = False
            perms = [self.perm] + ([self.perm_alt] if self.perm_alt is not None else [])
            for perm in perms:
                for cand, frame in zip(cands, frames):
                    want = self._norm(list(perm) + list(frame), len(frame))
                    got = self._norm(got_raw, len(frame))
                    if got == want:
                        ok = True
                        if self.started:
                            self.shown = cand
                        self.perm = list(perm)
                        self.perm_alt = None
                        break
                if ok:
                    break
            if not ok:
                want = self._norm(list(self.perm) + list(frames[0]), len(frames[0]))
                got = self._norm(got_raw, len(frames[0]))
                gp = [l for l in got if l.startswith("x")]
                wp = [l for l in want if l.startswith("x")]
                if gp != wp:
                    sym = "printed-line-lost-or-reordered"
                elif len(got) > len(want):
                    sym = "remnant"
                elif len(got) < len(want):
                    sym = "missing-lines"
                else:
                    sym = "wrong-frame"
                out.append(("%s/screen/%s%s" % (tag, sym, suffix), "screen %r expected %r" % (got, want)))
        if not self.started:
            if not scr.cursor_visible:
                out.append((tag + "/cursor-hidden-while-stopped", ""))
            if sys.stdout is not self.saved_stdout or sys.stderr is not self.saved_stderr:
                out.append((tag + "/stdio-not-restored", ""))
            if self.console._render_hooks:
                out.append((tag + "/hook-left", repr(self.console._render_hooks)))
        else:
            if scr.cursor_visible:
                out.append((tag + "/cursor-visible-while-live", ""))
        return out

    def _tall(self):
        """the frame (plus the newline stop() adds) does not fit the screen"""
        if self.kind == "live":
            return FRAMES[self.cur] >= H
        if self.kind == "progress":
            self.max_h = max(self.max_h, sum(1 for t in self.tasks if t[3]))
            return self.max_h >= H
        return False

    def canon(self):
        d = self.disp
        lr = d._live_render if self.kind != "status" else d._live._live_render
        live = d if self.kind != "status" else d._live
        return (self.started, self._snapshot(), self.shown, lr._shape, len(self.console._render_hooks),
                getattr(live, "vertical_overflow", None), self.nprint % 3, self.judge_frame,
                tuple(self.screen.screen_lines()), self.screen.r, self.screen.c, self.screen.wrap,
                self.screen.cursor_visible, len(self.screen.sb) > 0,
                tuple(self.perm[-(H + 2):]), self.clock[0] if self.kind == "status" else 0)

    def close(self):
        try:
            live = self.disp if self.kind != "status" else self.disp._live
            if getattr(live, "_started", False):
                try:
                    self.disp.stop()
                except BaseException:
                    pass
        finally:
            sys.stdout, sys.stderr = self.saved_stdout, self.saved_stderr


def run_history(cfg, hist, fault_k=None):
    """Replays hist on a fresh session. Returns (session, violations of the LAST event, exception or None)."""
    s = Session(cfg, fault_k)
    vio = []
    try:
        for i, ev in enumerate(hist):
            s.apply(ev)
            s.feed()
            v = s.check(ev)
            if i == len(hist) - 1:
                vio = v
        return s, vio, None
    except ANY_FAULT as e:
        return s, vio, e
    finally:
        sys.stdout, sys.stderr = s.saved_stdout, s.saved_stderr


CONFIGS = {
    "quick": [{"kind": "live", "W": 12, "transient": t, "overflow": o} for t in (False, True) for o in ("ellipsis", "crop", "visible")]
             + [{"kind": "live", "W": 20, "transient": False, "overflow": "ellipsis"}]
             + [{"kind": "progress", "W": 12, "transient": t} for t in (False, True)]
             + [{"kind": "status", "W": 12}],
}
CONFIGS["thorough"] = CONFIGS["quick"] + [{"kind": "live", "W": 20, "transient": True, "overflow": "crop"},
                                          {"kind": "progress", "W": 20, "transient": False},
                                          {"kind": "status", "W": 20}]
DEPTH = {"quick": {"live": 4, "progress": 5, "status": 5}, "thorough": {"live": 5, "progress": 7, "status": 6}}
FAULT_DEPTH = {"quick": {"live": 3, "progress": 3, "status": 0}, "thorough": {"live": 4, "progress": 4, "status": 0}}


def plan(tier, seed):
    shards = []
    for ci, cfg in enumerate(CONFIGS[tier]):
        s = Session(cfg)
        first = s.enabled()
        s.close()
        # one shard per first event: each explores the subtree below it (dedup per shard)
        for fi in range(len(first)):
            shards.append({"part": "bfs", "cfg": ci, "first": fi})
        if FAULT_DEPTH[tier][cfg["kind"]]:
            for fi in range(len(first)):
                shards.append({"part": "fault", "cfg": ci, "first": fi})
    return shards


def _bfs(cfg, first_event, maxdepth, res):
    import collections
    seen = set()
    frontier = collections.deque()
    histories = []
    s, vio, exc = run_history(cfg, [first_event])
    res.evaluations += 1
    for key, detail in vio:
        res.violate(key, {"cfg": cfg, "history": [first_event]}, detail)
    seen.add(s.canon())
    frontier.append([first_event])
    histories.append([first_event])
    s.close()
    transitions = 1
    maxd = 1
    cut = 0
    while frontier:
        hist = frontier.popleft()
        if len(hist) >= maxdepth:
            cut += 1
            continue
        if deadline_passed():
            res.capped = True
            break
        s0, _, _ = run_history(cfg, hist)
        events = s0.enabled()
        s0.close()
        for ev in events:
            h2 = hist + [ev]
            try:
                s, vio, exc = run_history(cfg, h2)
            except Exception as e:  # noqa
                import traceback
                tb = traceback.extract_tb(e.__traceback__)[-1]
                res.violate("%s/%s/exception/%s/%s" % (cfg["kind"], ev[0], type(e).__name__, tb.name),
                            {"cfg": cfg, "history": h2}, repr(e))
                sys.stdout, sys.stderr = sys.__stdout__, sys.__stderr__
                continue
            transitions += 1
            res.evaluations += 1
            for key, detail in vio:
                res.violate(key, {"cfg": cfg, "history": h2}, detail)
            k = s.canon()
            res.sig((cfg["kind"], ev[0], s.started, len(s.screen.sb) > 0, bool(vio)),
                    nontrivial=s.started and bool(s.perm))
            s.close()
            if vio:
                continue           # do not extend a state that is already wrong (its successors inherit the damage)
            if k not in seen:
                seen.add(k)
                frontier.append(h2)
                histories.append(h2)
                maxd = max(maxd, len(h2))
    res.count("states", len(seen))
    res.count("transitions", transitions)
    res.count("frontier_at_depth_cap", cut)
    res.counters["max_depth"] = max(res.counters.get("max_depth", 0), maxd)
    return histories


def _faults(cfg, histories, maxdepth, res):
    """E4: for every explored history h (len <= maxdepth): (a) every render-call index k, (b) every block position."""
    for hist in histories:
        if len(hist) > maxdepth:
            continue
        if deadline_passed():
            res.capped = True
            return
        # K(h): render calls in the fault-free run inside a with-block
        base = _run_block(cfg, hist, None, None)
        K = base["render_calls"]
        body_len = len(hist) - hist.index(("start",)) if ("start",) in hist else len(hist)
        for cls, tag in ((InjectedFault, "render"), (InjectedBaseFault, "render-base")):
            FAULT_CLASS[0] = cls
            try:
                for k in range(1, K + 1):
                    out = _run_block(cfg, hist, k, None)
                    res.evaluations += 1
                    _judge_fault(cfg, hist, (tag, k), out, res)
                for pos in range(0, body_len + 1):
                    out = _run_block(cfg, hist, None, pos)
                    res.evaluations += 1
                    _judge_fault(cfg, hist, (tag.replace("render", "block"), pos), out, res)
            finally:
                FAULT_CLASS[0] = InjectedFault
    res.count("fault_histories", len([h for h in histories if len(h) <= maxdepth]))


def _run_continue(cfg, hist, k):
    """The user catches the exception of the faulted event and goes on: replays hist with the k-th render
    call raising once; every later event is judged by the normal screen oracle.
    -> (violations [(key, detail, index)], faulted_at or None)"""
    s = Session(cfg, k)
    out = []
    faulted = None
    try:
        for i, ev in enumerate(hist):
            try:
                s.apply(ev)
            except ANY_FAULT:
                faulted = i
                if not s.on_fault(ev):
                    break
            s.feed()
            v = s.check(ev)
            if faulted is not None:
                out += [(key, detail, i) for key, detail in v]
            if v:
                break
        return out, faulted
    finally:
        s.close()


def _faults_continue(cfg, histories, res):
    for hist in histories:
        if deadline_passed():
            res.capped = True
            return
        base = Session(cfg, 10 ** 9)
        try:
            for ev in hist:
                base.apply(ev)
            K = base.render_calls[0]
        except Exception:
            K = 0
        finally:
            base.close()
        for k in range(1, K + 1):
            vio, faulted = _run_continue(cfg, hist, k)
            res.evaluations += 1
            res.sig((cfg["kind"], "fault-continue", faulted is not None, bool(vio)), nontrivial=faulted is not None)
            for key, detail, i in vio:
                res.violate(key, {"cfg": cfg, "history": hist, "fault_continue": k}, detail + " (after a fault at render call %d, event %d)" % (k, faulted))


def _run_block(cfg, hist, fault_k, fault_pos):
    """Runs `with display: events...` with a fault at render call fault_k or after block position fault_pos."""
    s = Session(cfg, fault_k if fault_k is not None else 10 ** 9)
    raised = None
    stage = "enter"
    # events before the first "start" of the history run before the block (tasks that exist when start() refreshes)
    pre = []
    if ("start",) in hist:
        cut = hist.index(("start",))
        pre, hist = [e for e in hist[:cut] if e[0] != "stop"], hist[cut:]
    try:
        try:
            for ev in pre:
                s.apply(ev)
            with s.disp:
                s.started = True
                if s.kind == "progress":
                    s.shown = s._snapshot()
                stage = "body"
                for i, ev in enumerate(hist):
                    if fault_pos is not None and i == fault_pos:
                        raise FAULT_CLASS[0]("block position %d" % i)
                    if ev[0] in ("start", "stop"):
                        continue
                    s.apply(ev)
                if fault_pos is not None and fault_pos == len(hist):
                    raise FAULT_CLASS[0]("block position %d" % fault_pos)
                stage = "exit"
        except ANY_FAULT as e:
            raised = e
        s.feed()
        live = s.disp if s.kind != "status" else s.disp._live
        out = {"raised": raised, "stage": stage, "render_calls": s.render_calls[0],
               "stdout_ok": sys.stdout is s.saved_stdout and sys.stderr is s.saved_stderr,
               "hooks": len(s.console._render_hooks), "cursor_visible": s.screen.cursor_visible,
               "started_flag": live._started, "file": s.file.getvalue(),
               "clamp": [e for e in s.screen.events if e[0] == "clamp-up"]}
        return out
    finally:
        s.close()


def _judge_fault(cfg, hist, fault, out, res):
    kind = cfg["kind"]
    case = {"cfg": cfg, "history": hist, "fault": list(fault)}
    where = "%s/fault-%s" % (kind, fault[0])
    if fault[0].startswith("block") or out["raised"] is not None or fault[1] <= out["render_calls"]:
        if out["raised"] is None:
            res.violate(where + "/exception-swallowed", case, "the injected exception did not propagate (stage %s)" % out["stage"])
    stage = "/in-start" if out["stage"] == "enter" else ""
    if not out["stdout_ok"]:
        res.violate(where + "/stdio-not-restored" + stage, case, "sys.stdout/sys.stderr still redirected after the block")
    if out["hooks"]:
        res.violate(where + "/hook-left" + stage, case, "%d render hook(s) left" % out["hooks"])
    if not out["cursor_visible"]:
        res.violate(where + "/cursor-hidden" + stage, case, "cursor still hidden after the block")
    res.sig((kind, "fault", fault[0], out["stage"], out["raised"] is not None), nontrivial=out["raised"] is not None)


def run_shard(sh, tier, seed):
    res = Result()
    cfg = CONFIGS[tier][sh["cfg"]]
    s = Session(cfg)
    first = s.enabled()[sh["first"]]
    s.close()
    if sh["part"] == "bfs":
        _bfs(cfg, first, DEPTH[tier][cfg["kind"]], res)
        if sh["first"] == 0:
            res.sample({"cfg": cfg, "history": [list(first), ["print1"], ["update", 3, True], ["stop"]]}, limit=1)
    else:
        sub = Result()
        hs = _bfs(cfg, first, FAULT_DEPTH[tier][cfg["kind"]] + 1, sub)
        _faults(cfg, hs, FAULT_DEPTH[tier][cfg["kind"]], res)
        _faults_continue(cfg, hs, res)
        if sh["first"] == 0:
            res.sample({"cfg": cfg, "history": [list(first)], "fault": ["render", 1]}, limit=1)
    return res


def describe(tier, seed, res):
    return {
        "rule": "configs: Live x {transient} x {ellipsis, crop, visible} x W in {12,20}, Progress x {transient}, Status; screen height 4. "
                "Events: print 1 line / 2 lines / a line of exactly W cells / empty print, log, builtin print via redirected stdout, "
                "update(frame of height 1,2,0,3,4,6; refresh or not), refresh, stop, start, clock tick; Progress: add_task (up to 5), "
                "advance, hide, show, remove, reset; Status: update(status), update(spinner). BFS per (config, first event) with dedup on "
                "(started, renderable, shown frame, _shape, hooks, overflow mode, screen window, cursor, scrolled?, last permanent lines). "
                "Faults: every render-call index and every block position of every explored history up to the fault depth. "
                "non-trivial = the display is live and something was printed; distinct = (kind, event, started, scrolled, verdict).",
        "assumptions": [
            "terminal model: xterm deferred wrap, LF implies CR (tty onlcr)",
            "frames taller than the screen are judged under crop/ellipsis only; once a 'visible' over-tall frame was drawn the screen is no longer judged in that history",
            "states whose screen is already wrong are not extended",
            "blank lines are not compared (padding of shrunken Progress frames; the newline a stopped display with an empty frame leaves)",
            "after a print the live region may show either the frame of the last refresh or the current renderable",
            "Status is run with its Live's auto_refresh switched off (the refresh thread is C11's subject)",
            "dedup is per shard (one shard per first event)",
        ],
        "coverage": {
            "states": res.counters.get("states", 0),
            "transitions": res.counters.get("transitions", 0),
            "traces_validated_against_impl": res.counters.get("transitions", 0),
            "fault_injections": res.evaluations - res.counters.get("transitions", 0),
            "max_depth": res.counters.get("max_depth", 0),
            "frontier_at_depth_cap": res.counters.get("frontier_at_depth_cap", 0),
        },
    }


def replay(case):
    cfg = case["cfg"]
    hist = [tuple(e) for e in case["history"]]
    res = Result()
    if "fault_continue" in case:
        vio, _f = _run_continue(cfg, hist, case["fault_continue"])
        return sorted(set((k, d) for k, d, _i in vio))
    if "fault" in case:
        f = case["fault"]
        FAULT_CLASS[0] = InjectedBaseFault if f[0].endswith("-base") else InjectedFault
        try:
            out = _run_block(cfg, hist, f[1] if f[0].startswith("render") else None, f[1] if f[0].startswith("block") else None)
        finally:
            FAULT_CLASS[0] = InjectedFault
        _judge_fault(cfg, hist, tuple(f), out, res)
        return [(k, v[2]) for k, v in sorted(res.violations.items())]
    out = []
    s = Session(cfg)
    try:
        for ev in hist:
            s.apply(ev)
            s.feed()
            out = s.check(ev)
    finally:
        s.close()
    return sorted(set(out))
