"""C09 -- Measurements are sound bounds on what rendering produces.

part "tree": every renderable-tree description of the tier's families (vf/gen.py, the C01 space;
    plus the D1 default-option trees with every leaf wrapped in NoMeasure(leaf) -- same render,
    no __rich_measure__ -- and in Cast(leaf) -- an object whose __rich__ returns the leaf) x every
    available width A of the family's A-set:
        m = Measurement.get(console, fresh object, A)
        (1) m.minimum and m.maximum are ints with 0 <= minimum <= maximum <= max(A, 0)
        (2) for v in {m.maximum, m.minimum} with v >= max(1, struct_min(tree)): a fresh object rendered
            with console.render(obj, options.update(width=v)) has no line wider than v cells
            (one render per distinct v and tree; widths by vf/width.py)
part "text": every string over {a, b, space, W (wide), Z (zero width), "\\n"} -- W / Z = last code point of
    the first multi-code-point double-width / zero-width range of the width table -- up to the
    tier's length x every A:  Measurement.get(Text(s), A) == (min(word, A), min(line, A)) where
    word = widest whitespace-delimited word, line = widest "\\n"-line, both from the harness's width
    table (A < 1 -> (0, 0)); a text without any word has no minimum clause (the statement is silent);
    and rendering Text(s) at width `line` gives exactly the lines s.split("\\n") (trailing blanks of a
    line aside) -- no extra break.  The same
    through Cast(Text(s)); through single Text options (justify / overflow / no_wrap) the measurement
    clause is unchanged and the wrap clause compares line count and non-blank characters.

part "history" (E2 style): a measurement is a function of the renderable's CURRENT content.  For Text with every
    in-place mutator (plain=, append, append_text, append_tokens, pad, pad_left, pad_right, truncate, truncate with
    pad=True / ellipsis, right_crop, set_length up / down, align, expand_tabs, rstrip, rstrip_end, remove_suffix,
    stylize) and for the mutable containers (Table.add_row / add_column, Tree.add at the root / below the first
    child, Columns.add_renderable / renderables.append, RenderGroup.renderables.append, Panel / Padding / Align /
    Constrain / Styled .renderable reassigned): every history of length <= 3 (thorough <= 4) over {measure at A1,
    measure at A2, render at W, mutator_i} that ends in a measure.  The last Measurement.get must equal that of an
    object that went through the mutators only (never measured or rendered before) and that of a FRESH object built
    directly in the final state (Text(final plain); gen.build(final description) where the mutation is expressible
    as a description), and must satisfy the normal clauses (range; widest word / line for tab-free text; no overflow
    when rendered at the reported values at or above the structural minimum).

    Shared-argument histories (family SH of vf/gen.py): ONE Text object is an argument / kid of a host (Panel /
    Rule / Columns title, Table title / caption / header / footer, panel / padding / align / constrain / styled kid,
    table cell, columns item, tree label) and the host's sibling in a group; every history of length <= 3 (thorough
    <= 4) over {measure group at 100, measure group at 3, render group at 4, measure host, render host} ending in a
    group measure: that measurement must equal the one of the same group built from separate equal objects, and the
    shared Text measured alone afterwards must still measure like Text(s) (keys "shared/<slot>/...").
    The WT family (fixed width options below / above the available width x titles x expand) is in the tree part.

    Round 4: a word is a maximal run of non-whitespace by str.isspace (where wrapping may break); part "textws" = all
    strings over {a, U+3042, NBSP, U+3000, U+2003, space, newline} up to length 4 (thorough 6); family CON (trees of
    3 / 4 nodes, multi-line / panel labels) is measured and rendered on the utf8, ascii-only and legacy_windows
    consoles; part "bars" = C01's fine-grid Bar / ProgressBar cases measured at A = W and rendered at the reported values.

Finding keys: "history/<kind>/measure-differs-from-fresh", "history/<kind>/<clause>",
"range/<clause>/<kind of the deepest node whose own measurement is out of range>", "fit/<C01 blame key>" (e.g. "fit/table/leading"),
"text/min", "text/max", "text/max/blank-lines", "text/wrap-at-max", "crash/<Type>/<file>:<function>".

Measured (default 16 workers):
    quick     27.9 k trees (incl. WT 672, CON 297 x 3 consoles) + 9 331 + 2 801 (non-ASCII whitespace) strings + 12 126
              histories + 15 232 Bar / ProgressBar grid cases, 1 097 596 evaluations, 482 outcome signatures (222 non-trivial),
              ~485 CPU-s (32 s wall nearly idle before the round-4 parts, which add ~10 CPU-s; 93 s wall at load 55-68)
    thorough  not re-run after rounds 3 / 4 (last: 14 592 182 evaluations, ~3 400 CPU-s, 583 s wall under load)
"""
import io
import itertools
import os

from .. import gen
from ..par import Result, deadline_passed
from ..structmin import struct_min
from ..width import sw
from . import c01

ID = "C09"
LEVEL = "exploration"
ENGINE = "E1"
CAP_S = {"quick": 900, "thorough": 3600}
if os.environ.get("VF_CAP_S"):       # development aid: shorter wall cap (the run then reports exhaustive=false)
    CAP_S = {"quick": int(os.environ["VF_CAP_S"]), "thorough": int(os.environ["VF_CAP_S"])}
TECHNIQUE = ("bounded-exhaustive enumeration of renderable trees and of all short strings x every available width, "
             "Measurement.get on the real code judged against range arithmetic, an independent render-and-measure of "
             "the reported minimum / maximum, and a word / line width reference for text")
LEVEL_TEXT = ("Every tree description inside the stated bounds and every string up to the length bound is measured on the "
              "real code at every available width of the A-set; each reported minimum / maximum at or above the structural "
              "minimum is fed back into a real render whose lines are measured with the harness's own width table; text "
              "measurements are compared with widest-word / widest-line values computed by the harness. Exhaustive inside "
              "the bounds; nothing is sampled.")
LEVEL_NOTE = ("Trusted: CPython, CELL_WIDTHS table data, vf/gen.py, vf/structmin.py, vf/width.py. The statement only "
              "demands range + no-overflow for non-text renderables: a measurement that is merely too small (content "
              "wraps needlessly) is NOT a violation of this property unless it is a Text. Bounds: see coverage.rule.")

A_FULL = tuple(range(0, 25)) + (40, 80, 200)
A_SHORT = (0, 1, 2, 3, 4, 5, 6, 8, 10, 12, 16, 24, 80)
# the wide and the zero-width symbol are the LAST code points of a width-table range (gen._edge_chars)
SIGMA = ["a", " ", gen.WIDE_LAST, "\n", "b", gen.ZERO_LAST]

# families of gen.families(tier) used by the tree part, with their A-set
TREE_FAMILIES = {
    "quick": {"D1": A_FULL, "D2": A_SHORT, "D2x1": A_SHORT, "CH3": A_SHORT, "ROT": A_SHORT, "WT": A_FULL, "CON": A_SHORT},
    "thorough": {"D1": A_FULL, "D1x1": A_FULL, "D2": A_SHORT, "D2x2": A_SHORT, "D3": A_SHORT,
                 "CH3": A_FULL, "CH4": A_SHORT, "WT": A_FULL, "CON": A_FULL},
}
ALL_CONSOLE_FAMILIES = ("CON",)      # also measured / rendered on the ascii-only and legacy_windows consoles
TREES_PER_SHARD = {"quick": 200, "thorough": 1500}
TEXT_LEN = {"quick": 5, "thorough": 7}
TEXT_OPT_LEN = {"quick": 4, "thorough": 5}
# words separated by non-ASCII whitespace: NBSP, ideographic space (2 cells), em space
WS_SIGMA = ["a", "\u3042", "\u00a0", "\u3000", "\u2003", " ", "\n"]
WS_LEN = {"quick": 4, "thorough": 6}
TEXT_OPTS = [("justify", "left"), ("justify", "center"), ("justify", "right"), ("justify", "full"),
             ("overflow", "fold"), ("overflow", "crop"), ("overflow", "ellipsis"), ("no_wrap", True)]


def _aset(tier, fam_name):
    t = TREE_FAMILIES[tier]
    if fam_name in t:
        return t[fam_name]
    if fam_name.startswith("ROT"):
        return t.get("ROT")
    return None


# ------------------------------------------------------------------ tree part
def measure(d, A, ckind="utf8"):
    from rich.measure import Measurement
    return Measurement.get(gen.make_console(ckind), gen.build(d), A)


def _range_problem(m, A):
    mn, mx = m[0], m[1]
    if type(mn) is not int or type(mx) is not int:
        return "non-int"
    if mn < 0:
        return "negative"
    if mn > mx:
        return "min-above-max"
    if mx > max(A, 0):
        return "max-above-available"
    return None


def _blame_range(d, A, ckind):
    """deepest node on a path from the root whose own measurement at A is already out of range"""
    node = d
    while True:
        for k in node[2]:
            try:
                bad = _range_problem(measure(k, A, ckind), A)
            except Exception:  # noqa: BLE001
                bad = None
            if bad:
                node = k
                break
        else:
            return node


def check_tree(d, aset, res, ckind="utf8", only_A=None):
    sm = max(1, struct_min(d))
    fits = {}       # v -> widest line when rendered at v
    kind = d[0]
    for A in (aset if only_A is None else [only_A]):
        case = {"part": "tree", "tree": d, "A": A, "console": ckind}
        try:
            m = measure(d, A, ckind)
        except Exception as e:  # noqa: BLE001
            res.evaluations += 1
            res.violate(c01.crash_key(e), case, "Measurement.get: %s: %s" % (type(e).__name__, e))
            res.sig(("crash-measure", kind))
            continue
        res.evaluations += 1
        prob = _range_problem(m, A)
        if prob:
            node = _blame_range(d, A, ckind)
            res.violate("range/%s/%s" % (prob, node[0]), case, "Measurement.get(.., %d) = %r" % (A, tuple(m)))
            res.sig(("range", prob, kind))
            continue
        judged = []
        for which, v in (("max", m[1]), ("min", m[0])):
            if v < sm:
                continue
            if v not in fits:
                try:
                    ws = c01.line_widths(d, v, ckind)
                    fits[v] = max(ws) if ws else 0
                except Exception as e:  # noqa: BLE001
                    fits[v] = None
                    res.violate(c01.crash_key(e), dict(case, v=v), "render at reported %s %d: %s: %s"
                                % (which, v, type(e).__name__, e))
                res.count("renders")
            got = fits[v]
            if got is None:
                continue
            judged.append((which, got == v))
            if got > v:
                md, mw, key = c01.minimise(d, v, ckind)
                res.violate("fit/" + key, {"part": "fit", "tree": md, "W": mw, "console": ckind},
                            "Measurement.get(.., %d) = %r; rendering at the reported %s %d gives a line of %d cells "
                            "(struct_min %d); minimised from %s" % (A, tuple(m), which, v, got, sm, c01._short(d)))
        res.sig((kind, m[1] == A, m[0] == m[1], m[0] >= sm, tuple(judged)), nontrivial=bool(judged))


# ------------------------------------------------------------------ Bar / ProgressBar on a fine grid
BAR_WIDTHS_C09 = (1, 2, 3, 5, 8, 10, 20)


def check_bar_measure(case, res):
    """C01's fine-grid Bar / ProgressBar cases: measure at A = W, range, and render at the reported max / min."""
    from rich.measure import Measurement
    con = gen.make_console(case["console"])
    A = case["W"]

    def make():
        if case["what"] == "bar":
            from rich.bar import Bar
            return Bar(case["size"], case["begin"], case["end"], width=case.get("width"))
        from rich.progress_bar import ProgressBar
        return ProgressBar(total=case["total"], completed=case["completed"], width=case.get("width"),
                           pulse=case.get("pulse", False), animation_time=0.0)
    try:
        m = Measurement.get(con, make(), A)
        res.evaluations += 1
        prob = _range_problem(m, A)
        if prob:
            res.violate("range/%s/%s" % (prob, case["what"]), case, "Measurement.get(.., %d) = %r" % (A, tuple(m)))
            return
        for which, v in (("max", m[1]), ("min", m[0])):
            if v >= 1:
                ws = gen.render_widths(con, make(), v)
                if ws and max(ws) > v:
                    res.violate("fit/%s/fine-grid" % case["what"], case, "Measurement.get(.., %d) = %r; rendering at the "
                                "reported %s %d gives a line of %d cells" % (A, tuple(m), which, v, max(ws)))
        res.sig(("bars", case["what"], m[0] == m[1], case.get("width") is not None))
    except Exception as e:  # noqa: BLE001
        res.violate(c01.crash_key(e), case, "%s: %s" % (type(e).__name__, e))


# ------------------------------------------------------------------ text part
def _strings(maxlen):
    for L in range(maxlen + 1):
        for tup in itertools.product(SIGMA, repeat=L):
            yield "".join(tup)


def _ref(s):
    """(widest word or None when there is no word, widest line)"""
    # a word = a maximal run of non-whitespace characters; whitespace = str.isspace (Python's definition,
    # which is also where wrapping may break: the regex class \\s of rich._wrap)
    words = "".join(" " if c.isspace() else c for c in s).split(" ")
    words = [w for w in words if w]
    lines = s.split("\n")
    return (max(sw(w) for w in words) if words else None), max(sw(ln) for ln in lines)


def check_text(s, aset, res, opts=None, wrapper=None):
    d = gen.T(s, **(opts or {}))
    if wrapper:
        d = [wrapper, {}, [d]]
    word, line = _ref(s)
    base = {"part": "text", "s": s, "opts": opts or {}, "wrapper": wrapper}
    blank_multi = word is None and "\n" in s
    for A in aset:
        try:
            m = measure(d, A)
        except Exception as e:  # noqa: BLE001
            res.evaluations += 1
            res.violate(c01.crash_key(e), dict(base, A=A), "Measurement.get: %s: %s" % (type(e).__name__, e))
            continue
        res.evaluations += 1
        prob = _range_problem(m, A)
        if prob:
            res.violate("range/%s/text" % prob, dict(base, A=A), "Measurement.get(Text(%r), %d) = %r" % (s, A, tuple(m)))
            continue
        cap = max(A, 0)
        want_max = min(line, cap)
        if m[1] != want_max:
            res.violate("text/max/blank-lines" if blank_multi else "text/max", dict(base, A=A),
                        "Measurement.get(Text(%r), %d).maximum = %d, widest line is %d cells" % (s, A, m[1], want_max))
        if word is not None and m[0] != min(word, cap):
            res.violate("text/min", dict(base, A=A),
                        "Measurement.get(Text(%r), %d).minimum = %d, widest word is %d cells" % (s, A, m[0], min(word, cap)))
        res.sig(("text", word is None, word == line, min(line, 5) if line < 5 else 5, A < line, (word or 0) > A,
                 bool(opts), wrapper), nontrivial=word is not None and (word != line or A < line))
    if line >= 1:
        try:
            got = gen.render_text_lines(gen.make_console("utf8"), gen.build(d), line)
        except Exception as e:  # noqa: BLE001
            res.evaluations += 1
            res.violate(c01.crash_key(e), dict(base, W=line), "render at widest line: %s: %s" % (type(e).__name__, e))
            return
        res.evaluations += 1
        want = s.split("\n")
        if opts and "justify" in opts:
            ok = len(got) == len(want) and [g.replace(" ", "") for g in got] == [w.replace(" ", "") for w in want]
        else:
            # "never wrapped": the same lines; blanks at the end of a line are not a break
            ok = [g.rstrip(" ") for g in got] == [w.rstrip(" ") for w in want]
        if not ok:
            res.violate("text/wrap-at-max", dict(base, W=line),
                        "Text(%r) rendered at its widest line (%d cells) gives %r, the newline-delimited lines are %r"
                        % (s, line, got, want))
        res.sig(("wrap", min(len(want), 3), ok, bool(opts), wrapper), nontrivial=len(want) > 1 or " " in s)


# ------------------------------------------------------------------ str part: plain strings x console switches
# A plain str is turned into Text by the CONSOLE (markup / emoji / highlight switches): its measurement must be the
# measurement of what that console prints for it. Every string of the menu x markup on/off x emoji on/off.
STR_MENU = ["plain words", "[bold]important[/bold] note", "a [b]c", "[link=u]k[/link] z", ":smiley: x", "x :no_such_emoji: y",
            "[red]x", "list[int] y", "a\n[i]bb[/i] c", ""]
STR_A = [200, 12, 5]
_STR_CON = {}


def _str_console(markup, emoji):
    con = _STR_CON.get((markup, emoji))
    if con is None:
        from rich.console import Console
        con = Console(file=io.StringIO(), width=200, height=50, force_terminal=True, color_system="truecolor",
                      legacy_windows=False, _environ={}, markup=markup, emoji=emoji, highlight=False)
        _STR_CON[(markup, emoji)] = con
    return con


def check_str(s, markup, emoji, res):
    from rich.measure import Measurement
    con = _str_console(markup, emoji)
    base = {"part": "str", "s": s, "markup": markup, "emoji": emoji}
    try:
        shown = gen.render_text_lines(con, s, 200)          # what this console prints for s, unwrapped
    except Exception as e:  # noqa: BLE001
        res.evaluations += 1
        if not markup:
            res.violate(c01.crash_key(e), base, "render of %r: %s: %s" % (s, type(e).__name__, e))
        return                                              # a MarkupError of broken markup is not C09's business
    text = "\n".join(shown)
    if not markup and not emoji and text.rstrip(" ") != s.rstrip(" ") and s:
        res.violate("str/verbatim", base, "Console(markup=False, emoji=False) prints %r as %r" % (s, text))
    word, line = _ref(text)
    for A in STR_A:
        res.evaluations += 1
        try:
            m = Measurement.get(con, s, A)
        except Exception as e:  # noqa: BLE001
            res.violate(c01.crash_key(e), dict(base, A=A), "Measurement.get: %s: %s" % (type(e).__name__, e))
            continue
        prob = _range_problem(m, A)
        if prob:
            res.violate("range/%s/str" % prob, dict(base, A=A), "Measurement.get(%r, %d) = %r" % (s, A, tuple(m)))
            continue
        if m[1] != min(line, A):
            res.violate("str/max", dict(base, A=A), "Measurement.get(console(markup=%r, emoji=%r), %r, %d).maximum = %d; the console prints %r, "
                        "widest line %d cells" % (markup, emoji, s, A, m[1], text, min(line, A)))
        if word is not None and m[0] != min(word, A):
            res.violate("str/min", dict(base, A=A), "Measurement.get(console(markup=%r, emoji=%r), %r, %d).minimum = %d; the console prints %r, "
                        "widest word %d cells" % (markup, emoji, s, A, m[0], text, min(word, A)))
        if m[1] >= 1 and A >= line:
            got = gen.render_text_lines(con, s, m[1])
            if [g.rstrip(" ") for g in got] != [w.rstrip(" ") for w in shown]:
                res.violate("str/wrap-at-max", dict(base, A=A), "%r rendered at its reported maximum %d gives %r, unwrapped it is %r"
                            % (s, m[1], got, shown))
        res.sig(("str", markup, emoji, text != s, A < line), nontrivial=text != s or not (markup and emoji))


# ------------------------------------------------------------------ history part
HIST_A = {"M1": 100, "M2": 3}
HIST_W = 4
HIST_DEPTH = {"quick": 3, "thorough": 4}
OBSERVERS = ("M1", "M2", "R")

TEXT_MUTATORS = ["plain=", "append", "append_text", "append_tokens", "pad", "pad_left", "pad_right", "truncate",
                 "truncate_pad", "truncate_ellipsis", "right_crop", "set_length+", "set_length-", "align",
                 "expand_tabs", "rstrip", "rstrip_end", "remove_suffix", "stylize"]
HIST_STR = ["xy z", "q", "long word here", "p"]          # j-th new content
HIST_CELL = ["x y", "abcdefgh", "", "k"]


def _child_j(j):
    return gen.T(["a\nbb c", "abcdefgh", "x", "ab cd"][j % 4])


def hist_subjects():
    """(kind, initial description, mutators)"""
    T = gen.T
    subs = [("text", T(t), TEXT_MUTATORS) for t in
            ("hello", "ab cd", "id\tname of thing", gen.WIDE_IN + "x y", "a\nbb c", "")]
    subs.append(("text", T("ab cd", justify="center"), TEXT_MUTATORS))
    one = {"ncols": 1, "cols": [{}]}
    two = {"ncols": 2, "cols": [{}, {}]}
    subs += [
        ("table", ["table", dict(one), [T("ab cd")]], ["add_row", "add_column"]),
        ("table", ["table", dict(two), []], ["add_row", "add_column"]),
        ("table", ["table", dict(two, expand=True), [T("a"), T("ab cd")]], ["add_row", "add_column"]),
        ("tree", ["tree", {"shape": "flat"}, [T("n0")]], ["add_root", "add_child"]),
        ("tree", ["tree", {"shape": "flat"}, [T("n0"), T("n1 x"), T("n2")]], ["add_root", "add_child"]),
        ("columns", ["columns", {}, [T("i0"), T("i1xx")]], ["add_renderable", "append"]),
        ("columns", ["columns", {"equal": True, "expand": True}, [T("i0"), T("i1xx")]], ["add_renderable", "append"]),
        ("group", ["group", {}, [T("g0"), T("g1\nz")]], ["append"]),
        ("group", ["group", {"fit": False}, [T("g0")]], ["append"]),
        ("panel", ["panel", {}, [T("ab cd")]], ["set_child"]),
        ("panel", ["panel", {"expand": False, "title": "ti"}, [T("ab cd")]], ["set_child"]),
        ("padding", ["padding", {"pad": [0, 2]}, [T("ab cd")]], ["set_child"]),
        ("padding", ["padding", {"expand": False}, [T("ab cd")]], ["set_child"]),
        ("align", ["align", {"align": "center"}, [T("ab cd")]], ["set_child"]),
        ("constrain", ["constrain", {"width": 4}, [T("ab cd")]], ["set_child"]),
        ("styled", ["styled", {}, [T("ab cd")]], ["set_child"]),
    ]
    return subs


def hist_mutate(obj, kind, mut, j):
    """apply the j-th mutation of a history to the real object through its public interface"""
    from rich.text import Text
    j4 = j % 4
    if kind == "text":
        if mut == "plain=":
            obj.plain = HIST_STR[j4]
        elif mut == "append":
            obj.append([" wxyz", gen.WIDE_IN, " q", "\n"][j4])
        elif mut == "append_text":
            obj.append_text(Text(" tt" + "u" * j4, style="bold"))
        elif mut == "append_tokens":
            obj.append_tokens([(" k", None), ("lm" * (j4 + 1), "red")])
        elif mut == "pad":
            obj.pad(2)
        elif mut == "pad_left":
            obj.pad_left(3)
        elif mut == "pad_right":
            obj.pad_right(3)
        elif mut == "truncate":
            obj.truncate(3)
        elif mut == "truncate_pad":
            obj.truncate(12, pad=True)
        elif mut == "truncate_ellipsis":
            obj.truncate(4, overflow="ellipsis")
        elif mut == "right_crop":
            obj.right_crop(1)
        elif mut == "set_length+":
            obj.set_length(len(obj) + 4)
        elif mut == "set_length-":
            obj.set_length(max(0, len(obj) - 2))
        elif mut == "align":
            obj.align("center", 14)
        elif mut == "expand_tabs":
            obj.expand_tabs(8)
        elif mut == "rstrip":
            obj.rstrip()
        elif mut == "rstrip_end":
            obj.rstrip_end(3)
        elif mut == "remove_suffix":
            obj.remove_suffix(obj.plain[-2:])
        elif mut == "stylize":
            obj.stylize("bold", 0, 2)
        else:
            raise ValueError(mut)
    elif kind == "table":
        if mut == "add_row":
            obj.add_row(*[Text(HIST_CELL[j4]) for _ in obj.columns])
        else:
            i = len(obj.columns)
            obj.add_column(gen.HEADERS[i % len(gen.HEADERS)], gen.FOOTERS[i % len(gen.FOOTERS)])
    elif kind == "tree":
        target = obj.children[0] if (mut == "add_child" and obj.children) else obj
        target.add(Text(HIST_STR[j4]))
    elif kind == "columns":
        if mut == "add_renderable":
            obj.add_renderable(Text(HIST_STR[j4]))
        else:
            obj.renderables.append(Text(HIST_STR[j4]))
    elif kind == "group":
        obj.renderables.append(Text(HIST_STR[j4]))
    else:
        obj.renderable = gen.build(_child_j(j))


def hist_apply(d, kind, mut, j):
    """the same mutation on the description, or None where the description format cannot express the result"""
    if d is None or kind == "text":
        return None
    k, o, kids = d
    j4 = j % 4
    if kind == "table":
        if mut == "add_row":
            if o["ncols"] == 0:
                return None
            return [k, o, kids + [gen.T(HIST_CELL[j4])] * o["ncols"]]
        if kids:
            return None         # a column added after rows has fewer cells than its siblings
        no = dict(o)
        no["ncols"] = o["ncols"] + 1
        no["cols"] = list(o["cols"]) + [{}]
        return [k, no, kids]
    if kind == "tree":
        if mut == "add_child" and len(kids) > 1:
            return None         # below the first child: not a "flat" tree any more
        return [k, o, kids + [gen.T(HIST_STR[j4])]]
    if kind in ("columns", "group"):
        return [k, o, kids + [gen.T(HIST_STR[j4])]]
    return [k, o, [_child_j(j)]]


SHARED_EVENTS = ("M1", "M2", "R", "hM", "hR")


def check_shared_history(case, res):
    from rich.console import RenderGroup
    from rich.measure import Measurement
    from rich.text import Text
    d, events = case["init"], case["events"]
    slot = gen.share_slot(d).split("+")[0]
    con = gen.make_console("utf8")
    A = HIST_A[events[-1]]
    s = d[2][1][1]["s"]
    try:
        bind = {}
        parts = [gen.build(k, bind) for k in d[2]]
        group = RenderGroup(*parts)
        m = None
        for ev in events:
            if ev in HIST_A:
                m = Measurement.get(con, group, HIST_A[ev])
            elif ev == "hM":
                Measurement.get(con, parts[0], HIST_A["M1"])
            else:
                for _ in con.render(group if ev == "R" else parts[0], con.options.update(width=HIST_W)):
                    pass
        want = Measurement.get(con, gen.build(d), A)
        mt = Measurement.get(con, bind["t"], HIST_A["M1"])
        want_t = Measurement.get(con, Text(s), HIST_A["M1"])
    except Exception as e:  # noqa: BLE001
        res.evaluations += 1
        res.violate("shared/%s/%s" % (slot, c01.crash_key(e)), case, "%s: %s" % (type(e).__name__, e))
        return
    res.evaluations += 1
    res.sig(("shared", slot.split(".")[0], len(events), events[-1], m[0] == m[1]), nontrivial=len(events) > 1)
    if tuple(m) != tuple(want):
        res.violate("shared/%s/measure-differs-from-copies" % slot, case,
                    "after %r Measurement.get(group, %d) = %r, the group of separate equal objects gives %r"
                    % (events, A, tuple(m), tuple(want)))
    prob = _range_problem(m, A)
    if prob:
        res.violate("shared/%s/range/%s" % (slot, prob), case, "after %r Measurement.get(group, %d) = %r"
                    % (events, A, tuple(m)))
    word, line = _ref(s)
    if tuple(mt) != tuple(want_t) or mt[1] != line or (word is not None and mt[0] != word):
        res.violate("shared/%s/text-measure-changed" % slot, case,
                    "after %r the shared Text(%r) measures %r (now %r), a fresh Text(%r) measures %r"
                    % (events, s, tuple(mt), bind["t"].plain, s, tuple(want_t)))


def gen_histories(tier):
    depth = HIST_DEPTH[tier]
    for d in gen.family_trees(gen._fam("SH", base="shared", dev=[0], alts=1, fixed=False)):
        for n in range(1, depth + 1):
            for evs in itertools.product(SHARED_EVENTS, repeat=n):
                if evs[-1] in HIST_A:
                    yield {"part": "history", "kind": "shared", "init": d, "events": list(evs)}
    for si, (kind, init, muts) in enumerate(hist_subjects()):
        alphabet = list(OBSERVERS) + list(muts)
        for n in range(1, depth + 1):
            for evs in itertools.product(alphabet, repeat=n):
                if evs[-1] in HIST_A:
                    yield {"part": "history", "kind": kind, "subject": si, "init": init, "events": list(evs)}


def check_history(case, res):
    from rich.measure import Measurement
    from rich.text import Text
    kind, init, events = case["kind"], case["init"], case["events"]
    if kind == "shared":
        return check_shared_history(case, res)
    con = gen.make_console("utf8")
    A = HIST_A[events[-1]]
    pattern = []
    try:
        obj, ref, mirror = gen.build(init), gen.build(init), init
        j, m = 0, None
        for ev in events:
            if ev in HIST_A:
                m = Measurement.get(con, obj, HIST_A[ev])
                pattern.append("O")
            elif ev == "R":
                for _ in con.render(obj, con.options.update(width=HIST_W)):
                    pass
                pattern.append("O")
            else:
                hist_mutate(obj, kind, ev, j)
                hist_mutate(ref, kind, ev, j)
                mirror = hist_apply(mirror, kind, ev, j)
                j += 1
                pattern.append("M")
        fresh = [("the mutators only", Measurement.get(con, ref, A))]
        if kind == "text":
            plain = ref.plain
            fresh.append(("Text(final plain)", Measurement.get(con, Text(plain, justify=ref.justify), A)))
        elif mirror is not None:
            fresh.append(("gen.build(final description)", Measurement.get(con, gen.build(mirror), A)))
    except Exception as e:  # noqa: BLE001
        res.evaluations += 1
        res.violate("history/%s/%s" % (kind, c01.crash_key(e)), case, "%s: %s" % (type(e).__name__, e))
        return
    res.evaluations += 1
    pat = "".join(pattern)
    stale_risk = "O" in pat and "M" in pat[pat.index("O"):]      # something was observed, then mutated
    res.sig(("history", kind, pat, events[-1], m[1] == A, m[0] == m[1]), nontrivial=stale_risk)
    for how, fm in fresh:
        if tuple(m) != tuple(fm):
            res.violate("history/%s/measure-differs-from-fresh" % kind, case,
                        "after %r Measurement.get(.., %d) = %r, an object built through %s gives %r"
                        % (events, A, tuple(m), how, tuple(fm)))
            break
    prob = _range_problem(m, A)
    if prob:
        res.violate("history/%s/range/%s" % (kind, prob), case, "after %r Measurement.get(.., %d) = %r"
                    % (events, A, tuple(m)))
        return
    if kind == "text":
        if "\t" not in plain:
            word, line = _ref(plain)
            if m[1] != min(line, A):
                res.violate("history/text/max", case, "after %r the text is %r, maximum %d, widest line %d cells"
                            % (events, plain, m[1], min(line, A)))
            elif word is not None and m[0] != min(word, A):
                res.violate("history/text/min", case, "after %r the text is %r, minimum %d, widest word %d cells"
                            % (events, plain, m[0], min(word, A)))
            elif line >= 1 and A >= line:
                got = gen.render_text_lines(con, obj, line)
                want = plain.split("\n")
                if [g.strip(" ") for g in got] != [w.strip(" ") for w in want]:
                    res.violate("history/text/wrap-at-max", case, "after %r the text %r rendered at its maximum %d "
                                "gives %r" % (events, plain, line, got))
        sm = 2 if any(sw(c) == 2 for c in plain) else 1
    elif mirror is not None:
        sm = max(1, struct_min(mirror))
    else:
        return
    for which, v in (("max", m[1]), ("min", m[0])):
        if v >= sm:
            ws = gen.render_widths(con, obj, v)
            if ws and max(ws) > v:
                res.violate("history/%s/fit" % kind, case, "after %r rendering at the reported %s %d gives a line of "
                            "%d cells" % (events, which, v, max(ws)))


# ------------------------------------------------------------------ protocol
def plan(tier, seed):
    shards = []
    per = TREES_PER_SHARD[tier]
    for fi, fam in enumerate(gen.families(tier, seed)):
        if _aset(tier, fam["name"]) is None:
            continue
        size = gen.family_size(fam)
        n = max(1, -(-size // per))
        shards += [{"part": "tree", "fam": fi, "name": fam["name"], "i": i, "n": n} for i in range(n)]
    shards += [{"part": "wrap", "wrapper": w, "i": i, "n": 2} for w in ("nomeasure", "cast") for i in range(2)]
    nt = 8 if tier == "quick" else 64
    shards += [{"part": "text", "i": i, "n": nt} for i in range(nt)]
    no = 4 if tier == "quick" else 16
    shards += [{"part": "textopt", "i": i, "n": no} for i in range(no)]
    nw = 2 if tier == "quick" else 16
    shards += [{"part": "textws", "i": i, "n": nw} for i in range(nw)]
    shards += [{"part": "str"}]
    shards += [{"part": "bars", "W": W} for W in BAR_WIDTHS_C09]
    nh = 4 if tier == "quick" else 32
    shards += [{"part": "history", "i": i, "n": nh} for i in range(nh)]
    return shards


def _wrap_family(tier):
    fam = dict(gen.families(tier, 0)[0])       # D1
    fam["dev"] = [0]
    if tier != "quick":
        fam["kids"] = 2
    return fam


def run_shard(sh, tier, seed):
    res = Result()
    i, n = sh.get("i", 0), sh.get("n", 1)
    part = sh["part"]
    if part == "tree":
        fam = gen.families(tier, seed)[sh["fam"]]
        aset = _aset(tier, fam["name"])
        for idx, d in enumerate(gen.family_trees(fam)):
            if idx % n != i:
                continue
            if deadline_passed():
                res.capped = True
                break
            check_tree(d, aset, res)
            if fam["name"] in ALL_CONSOLE_FAMILIES:
                for ckind in ("ascii", "legacy"):
                    check_tree(d, aset, res, ckind=ckind)
            res.count("trees")
            res.count("trees_" + fam["name"])
            if idx % 1999 == 0:
                res.sample({"part": "tree", "family": fam["name"], "tree": d, "struct_min": struct_min(d)})
    elif part == "wrap":
        for idx, d in enumerate(gen.family_trees(_wrap_family(tier))):
            if idx % n != i:
                continue
            if deadline_passed():
                res.capped = True
                break
            check_tree(gen.wrap_leaves(d, sh["wrapper"]), A_FULL, res)
            res.count("trees")
            res.count("trees_wrapped")
    elif part == "text":
        for idx, s in enumerate(_strings(TEXT_LEN[tier])):
            if idx % n != i:
                continue
            if deadline_passed():
                res.capped = True
                break
            check_text(s, A_FULL, res)
            res.count("strings")
            if idx % 4999 == 0:
                res.sample({"part": "text", "s": s})
    elif part == "textopt":
        for idx, s in enumerate(_strings(TEXT_OPT_LEN[tier])):
            if idx % n != i:
                continue
            if deadline_passed():
                res.capped = True
                break
            check_text(s, A_SHORT, res, wrapper="cast")
            for name, val in TEXT_OPTS:
                check_text(s, A_SHORT, res, opts={name: val})
            res.count("strings_with_options")
    elif part == "textws":
        k = 0
        for L in range(WS_LEN[tier] + 1):
            for tup in itertools.product(WS_SIGMA, repeat=L):
                k += 1
                if k % n != i:
                    continue
                check_text("".join(tup), A_SHORT, res)
                res.count("strings_ws")
    elif part == "str":
        for s_ in STR_MENU:
            for markup in (True, False):
                for emoji in (True, False):
                    check_str(s_, markup, emoji, res)
                    res.count("str_cases")
    elif part == "bars":
        for case in c01.bar_cases(sh["W"]):
            if case["console"] == "utf8":
                check_bar_measure(case, res)
                res.count("bar_cases")
    elif part == "history":
        for idx, case in enumerate(gen_histories(tier)):
            if idx % n != i:
                continue
            if deadline_passed():
                res.capped = True
                break
            check_history(case, res)
            res.count("histories")
            if idx % 2999 == 0:
                res.sample({k: case[k] for k in ("part", "kind", "init", "events")})
    return res


def describe(tier, seed, res):
    fams = [f for f in gen.families(tier, seed) if _aset(tier, f["name"]) is not None]
    parts = ["%s=%d trees (A-set of %d)" % (f["name"], res.counters.get("trees_" + f["name"], 0),
                                            len(_aset(tier, f["name"]))) for f in fams]
    return {
        "rule": (("tree part: families [%s] of vf/gen.py (definitions in gen.families.__doc__) plus %d D1 default-option "
                 "trees with every leaf wrapped in NoMeasure / Cast; A-sets: full = 0..24 u {40,80,200}, short = %s. "
                 "CON is measured / rendered on the utf8, ascii-only and legacy_windows consoles. textws: all strings over "
                 "{a, U+3042, NBSP, U+3000, U+2003, space, newline} up to length @WS@ x short A-set (a word "
                 "= maximal run of non-str.isspace characters). bars: Bar / ProgressBar on the 1/32-cell grid of C01 for W in "
                 "@BARS@ measured at A = W, rendered at the reported values. "
                 "text part: all %d strings over {a, space, U+115F-like wide range end, newline, b, U+036F-like zero-width range end} of length <= %d x full A-set, and "
                 "strings of length <= %d x short A-set x {Cast, 8 single Text options}. An evaluation is one "
                 "Measurement.get (or one wrap-at-maximum render); %d feedback renders were judged. Non-trivial: a "
                 "reported minimum / maximum at or above the structural minimum was fed back into a render, or a text whose "
                 "widest word differs from its widest line or is clamped by A. history part: %d subjects (7 Text x 19 "
                 "in-place mutators; Table, Tree, Columns, RenderGroup, Panel, Padding, Align, Constrain, Styled with their "
                 "public mutations) x every history of length <= %d over {measure at 100, measure at 3, render at 4, "
                 "mutator_i} ending in a measure, plus the 68 shared-argument groups of gen family SH x every history of the same "
                 "length over {measure group at 100 / at 3, render group, measure host, render host} ending in a group measure "
                 "= %d histories; non-trivial when a mutation follows a measure / render (shared: more than one event)."
                 % ("; ".join(parts), res.counters.get("trees_wrapped", 0), list(A_SHORT),
                    res.counters.get("strings", 0), TEXT_LEN[tier], TEXT_OPT_LEN[tier], res.counters.get("renders", 0),
                    len(hist_subjects()), HIST_DEPTH[tier], res.counters.get("histories", 0))
                 ).replace("@WS@", str(WS_LEN[tier])).replace("@BARS@", str(list(BAR_WIDTHS_C09)))),
        "assumptions": [
            "struct_min (vf/structmin.py) errs on the large side; reported values below it are not rendered",
            "a text without any word has no minimum clause; tabs are excluded from the text part",
            "for non-text renderables the statement demands only range and no-overflow at the reported values: a merely too small measurement is not judged",
            "tables have columns free to wrap (no fixed widths / min_width / no_wrap), as in C01",
        ],
        "coverage": {"trees": res.counters.get("trees", 0), "strings": res.counters.get("strings", 0),
                     "feedback_renders": res.counters.get("renders", 0),
                     "histories": res.counters.get("histories", 0)},
    }


def replay(case):
    res = Result()
    part = case.get("part")
    if part == "tree":
        check_tree(case["tree"], None, res, ckind=case.get("console", "utf8"), only_A=case["A"])
    elif part == "bars":
        check_bar_measure(case, res)
    elif part == "fit":
        c01.check_case(case["tree"], case["W"], case.get("console", "utf8"), res)
        return [("fit/" + k if not k.startswith("crash/") else k, v[2]) for k, v in sorted(res.violations.items())]
    elif part == "history":
        check_history(case, res)
    elif part == "str":
        check_str(case["s"], case["markup"], case["emoji"], res)
    elif part == "text":
        aset = [case["A"]] if "A" in case else []
        check_text(case["s"], aset, res, opts=case.get("opts") or None, wrapper=case.get("wrapper"))
        if "A" not in case:
            pass
    return [(k, v[2]) for k, v in sorted(res.violations.items())]
