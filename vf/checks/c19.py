"""C19 -- The ANSI decoder inverts the encoder, and redirected output is never lost.

Part 1, round trip (E1).  Styled lines (style alphabet of DESIGN section 3 C03/C19:
null, every attribute on/off, attribute pairs, 16 colour spellings of every kind as
foreground and background, K x K colour pairs, links -- one plain URL in all the
combinations plus 36 URLs (LINKS) that contain each character structural in the
surrounding escape syntax: ";" ":" "=" "\\" "[" "]" and "%" "#" "?" "&", in the middle,
at the end and doubled, and look-alikes of the OSC 8 "id=" parameter field inside the
URL such as "https://e.x/?id=7;x=1") are printed on a truecolor
terminal console; the bytes written are decoded by ``rich.ansi.AnsiDecoder().decode``
and, independently, by vf/term.py.  Per character (char, attributes that are on,
foreground, background, link) must equal what the *descriptions* say was printed.
  R1  every style alone on every text, followed by an unstyled character
  R2  every ordered pair over a sub-alphabet P as two consecutive runs (2 text pairs)
  RB  every ordered pair over P as base style of the Text + a span over its middle
  R3  every ordered triple over a smaller sub-alphabet M as three runs
Every stream is also decoded a second time by ONE AnsiDecoder kept for the whole
shard (decoder history): it must give the same answer as a fresh one.

Part 2, FileProxy (E2 histories).  A stream is a concatenation of <=3 lines of a line
alphabet (plain, empty, ANSI-styled, markup-like, emoji-code-like, number, wide, a
line that leaves an SGR state open), every line ended by a newline or the last left
open; a further alphabet LK holds "ab" and 16 OSC 8 hyperlink lines as other programs
write them (empty or id=9 parameter field, the structural-character URLs of LINKS), used
in 1-line (thorough also 2-line) streams with k=2 (thorough k=3) writes.  For each stream EVERY way of cutting it into k ``write()`` calls (cut points at
every character position, also inside escape sequences; empty writes included, which
covers fewer writes) x every placement of <=f ``flush()`` calls in the gaps (also twice
in the same gap) is executed on a fresh ``FileProxy(console, sink)``; then a closing
flush, then one more.  (k, f) per stream set, see stream_sets():
  quick    1-line streams k=4 f<=2; <=2-line streams k=4 f<=1 and k=3 f<=2; 3-line
           streams k=2 f<=1 and k=3 f=0
  thorough <=3-line streams over the 5-line core alphabet k=4 f<=2; <=2-line streams
           over all 9 lines k=4 f<=2 and (core) k=5 f<=1; 3-line streams over 9 lines
           k=3 f<=1; <=2-line streams incl. SGR 22 / OSC 8 lines k=3 f<=2
After EVERY call
the console output is decoded with vf/term.py and compared with a reference proxy
(pending text = written text since the last newline / flush):
  * the visible characters printed so far, newlines removed, are exactly the visible
    characters of the emitted part of the stream -- each once, in order -- and each has
    the style the escape sequences of the stream give it on a terminal (SGR state
    carried across lines);
  * every newline of the stream is a line break in the output; additional breaks only
    where a flush emitted a partial line (the statement does not say whether a flushed
    partial line is followed by a newline: both are accepted);
  * a flush leaves nothing pending; nothing reaches the wrapped file; no exception.
A flush that falls strictly inside an escape sequence has no defined meaning for the
styling; from that call on the history is only run for exceptions.
The same histories are run end to end: ``with Live(..., auto_refresh=False)`` /
``with Progress(..., auto_refresh=False)`` on a terminal console, the chunks written
with builtin ``print(chunk, end="")`` to the redirected sys.stdout / ``sys.stderr.write``
(and alternating between both), the file replayed on the vf/term.py Screen and the
rows above the live frame read back.

Part 3, foreign ANSI through ONE decoder instance (decoder history, E1).  What other programs
write and rich never does: OSC 8 hyperlinks with an empty parameter field, id=1 / id=2 / another
parameter, ST or BEL terminated, to two targets; closes with and without parameters, closes
without an open; links spanning a line end, SGR on / SGR reset inside a link.  Streams = all
sequences of 1, 2 and 3 segments "[open] inner [close] sep" over these menus (so: several links
with equal params and different targets, re-opened links, an id reused for another target), decoded
by ONE ``AnsiDecoder().decode`` and compared per character with vf/term.py's Decoder on the same
bytes (a hyperlink is not an SGR attribute: SGR 0 does not close it).  The FileProxy part has the
line alphabet LF (id-less links to two targets, one id for two targets, a link left open over the
line end, a close without open, two links on one line) cut across write() calls like the others.

Part 4, foreign SGR through ONE decoder instance (E1 + decoder history).  Sequences of 1, 2 and 3
SGR escape sequences, each followed by one character, over an alphabet of 105 PARAMETER LISTS:
every attribute-on code, every attribute-off code (22..29, 54, 55), "0" and the empty list,
38;5;n / 48;5;n for n in {0, 1, 196}, 38;2;r;g;b / 48;2;r;g;b with every component in {0, 128, 255},
basic colours and 39 / 49, combined lists (1;38;2;0;0;0, 0;1, 1;0, ...), truncated lists
(38;5, 38;2;0;0, 38, 48;2), unknown codes; three layouts (one line / one sequence per line, i.e. the
state crosses decode_line calls / per line inside an open OSC 8 link); driven through one
``AnsiDecoder().decode`` and through a FileProxy (one write per line).  All pairs over the full
alphabet, all triples over a 24-list (thorough 45-list) sub-alphabet.  Oracle: vf/term.py Decoder on
the same bytes (palette entries 0-15 of 38;5;n are the standard colours).  Finding key =
``sgr/<decoder|proxy>/after-<class of the parameter list after which the first character differs>``.

Measured (the machine was shared with ~15 other jobs, load average 60-120, so wall times are
upper bounds; CPU cost is ~0.65 ms per history and ~1.2 ms per round-trip line when unloaded):
  quick    278,283 judged cases (35.5 k lines + 242.8 k histories, 1.20 M write/flush calls),
           1,407 distinct outcomes, 150 s wall with 16 workers under load (est. 15-25 s idle)
  thorough 5,079,478 judged cases (233.7 k lines + 4.85 M histories, 26.7 M calls),
           1,626 distinct outcomes, 45 min wall with 16 workers under load (est. 4-6 min idle)
"""
import collections
import io
import itertools
import os
import sys

from ..par import Result, deadline_passed
from ..refstyle import ATTRS, RefStyle
from ..term import ESC, Screen, decode, tokenize

ID = "C19"
LEVEL = "exploration"
ENGINE = "E1+E2"
CAP_S = {"quick": 600, "thorough": 3600}
TECHNIQUE = ("bounded-exhaustive enumeration on the real code: every styled line in scope through encoder and two "
             "independent decoders; every chunking of every stream in scope into write()/flush() histories on the real "
             "FileProxy (bare and through Live/Progress redirection), judged after every call by a reference proxy and "
             "an independent terminal model")
LEVEL_TEXT = ("Every styled line of the stated alphabet is printed for real and decoded by Rich's decoder and by an "
              "independent decoder; every write/flush history inside the stated bounds (all cut positions, empty writes, "
              "flush placements) is executed on the real FileProxy and compared call by call with a reference model. "
              "Exhaustive inside the stated bounds; nothing is sampled.")
LEVEL_NOTE = ("Trusted: CPython, vf/term.py (tokeniser, SGR/OSC-8 decoder, Screen; selftested), vf/refstyle.py, the "
              "150-line reference proxy in vf/checks/c19.py. Bounds: <=3 styled runs per line; streams of <=3 lines over "
              "a 9(+2)-line alphabet; <=4 (thorough <=5) writes; <=2 flushes + closing flushes.")

LINK = "https://e.x/a?b=c"
# Link universe: URLs containing every character that is structural in the syntax around a link --
# OSC 8 ";" parameter separator, ":" and "=" of the id=... parameter, "\\" of the ST terminator,
# "[" "]" "m" "8" of CSI / OSC introducers and the SGR final byte -- and the usual URL punctuation
# "%", "#", "?", "&"; each in the middle, at the end and doubled; plus look-alikes of the OSC 8
# parameter field inside the URL.  No ESC / BEL inside a URL (those cannot be carried by OSC 8).
LINK_CHARS = [";", ":", "=", "\\", "%", "#", "?", "&", "[", "]"]
LINKS_MID = ["https://e.x/a%sb" % ch for ch in LINK_CHARS]
LINKS_ALIKE = ["https://e.x/?id=7;x=1", "https://e.x/app;jsessionid=A1?x=1", "https://e.x/q?a=1;b=2;c=3",
               "https://e.x/;id=7", "https://e.x/8;;m", "http://u:p@e.x:8080/p%20q?a=1&b=2#f"]
LINKS = (LINKS_MID + LINKS_ALIKE + ["https://e.x/a%s" % ch for ch in LINK_CHARS]
         + ["https://e.x/a%s%sb" % (ch, ch) for ch in LINK_CHARS])
NULLVIS = ((), None, None, None)
W, H = 80, 50
MARK = "=#="

# =========================================================================== part 1
K_QUICK = [None, "default", "color(1)", "color(9)", "color(0)", "color(7)", "color(8)", "color(15)",
           "color(16)", "color(100)", "color(232)", "color(255)",
           "#000000", "#010203", "#ff8700", "#808080"]
K_MORE = ["color(4)", "color(12)", "color(17)", "color(231)", "color(244)", "color(196)",
          "#ffffff", "#ff0000", "#0000ff", "#7f7f7f", "#c0c0c0", "#123456", "#fe0101", "#00ff7f"]
TEXTS = ["x", "ab", "あb", "a b", "a\nb"]

_ORDER = {a: i for i, a in enumerate(ATTRS)}


def _sd(attrs=(), fg=None, bg=None, link=None):
    """style description -- plain data: (((attr, bool), ...), fg spec, bg spec, link)"""
    return (tuple(sorted(((a, bool(v)) for a, v in attrs), key=lambda x: _ORDER[x[0]])), fg, bg, link)


def universe(tier):
    """the style alphabet, simplest first, no duplicates (~1.3 k quick, ~7 k thorough)"""
    seen, out = set(), []

    def add(sd):
        if sd not in seen:
            seen.add(sd)
            out.append(sd)

    add(_sd())
    for a in ATTRS:
        add(_sd([(a, True)]))
    for a in ATTRS:
        add(_sd([(a, False)]))
    K = K_QUICK if tier == "quick" else K_QUICK + K_MORE
    for c in K:
        add(_sd(fg=c))
    for c in K:
        add(_sd(bg=c))
    add(_sd(link=LINK))
    for a in ATTRS:
        add(_sd([(a, True)], link=LINK))
    for c in K:
        add(_sd(fg=c, link=LINK))
        add(_sd(bg=c, link=LINK))
    add(_sd([("bold", False)], link=LINK))
    add(_sd([("bold", True), ("underline", True)], fg="#ff8700", bg="color(100)", link=LINK))
    for u in LINKS:
        add(_sd(link=u))
        add(_sd([("bold", True)], fg="#ff8700", link=u))
    for a, b in itertools.combinations(ATTRS, 2):
        for va, vb in ((True, True), (True, False), (False, True)):
            add(_sd([(a, va), (b, vb)]))
    for fixed in ((), (("italic", True),)):
        for f in K:
            for b in K:
                add(_sd(fixed, fg=f, bg=b))
    if tier != "quick":
        for a, b, c in itertools.combinations(ATTRS, 3):
            for vals in ((True, True, True), (True, True, False), (True, False, True), (False, True, True)):
                add(_sd(zip((a, b, c), vals)))
        add(_sd([(a, True) for a in ATTRS]))
        add(_sd([(a, True) for a in ATTRS], fg="#ff8700", bg="color(9)", link=LINK))
        add(_sd([(a, False) for a in ATTRS]))
    return out


def pair_menu(tier):
    """P: null, every attribute on, a few off, every colour kind as fg and as bg, links, mixes (93 quick)"""
    out = [_sd()]
    out += [_sd([(a, True)]) for a in ATTRS]
    out += [_sd([(a, False)]) for a in ("bold", "dim", "underline", "reverse")]
    K = [k for k in K_QUICK if k]
    out += [_sd(fg=c) for c in K] + [_sd(bg=c) for c in K]
    out += [_sd(link=LINK), _sd(link="http://o.th/er"),
            _sd([("bold", True)], fg="#010203", link=LINK),
            _sd([("italic", True), ("underline", True)], fg="color(232)"),
            _sd([("dim", True), ("strike", True)], bg="color(9)"),
            _sd(fg="#ff8700", bg="#010203"), _sd(fg="default", bg="default"),
            _sd([("bold", True), ("dim", True)]), _sd([("frame", True), ("encircle", True)]),
            _sd([("underline", True), ("underline2", True)]), _sd([("blink", True), ("blink2", True)]),
            _sd([("overline", True)], bg="color(100)"),
            _sd([(a, True) for a in ATTRS], fg="color(9)", bg="#808080", link=LINK)]
    out += [_sd([(a, False)]) for a in ATTRS if a not in ("bold", "dim", "underline", "reverse")]
    out += [_sd(link=u) for u in LINKS_MID + LINKS_ALIKE]
    out += [_sd(fg=c, link=LINK) for c in ("default", "color(9)", "color(100)", "#ff8700")]
    out += [_sd(bg=c, link=LINK) for c in ("default", "color(1)", "color(232)", "#010203")]
    out += [_sd([("bold", False), ("italic", True)]), _sd([("underline", False)], fg="color(7)"),
            _sd([("reverse", True)], fg="#808080", bg="color(0)"), _sd([("conceal", True)], link=LINK),
            _sd([("strike", True), ("overline", True)], fg="color(255)"), _sd(fg="color(15)", bg="color(8)"),
            _sd(fg="#000000", bg="#808080"), _sd([("blink", True)], fg="default"), _sd([("dim", False)], bg="default"),
            _sd([("italic", True)], fg="color(16)", bg="color(255)")]
    if tier != "quick":
        out += [_sd(fg=c) for c in K_MORE] + [_sd(bg=c) for c in K_MORE]
        out += [_sd(fg=c, link=LINK) for c in K_QUICK + K_MORE if c]
        out += [_sd([(a, True), (b, True)]) for a, b in itertools.combinations(ATTRS, 2)]
    seen, res = set(), []
    for sd in out:
        if sd not in seen:
            seen.add(sd)
            res.append(sd)
    return res


def triple_menu(tier):
    out = [_sd(), _sd([("bold", True)]), _sd([("bold", False)]), _sd([("italic", True), ("underline", True)]),
           _sd(fg="color(1)"), _sd(fg="color(9)"), _sd(bg="color(100)"), _sd(fg="#ff8700", bg="#010203"),
           _sd(link=LINK), _sd([("bold", True)], fg="#010203", link=LINK), _sd(fg="default", bg="default"),
           _sd([("dim", True), ("strike", True)], bg="color(9)"), _sd([("reverse", True)], fg="#808080"),
           _sd(link="http://o.th/er"), _sd([("underline2", True)], fg="color(232)"), _sd(bg="#000000"),
           _sd(link=LINKS_MID[0]), _sd([("italic", True)], link=LINKS_ALIKE[0])]
    if tier != "quick":
        out += [_sd([(a, True)]) for a in ATTRS if a != "bold"]
        out += [_sd(fg="color(16)"), _sd(bg="color(255)"), _sd(bg="color(15)"), _sd(fg="color(0)"),
                _sd([("conceal", True)], link=LINK), _sd([(a, True) for a in ATTRS])]
    return out


R2_TEXTS = [("x", "ab"), ("あb", "a\nb")]
R3_TEXTS = [("x", "あb", "a b"), ("a\nb", "x", "ab")]


def _spec_color(spec):
    """colour spelling -> what its SGR means on a truecolor terminal (independent of rich.color)"""
    if spec is None:
        return None
    if spec == "default":
        return ("default",)
    if spec.startswith("color("):
        n = int(spec[6:-1])
        return ("std", n) if n < 16 else ("idx", n)
    if spec.startswith("#"):
        return ("rgb", int(spec[1:3], 16), int(spec[3:5], 16), int(spec[5:7], 16))
    raise ValueError(spec)


def _ref(sd):
    if sd is None:
        return RefStyle()
    attrs, fg, bg, link = sd
    return RefStyle(dict(attrs), _spec_color(fg), _spec_color(bg), link)


def _mk_style(sd):
    from rich.style import Style
    attrs, fg, bg, link = sd
    return Style(color=fg, bgcolor=bg, link=link, **dict(attrs))


def _console(width=W, height=H, cls=None):
    from rich.console import Console
    return (cls or Console)(file=io.StringIO(), width=width, height=height, force_terminal=True, color_system="truecolor",
                   legacy_windows=False, _environ={}, get_time=lambda: 0.0)


def _crash_key(exc, prefer="file_proxy.py"):
    import traceback
    tb = traceback.extract_tb(exc.__traceback__)
    where = None
    rich_dir = os.sep + "rich" + os.sep
    for fr in tb:
        if rich_dir in fr.filename and os.path.basename(fr.filename) == prefer:
            where = "%s:%s" % (prefer, fr.name)       # the API call that failed
    if where is None:
        for fr in reversed(tb):
            if rich_dir in fr.filename:
                where = "%s:%s" % (os.path.basename(fr.filename), fr.name)
                break
    return "crash/%s/%s" % (type(exc).__name__, where or "?")


def _split_lines(cells):
    """cells with '\n' entries -> list of lines (a trailing newline ends the last line)"""
    lines, cur = [], []
    for c in cells:
        if c[0] == "\n":
            lines.append(cur)
            cur = []
        else:
            cur.append(c)
    if cur:
        lines.append(cur)
    return lines


def _rich_cells(text):
    """per character (char, visible) of a decoded rich Text -- spans folded here, in list order"""
    from rich.style import Style

    def rs(st):
        if st is None or st == "":
            return RefStyle()
        if isinstance(st, str):
            st = Style.parse(st)
        return RefStyle.from_rich(st)

    plain = text.plain
    per = [rs(text.style)] * len(plain)
    for span in text.spans:
        r = rs(span.style)
        for i in range(max(0, span.start), min(len(plain), span.end)):
            per[i] = per[i] + r
    return [(ch, per[i].visible()) for i, ch in enumerate(plain)]


_FIELD = ("attrs", "color", "bgcolor", "link")


def _diff_lines(got, want):
    """-> None or (clause, message) comparing lists of lines of (char, visible)"""
    if len(got) != len(want):
        return ("line-count", "%d lines decoded, %d printed" % (len(got), len(want)))
    for ln, (g, w) in enumerate(zip(got, want)):
        if [c for c, _ in g] != [c for c, _ in w]:
            return ("chars", "line %d: decoded %r, printed %r" % (ln, "".join(c for c, _ in g), "".join(c for c, _ in w)))
        for i, ((c, gv), (_, wv)) in enumerate(zip(g, w)):
            if gv != wv:
                for f, a, b in zip(_FIELD, gv, wv):
                    if a != b:
                        return (f, "line %d char %d %r: decoded %s=%r, printed %r" % (ln, i, c, f, a, b))
    return None


def _kind(c):
    return "-" if c is None else c[0]


def check_line(case, res, shared=None):
    """case: {"part":"rt","mode":..,"runs":[[text, sd|None],...],"base": sd|None}"""
    from rich.ansi import AnsiDecoder
    from rich.text import Text
    runs = [(t, sd) for t, sd in case["runs"]]
    base = case.get("base")
    mode = case["mode"]
    res.evaluations += 1
    # what was printed, from the descriptions
    want_cells = []
    rbase = _ref(base)
    for t, sd in runs:
        v = (rbase + _ref(sd)).visible()
        want_cells.extend((ch, v) for ch in t)
    want = _split_lines(want_cells)
    try:
        console = _console()
        text = Text(style=_mk_style(base) if base is not None else "")
        for t, sd in runs:
            text.append(t, _mk_style(sd) if sd is not None else None)
        console.print(text)
        out = console.file.getvalue()
    except Exception as e:
        res.violate(_crash_key(e, "console.py"), case, "printing: %r" % (e,))
        return
    # independent decoder
    hcells, controls, hd = decode(out)
    href = _split_lines(hcells)
    herr = None
    if controls or hd.unknown:
        herr = ("unknown-sequence", "controls %r unknown %r in %r" % (controls[:3], hd.unknown[:3], out))
    else:
        herr = _diff_lines(href, want)
    if herr is None and not hd.is_null():
        herr = ("state-leak", "terminal state after the line is %r: %r" % (hd.visible(), out))
    # rich decoder
    try:
        dec = AnsiDecoder()
        got = [_rich_cells(t) for t in dec.decode(out)]
    except Exception as e:
        res.violate(_crash_key(e, "ansi.py"), case, "decoding %r: %r" % (out, e))
        return
    rerr = _diff_lines(got, want)
    if herr is not None:
        # the stream itself does not mean what was printed: the encoder's side (property C03)
        res.violate("roundtrip/encoder/" + herr[0], case, "vf/term.py reads %r differently: %s" % (out, herr[1]))
    elif rerr is not None:
        res.violate("roundtrip/rich-decoder/" + rerr[0], case, "%s; stream %r" % (rerr[1], out))
    if herr is None and rerr is None and got != href:
        res.violate("roundtrip/decoders-disagree", case, "rich %r, vf/term.py %r" % (got, href))
    if shared is not None:
        try:
            again = [_rich_cells(t) for t in shared.decode(out)]
        except Exception as e:
            res.violate(_crash_key(e, "ansi.py"), case, "decoding with a reused decoder %r: %r" % (out, e))
            return
        if again != got:
            res.violate("roundtrip/decoder-history-dependent", case,
                        "fresh decoder %r, reused decoder %r, stream %r" % (got, again, out))
    vis = set(v for _, v in want_cells)
    res.sig((mode, len(want),
             tuple(sorted(set(_kind(v[1]) for v in vis))), tuple(sorted(set(_kind(v[2]) for v in vis))),
             min(2, max(len(v[0]) for v in vis)), any(v[3] for v in vis), rerr is None and herr is None),
            nontrivial=any(v != NULLVIS for v in vis))


def _rt_cases(part, tier):
    """descriptions of part-1 cases, deterministic order"""
    if part == "R1":
        for sd in universe(tier):
            for t in TEXTS:
                yield {"part": "rt", "mode": "R1", "runs": [[t, sd], [".", None]]}
    elif part == "R2":
        P = pair_menu(tier)
        for a in P:
            for b in P:
                for t1, t2 in R2_TEXTS:
                    yield {"part": "rt", "mode": "R2", "runs": [[t1, a], [t2, b]]}
    elif part == "RB":
        P = pair_menu(tier)
        for a in P:
            for b in P:
                yield {"part": "rt", "mode": "RB", "base": a, "runs": [["a", None], ["あ b", b], ["c\nd", None]]}
    elif part == "R3":
        M = triple_menu(tier)
        for a in M:
            for b in M:
                for c in M:
                    for t1, t2, t3 in R3_TEXTS:
                        yield {"part": "rt", "mode": "R3", "runs": [[t1, a], [t2, b], [t3, c]]}


def _part_rt(sh, tier, res):
    from rich.ansi import AnsiDecoder
    shared = AnsiDecoder()
    for idx, case in enumerate(_rt_cases(sh["sub"], tier)):
        if idx % sh["n"] != sh["i"]:
            continue
        if idx % 256 == sh["i"] and deadline_passed():
            res.capped = True
            break
        check_line(case, res, shared)
        if idx % 4999 == 0:
            res.sample(case)


# =========================================================================== part 2
L5 = ["ab", "", "\x1b[1mB\x1b[0m c", "[b]x", "あ"]
L9 = L5 + [":a:", "[/b]y", "7", "\x1b[31mR"]
L11 = L9 + ["\x1b[1;4mU\x1b[22mV\x1b[0m", "\x1b]8;;http://a\x1b\\L\x1b]8;;\x1b\\"]
# OSC 8 lines as other programs write them: empty parameter field or an id=... parameter, ST terminated
LK = ["ab"] + ["\x1b]8;%s;%s\x1b\\L\x1b]8;;\x1b\\" % ("" if i % 2 == 0 else "id=9", u)
               for i, u in enumerate(LINKS_MID + LINKS_ALIKE)]
# Foreign hyperlink lines (not what rich writes): id-less links to two targets, one id used for two
# targets, a link left open at the end of the line, a close without an open, two links on one line
# without a close in between.  ST terminated, no SGR inside: the decoder-only part FD covers the rest.
U1, U2 = "http://a/1", "http://b/2"
ST, BEL = "\x1b\\", "\x07"


def _osc8(params, url, term=ST):
    return "\x1b]8;%s;%s%s" % (params, url, term)


LF = ["ab",
      _osc8("", U1) + "L" + _osc8("", ""), _osc8("", U2) + "M" + _osc8("", ""),
      _osc8("id=1", U1) + "N" + _osc8("", ""), _osc8("id=1", U2) + "P" + _osc8("", ""),
      _osc8("", U1) + "Q", _osc8("", "") + "R",
      _osc8("", U1) + "S" + _osc8("", U2) + "T" + _osc8("", "")]
ALPHABETS = {"L5": L5, "L9": L9, "L11": L11, "LK": LK, "LF": LF}


def streams(alpha, minlines, maxlines):
    L = ALPHABETS[alpha]
    for n in range(minlines, maxlines + 1):
        for tup in itertools.product(L, repeat=n):
            for open_ in (False, True):
                yield "\n".join(tup) + ("" if open_ else "\n")


def cut_tuples(n, writes):
    """all 0 <= c1 <= ... <= c_{writes-1} <= n"""
    return itertools.combinations_with_replacement(range(n + 1), writes - 1)


def flush_placements(writes, maxflush):
    """flushes in the gaps after write 1..writes-1 (the closing flushes follow every history)"""
    gaps = list(range(1, writes))
    out = [()]
    if maxflush >= 1:
        out += [(g,) for g in gaps]
    if maxflush >= 2:
        out += [(g, g) for g in gaps]
        out += list(itertools.combinations(gaps, 2))
    return out


# stream sets: (name, variant, alphabet, minlines, maxlines, writes, maxflush, targets)
def stream_sets(tier):
    if tier == "quick":
        return [
            ("A1", "bare", "L9", 1, 1, 4, 2, ["o"]),
            ("A", "bare", "L5", 1, 2, 4, 1, ["o"]),
            ("A9", "bare", "L9", 1, 2, 3, 2, ["o"]),
            ("B2", "bare", "L5", 3, 3, 2, 1, ["o"]),
            ("B3", "bare", "L5", 3, 3, 3, 0, ["o"]),
            ("C", "live", "L9", 1, 2, 3, 1, ["o"]),
            ("Ce", "live", "L5", 1, 2, 2, 1, ["e"]),
            ("D", "progress", "L5", 1, 2, 2, 1, ["o", "e"]),
            ("E", "live", "L5", 1, 2, 3, 0, ["oeo", "eoe", "ooe", "eeo"]),
            ("K", "bare", "LK", 1, 1, 2, 1, ["o"]),
            ("Kl", "live", "LK", 1, 1, 2, 0, ["o"]),
            ("LF", "bare", "LF", 1, 2, 2, 1, ["o"]),
            ("LFl", "live", "LF", 2, 2, 2, 0, ["o"]),
            ("No", "live+outer-o", "L5", 1, 2, 2, 0, ["o", "e"]),
            ("Ne", "live+outer-e", "L5", 1, 2, 2, 0, ["o", "e"]),
            ("Np", "progress+outer-o", "L5", 1, 1, 2, 0, ["e", "oe"]),
        ]
    return [
        ("A", "bare", "L5", 1, 3, 4, 2, ["o"]),
        ("A9", "bare", "L9", 1, 2, 4, 2, ["o"]),
        ("A9x", "bare", "L9", 3, 3, 3, 1, ["o"]),
        ("B", "bare", "L5", 1, 2, 5, 1, ["o"]),
        ("F", "bare", "L11", 1, 2, 3, 2, ["o"]),
        ("C", "live", "L9", 1, 2, 3, 2, ["o", "e"]),
        ("C4", "live", "L9", 1, 2, 4, 0, ["o"]),
        ("D", "progress", "L9", 1, 2, 3, 1, ["o", "e"]),
        ("E", "live", "L5", 1, 2, 3, 1, ["oeo", "eoe", "ooe", "eeo", "oee", "eoo"]),
        ("K", "bare", "LK", 1, 1, 3, 1, ["o"]),
        ("K2", "bare", "LK", 2, 2, 2, 1, ["o"]),
        ("Kl", "live", "LK", 1, 1, 2, 1, ["o", "e"]),
        ("LF", "bare", "LF", 1, 2, 3, 1, ["o"]),
        ("LF3", "bare", "LF", 3, 3, 2, 0, ["o"]),
        ("LFl", "live", "LF", 1, 2, 2, 1, ["o", "e"]),
        ("No", "live+outer-o", "L5", 1, 2, 3, 1, ["o", "e", "oe", "eo"]),
        ("Ne", "live+outer-e", "L5", 1, 2, 3, 1, ["o", "e", "oe", "eo"]),
        ("Np", "progress+outer-o", "L5", 1, 2, 2, 1, ["o", "e", "oe"]),
    ]


class _Prep:
    """everything the reference needs about the text written to ONE target"""
    __slots__ = ("text", "cells", "vis", "inesc")

    def __init__(self, text):
        self.text = text
        cells, controls, d = decode(text)
        self.cells = [c for c in cells if c[0] != "\n"]      # visible characters with terminal styling
        self.vis = []        # vis[i] = number of visible characters in text[:i]
        self.inesc = []      # inesc[i] = offset i lies strictly inside an escape sequence
        for i in range(len(text) + 1):
            toks, rest = tokenize(text[:i])
            self.vis.append(sum(1 for t in toks if t[0] == "text"))
            self.inesc.append(rest != "")


_PREP = {}


def _prep(text):
    p = _PREP.get(text)
    if p is None:
        if len(_PREP) > 4000:
            _PREP.clear()
        p = _PREP[text] = _Prep(text)
    return p


def _link_clause(got, want):
    """only the hyperlink differs: which way"""
    if want is None:
        return "link-added"
    return "link-lost" if got is None else "link-wrong"


def _cls(text):
    """coarse class of the text an operation had to emit (for finding keys)"""
    if ESC + "]" in text and "\x07" in text:
        return "osc-bel"
    if ESC in text:
        return "ansi"
    if "[" in text:
        return "bracket"
    if ":" in text:
        return "colon"
    if any(ch.isdigit() for ch in text):
        return "digit"
    if text.strip("\n") == "":
        return "empty"
    if not text.isascii():
        return "wide"
    return "plain"


class RefProxy:
    """reference model of the redirected files: per target the text written so far and the
    start of the pending (not yet emitted) part; one shared list of emitted units."""

    def __init__(self, totals):
        self.prep = {t: _prep(s) for t, s in totals.items()}
        self.written = {t: 0 for t in totals}
        self.emitted = {t: 0 for t in totals}
        self.cells = []          # expected visible characters, emission order
        self.line_breaks = collections.Counter()   # position (visible chars before it) -> count
        self.flush_breaks = collections.Counter()
        self.units = 0
        self.partials = 0
        self.mid_escape = False

    def _emit(self, t, end, kind):
        p = self.prep[t]
        a = self.emitted[t]
        self.cells.extend(p.cells[p.vis[a]:p.vis[end]])
        (self.line_breaks if kind == "line" else self.flush_breaks)[len(self.cells)] += 1
        self.emitted[t] = end
        self.units += 1
        if kind != "line":
            self.partials += 1

    def write(self, t, chunk):
        """-> text this call had to emit"""
        p = self.prep[t]
        a0 = self.emitted[t]
        self.written[t] += len(chunk)
        assert p.text[:self.written[t]].endswith(chunk)
        while True:
            nl = p.text.find("\n", self.emitted[t], self.written[t])
            if nl < 0:
                break
            self._emit(t, nl + 1, "line")
        return p.text[a0:self.emitted[t]]

    def flush(self, t):
        p = self.prep[t]
        a0 = self.emitted[t]
        if self.written[t] > a0:
            if p.inesc[self.written[t]]:
                self.mid_escape = True
            self._emit(t, self.written[t], "partial")
        return p.text[a0:self.emitted[t]]

    def pending(self, t):
        return self.prep[t].text[self.emitted[t]:self.written[t]]


def _judge(model, got_cells, got_breaks):
    """-> None or (clause, message)"""
    want = model.cells
    gch = [c for c, _ in got_cells]
    wch = [c for c, _ in want]
    if gch != wch:
        return ("chars", "printed %r, written and due %r" % ("".join(gch), "".join(wch)))
    for i, ((c, gv), (_, wv)) in enumerate(zip(got_cells, want)):
        if gv != wv:
            if gv[:3] == wv[:3]:
                clause = _link_clause(gv[3], wv[3])
            else:
                clause = "style-added" if wv == NULLVIS else "style-lost"
            return (clause, "character %d %r shows %r, the stream says %r" % (i, c, gv, wv))
    lb, fb = model.line_breaks, model.flush_breaks
    for pos in set(lb) | set(got_breaks):
        g = got_breaks.get(pos, 0)
        if g < lb.get(pos, 0):
            return ("lines", "line break after %d visible characters missing (%d of %d): lines joined or lost"
                    % (pos, g, lb.get(pos, 0)))
        if g > lb.get(pos, 0) + fb.get(pos, 0):
            return ("lines", "%d line breaks after %d visible characters, the stream has %d (+%d flushed partials)"
                    % (g, pos, lb.get(pos, 0), fb.get(pos, 0)))
    return None


_DEC_CACHE = {}


def _observe_bare(out):
    r = _DEC_CACHE.get(out)
    if r is None:
        if len(_DEC_CACHE) > 20000:
            _DEC_CACHE.clear()
        cells, controls, d = decode(out)
        flat, breaks = [], collections.Counter()
        for c in cells:
            if c[0] == "\n":
                breaks[len(flat)] += 1
            else:
                flat.append(c)
        # anything that is neither text nor SGR/OSC-8 counts as a foreign character
        for t in controls:
            flat.append(("<%s>" % (t[0],), NULLVIS))
        if d.unknown:
            flat.append(("<unknown-sgr>", NULLVIS))
        r = _DEC_CACHE[out] = (flat, breaks)
    return r


def _observe_screen(screen):
    """rows above the live frame -> (cells, breaks)"""
    rows = screen.sb + screen.rows
    lines = []
    for row in rows:
        cells = [(ch, NULLVIS if st is None else st) for ch, st in row if ch != ""]
        n = len(row_trim(row))
        lines.append(cells[:n])
    while lines and not lines[-1]:
        lines.pop()
    if lines and "".join(c for c, _ in lines[-1]) == MARK:
        lines.pop()
    flat, breaks = [], collections.Counter()
    for ln in lines:
        flat.extend(ln)
        breaks[len(flat)] += 1
    return flat, breaks


def row_trim(row):
    """cells of a screen row (continuation cells of wide characters dropped) without the
    never-written blanks at the end"""
    cells = [(ch, st) for ch, st in row if ch != ""]
    while cells and cells[-1][1] is None and cells[-1][0] == " ":
        cells.pop()
    return cells


class _Sink(io.StringIO):
    """the wrapped file of a proxy; must stay empty"""


def run_history(variant, ops, res=None, case=None):
    """Executes ops = [["w", target, chunk] | ["f", target]] (+ two closing flushes per target)
    on the real code, judging after every call. Returns (verdict, info) where verdict is
    None or (key, detail); info is a dict for signatures / state counting."""
    totals = {}
    for op in ops:
        if op[0] == "w":
            totals[op[1]] = totals.get(op[1], "") + op[2]
        else:
            totals.setdefault(op[1], "")
    targets = sorted(totals, reverse=True)            # 'o' before 'e'
    full = [tuple(op) for op in ops]
    for rnd in ("close", "again"):
        for t in targets:
            full.append(("f", t, rnd))
    model = RefProxy(totals)
    info = {"ops": 0, "states": set(), "mid_escape": False, "emptyflush": False}
    prefix = "proxy" if variant == "bare" else "e2e"
    console = _console()
    sinks = {"o": _Sink(), "e": _Sink()}

    def step(do_op, observe):
        """runs all operations; do_op(op) performs one on the real objects"""
        for op in full:
            kind, t = op[0], op[1]
            if kind == "w":
                due = model.write(t, op[2])
                what = op[2]
            else:
                if not model.pending(t):
                    info["emptyflush"] = True
                due = model.flush(t)
                what = due
            try:
                do_op(op)
            except Exception as e:
                return (_crash_key(e), "%s(%r) raised %r; pending text was %r" %
                        ("write" if kind == "w" else "flush", what, e, due if kind == "f" else model.pending(t)))
            info["ops"] += 1
            if model.mid_escape:
                info["mid_escape"] = True
                continue
            cells, breaks = observe()
            err = _judge(model, cells, breaks)
            if err:
                key = "%s/%s/%s" % (prefix, "write" if kind == "w" else "flush", err[0])
                if err[0] == "chars":
                    key += "/" + _cls(due or what)
                return (key, "after %s(%r): %s" % ("write" if kind == "w" else "flush", what, err[1]))
            for k, s in sinks.items():
                if s.getvalue():
                    return ("%s/underlying-file-written" % prefix,
                            "%r reached the wrapped file of %s" % (s.getvalue(), k))
            info["states"].add((kind, tuple(sorted(model.written.items())), tuple(sorted(model.emitted.items())),
                                len(cells), tuple(sorted(breaks.items()))))
        return None

    if variant == "bare":
        from rich.file_proxy import FileProxy
        proxies = {t: FileProxy(console, sinks[t]) for t in targets}

        def do_op(op):
            if op[0] == "w":
                proxies[op[1]].write(op[2])
            else:
                proxies[op[1]].flush()

        verdict = step(do_op, lambda: _observe_bare(console.file.getvalue()))
        info["out"] = console.file.getvalue()
        return verdict, info, model

    # ---- end to end through a live display
    screen = Screen(W, H)
    fed = [0]

    def observe():
        data = console.file.getvalue()
        screen.feed(data[fed[0]:])
        fed[0] = len(data)
        return _observe_screen(screen)

    def do_op(op):
        if op[0] == "w":
            if op[1] == "o":
                print(op[2], end="")            # builtin print -> sys.stdout.write(chunk), write("")
            else:
                sys.stderr.write(op[2])
        else:
            (sys.stdout if op[1] == "o" else sys.stderr).flush()

    saved = (sys.stdout, sys.stderr)
    sys.stdout, sys.stderr = sinks["o"], sinks["e"]
    verdict = None
    # "<display>+outer-o" / "+outer-e": the display is started while ANOTHER display, on another console, already
    # redirects stdout only / stderr only (sys.stdout resp. sys.stderr is a FileProxy already, the other is not)
    variant, _, outer_target = variant.partition("+outer-")
    outer = None
    try:
        try:
            if outer_target:
                from rich.live import Live as _OuterLive
                outer = _OuterLive("OUT", console=_console(), auto_refresh=False,
                                   redirect_stdout=outer_target == "o", redirect_stderr=outer_target == "e")
                outer.start()
                sinks = dict(sinks, **{outer_target: sys.stdout if outer_target == "o" else sys.stderr})
            if variant == "live":
                from rich.live import Live
                cm = Live(MARK, console=console, auto_refresh=False)
            else:
                from rich.progress import Progress, TextColumn
                cm = Progress(TextColumn(MARK), console=console, auto_refresh=False, get_time=lambda: 0.0)
                cm.add_task("t")
            with cm:
                if sys.stdout is sinks["o"] or sys.stderr is sinks["e"]:
                    verdict = ("e2e/not-redirected", "sys.stdout / sys.stderr were not replaced inside the display")
                else:
                    verdict = step(do_op, observe)
            if outer is not None:
                if verdict is None and (sys.stdout is not sinks["o"] or sys.stderr is not sinks["e"]):
                    verdict = ("e2e/redirect-not-restored", "after the inner display stopped sys.stdout / sys.stderr are not what they were before it started")
                outer.stop()
                outer = None
        finally:
            if outer is not None:
                try:
                    outer.stop()
                except Exception:  # noqa
                    pass
            sys.stdout, sys.stderr = saved
        if verdict is None and not model.mid_escape:
            cells, breaks = observe()
            err = _judge(model, cells, breaks)
            if err:
                verdict = ("e2e/stop/%s" % err[0], "after the display stopped: %s" % err[1])
    except Exception as e:
        verdict = (_crash_key(e, "live.py" if variant == "live" else "progress.py"), "display raised %r" % (e,))
    finally:
        sys.stdout, sys.stderr = saved
    info["out"] = console.file.getvalue()
    return verdict, info, model


def make_ops(stream, cuts, flushes, pattern):
    """cuts: non-decreasing offsets; flushes: gap numbers (flush after write g); pattern: target per write
    (one letter = all writes)"""
    bounds = [0] + list(cuts) + [len(stream)]
    nw = len(bounds) - 1
    ops = []
    for k in range(nw):
        t = pattern[k % len(pattern)] if len(pattern) > 1 else pattern
        ops.append(["w", t, stream[bounds[k]:bounds[k + 1]]])
        for g in flushes:
            if g == k + 1:
                ops.append(["f", t])
    return ops


def check_history(variant, ops, res, setname="?"):
    case = {"part": "fp", "variant": variant, "ops": ops}
    res.evaluations += 1
    verdict, info, model = run_history(variant, ops)
    res.count("transitions", info["ops"])
    if verdict:
        res.violate(verdict[0], case, verdict[1])
    chunks = [op[2] for op in ops if op[0] == "w"]
    inline_cut = any(c and not c.endswith("\n") for c in chunks[:-1])
    res.sig((variant, min(model.units - model.partials, 3), min(model.partials, 3), info["mid_escape"],
             any(v != NULLVIS for _, v in model.cells), any(c == "" for c in chunks), inline_cut,
             len(set(op[1] for op in ops)), verdict[0].split("/")[1] if verdict else "ok"),
            nontrivial=inline_cut or model.partials > 0)
    return info


def _fp_cases(spec):
    name, variant, alpha, minl, maxl, writes, maxflush, patterns = spec
    placements = flush_placements(writes, maxflush)
    for s in streams(alpha, minl, maxl):
        yield s, variant, writes, placements, patterns


def _part_fp(sh, tier, res):
    spec = [s for s in stream_sets(tier) if s[0] == sh["set"]][0]
    name, variant, alpha, minl, maxl, writes, maxflush, patterns = spec
    placements = flush_placements(writes, maxflush)
    for idx, s in enumerate(streams(alpha, minl, maxl)):
        if idx % sh["n"] != sh["i"]:
            continue
        states = set()
        stop = False
        mixed = any(len(p) > 1 for p in patterns)
        for ci, cuts in enumerate(cut_tuples(len(s), writes)):
            if ci % 64 == 0 and deadline_passed():
                res.capped = True
                stop = True
                break
            if mixed and any(_prep(s).inesc[c] for c in cuts):
                # an escape sequence split between stdout and stderr is garbage on both: not a stream of lines
                continue
            for fl in placements:
                for pat in patterns:
                    ops = make_ops(s, cuts, fl, pat)
                    info = check_history(variant, ops, res, name)
                    states |= info["states"]
        res.count("states", len(states))
        res.count("streams_" + name, 1)
        if idx % 37 == 0:
            res.sample({"part": "fp", "variant": variant, "set": name, "stream": s, "writes": writes,
                        "flush_placements": len(placements), "targets": patterns})
        if stop:
            break


# =========================================================================== part 3
# Foreign ANSI through ONE decoder instance.  A stream is a sequence of segments
#   [open] inner [close] sep
# open  : nothing | OSC 8 with params "" / id=1 / id=2 / k=v to target U1 / U2, ST terminated
#         | BEL terminated ("" U1, "" U2, id=1 U2)
# inner : "x" | "x\ny" (the link spans a line end) | x SGR-1 y | x SGR-0 y (reset inside the link)
# close : nothing | OSC 8 ;; ST | OSC 8 ;; BEL | OSC 8 ;id=1; ST
# sep   : "" | newline | "z" newline
# so a stream holds up to three hyperlinks with equal or different params and targets, re-opened
# links, closes without an open, links left open over line ends -- everything the decoder instance
# carries from one decode_line call to the next.  Oracle: vf/term.py Decoder on the same bytes.
FD_OPEN_ST = [(p_, u) for p_ in ("", "id=1", "id=2", "k=v") for u in (U1, U2)]
FD_OPEN_BEL = [("", U1), ("", U2), ("id=1", U2)]


def _fd_menu(level):
    """segments as strings; level 'full' | 'mid' | 'small'"""
    if level == "full":
        opens = [""] + [_osc8(p_, u) for p_, u in FD_OPEN_ST] + [_osc8(p_, u, BEL) for p_, u in FD_OPEN_BEL]
        inners = ["x", "x\ny", "x\x1b[1my", "x\x1b[0my"]
        closes = ["", _osc8("", ""), _osc8("", "", BEL), _osc8("id=1", "")]
        seps = ["", "\n", "z\n"]
    elif level == "mid":
        opens = [""] + [_osc8(p_, u) for p_, u in FD_OPEN_ST] + [_osc8(p_, u, BEL) for p_, u in FD_OPEN_BEL]
        inners = ["x", "x\ny", "x\x1b[0my"]
        closes = ["", _osc8("", ""), _osc8("", "", BEL)]
        seps = ["", "\n"]
    elif level == "small3":
        opens = ["", _osc8("", U1), _osc8("", U2), _osc8("id=1", U1), _osc8("id=1", U2)]
        inners = ["x", "x\ny"]
        closes = ["", _osc8("", "")]
        seps = ["", "\n"]
    else:
        opens = ["", _osc8("", U1), _osc8("", U2), _osc8("id=1", U2)]
        inners = ["x"]
        closes = ["", _osc8("", "")]
        seps = ["", "\n"]
    return [o + i + c + z for o in opens for i in inners for c in closes for z in seps]


def _fd_levels(tier):
    """(sub, segment count, menu level)"""
    if tier == "quick":
        return {"F1": (1, "full"), "F2": (2, "mid"), "F3": (3, "small")}
    return {"F1": (1, "full"), "F2": (2, "full"), "F3": (3, "small3")}


def _fd_streams(sub, tier):
    n, level = _fd_levels(tier)[sub]
    menu = _fd_menu(level)
    for tup in itertools.product(menu, repeat=n):
        yield "".join(tup)


def _strip_empty_tail(lines):
    lines = list(lines)
    while lines and not lines[-1]:
        lines.pop()
    return lines


def check_foreign(stream, res):
    from rich.ansi import AnsiDecoder
    case = {"part": "fd", "stream": stream}
    res.evaluations += 1
    cells, controls, d = decode(stream)
    want = _strip_empty_tail(_split_lines(cells))
    bel = BEL in stream
    verdict = "ok"
    try:
        dec = AnsiDecoder()
        got = _strip_empty_tail([_rich_cells(t) for t in dec.decode(stream)])
    except Exception as e:
        res.violate(_crash_key(e, "ansi.py"), case, "decoding %r: %r" % (stream, e))
        verdict = "crash"
        got = None
    if got is not None:
        err = _diff_lines(got, want)
        if err:
            clause = err[0]
            if clause == "link":
                # which way: find the first differing character again
                for g, w in zip(got, want):
                    hit = [(a[1][3], b[1][3]) for a, b in zip(g, w) if a[1] != b[1]]
                    if hit:
                        clause = _link_clause(*hit[0])
                        break
            if bel and (clause in ("chars", "line-count") or
                        any(BEL in str(x) or ESC in str(x) for ln in got for c, v in ln for x in (c, v[3]))):
                # the BEL-terminated sequence itself was not recognised (payload shown as text / swallowed)
                clause = "osc-bel-unrecognised"
            key = "foreign/decoder/" + clause
            res.violate(key, case, "one AnsiDecoder on %r: %s (expected = vf/term.py on the same bytes)"
                        % (stream, err[1].replace("printed", "terminal")))
            verdict = clause
    nopen = stream.count(ESC + "]8;") - stream.count(ESC + "]8;;" + ST) - stream.count(ESC + "]8;;" + BEL) \
        - stream.count(ESC + "]8;id=1;" + ST)
    links = set(v[3] for ln in want for _, v in ln)
    res.sig(("fd", min(nopen, 3), len(links), bel, min(len(want), 4), ESC + "[0m" in stream, d.link is not None, verdict),
            nontrivial=nopen > 0)


def _part_fd(sh, tier, res):
    for idx, stream in enumerate(_fd_streams(sh["sub"], tier)):
        if idx % sh["n"] != sh["i"]:
            continue
        if idx % 512 == sh["i"] and deadline_passed():
            res.capped = True
            break
        check_foreign(stream, res)
        if idx % 9973 == 0:
            res.sample({"part": "fd", "stream": stream})


# =========================================================================== part 4
# Foreign SGR through ONE decoder instance.  A stream is a sequence of 1-3 SGR sequences, each
# followed by one character ("a", "b", "c"), over an alphabet of PARAMETER LISTS; three layouts:
# all on one line / one sequence per line (state carried across decode_line calls) / one per line
# inside an open OSC 8 hyperlink.  Oracle: vf/term.py Decoder on the same bytes.
SG_ON = ["1", "2", "3", "4", "5", "6", "7", "8", "9", "21", "51", "52", "53"]
SG_OFF = ["22", "23", "24", "25", "26", "27", "28", "29", "54", "55"]
SG_RESET = ["0", ""]
SG_256 = ["38;5;0", "38;5;1", "38;5;196", "48;5;0", "48;5;1", "48;5;196"]
SG_RGB = ["%d;2;%d;%d;%d" % (k, r, g, b) for k in (38, 48) for r in (0, 128, 255) for g in (0, 128, 255)
          for b in (0, 128, 255)]
SG_BASIC = ["31", "91", "42", "102", "39", "49"]
SG_COMBINED = ["1;38;2;0;0;0", "0;1", "1;0", "1;31", "38;5;0;1", "48;2;0;0;0;3", "3;48;5;0", "0;38;2;0;128;255"]
SG_TRUNC = ["38;5", "38;2;0;0", "38", "48;2"]
SG_UNKNOWN = ["99", "10"]
SG_FULL = SG_ON + SG_OFF + SG_RESET + SG_256 + SG_RGB + SG_BASIC + SG_COMBINED + SG_TRUNC + SG_UNKNOWN
SG_SMALL = ["1", "3", "4", "21", "22", "24", "0", "", "38;5;0", "38;5;196", "48;5;0", "38;2;0;128;255",
            "38;2;255;255;255", "48;2;0;0;0", "48;2;128;0;255", "31", "39", "49", "1;38;2;0;0;0", "0;1", "1;0",
            "38;5", "38;2;0;0", "99"]
SG_MID = SG_SMALL + ["2", "5", "6", "7", "9", "53", "23", "25", "26", "27", "29", "55", "38;5;1", "48;5;196",
                     "48;2;0;128;0", "38;2;0;0;0", "91", "42", "38;5;0;1", "3;48;5;0", "38"]
SG_LAYOUTS = ["inline", "lines", "linked"]


def _pclass(pl):
    """coarse class of a parameter list (for finding keys)"""
    if pl == "":
        return "empty"
    if pl == "0":
        return "reset"
    if pl in SG_ON:
        return "attr-on"
    if pl in SG_OFF:
        return "off-" + pl
    if pl in SG_TRUNC:
        return "truncated"
    if pl in SG_UNKNOWN:
        return "unknown"
    parts = pl.split(";")
    if parts[0] in ("38", "48") and len(parts) == 3 and parts[1] == "5":
        return ("fg" if parts[0] == "38" else "bg") + "-256"
    if parts[0] in ("38", "48") and len(parts) == 5 and parts[1] == "2":
        return ("fg" if parts[0] == "38" else "bg") + "-rgb"
    if len(parts) == 1:
        return "basic-colour"
    return "combined"


def _sg_stream(plists, layout):
    sep = "" if layout == "inline" else "\n"
    body = sep.join("\x1b[%sm%s" % (pl, "abc"[i]) for i, pl in enumerate(plists))
    return (_osc8("", U1) if layout == "linked" else "") + body + "\n"


def _canon_vis(v):
    """256-colour palette entries 0-15 ARE the 16 standard colours: 38;5;1 and 31 mean the same"""
    def c(col):
        return ("std", col[1]) if col is not None and col[0] == "idx" and col[1] < 16 else col
    return (v[0], c(v[1]), c(v[2]), v[3])


def _sg_diff(got, want, plists):
    """got / want: flat [(char, vis)] of the characters a, b, c -> None or (clause, message)"""
    gch, wch = "".join(c for c, _ in got), "".join(c for c, _ in want)
    if gch != wch:
        return ("chars", "characters %r, terminal %r" % (gch, wch))
    for i, ((ch, gv), (_, wv)) in enumerate(zip(got, want)):
        gv, wv = _canon_vis(gv), _canon_vis(wv)
        if gv != wv:
            for f, a, b in zip(_FIELD, gv, wv):
                if a != b:
                    return ("after-%s" % (_pclass(plists[i]) if i < len(plists) else "?"),
                            "%r (after SGR %r): %s=%r, terminal %r" % (ch, plists[i] if i < len(plists) else "?", f, a, b))
    return None


def check_sgr(plists, layout, driver, res):
    case = {"part": "sg", "plists": list(plists), "layout": layout, "driver": driver}
    stream = _sg_stream(plists, layout)
    res.evaluations += 1
    cells, controls, d = decode(stream)
    want = [c for c in cells if c[0] != "\n"]
    verdict = "ok"
    got = None
    try:
        if driver == "decoder":
            from rich.ansi import AnsiDecoder
            dec = AnsiDecoder()
            got = [c for t in dec.decode(stream) for c in _rich_cells(t)]
        else:
            from rich.file_proxy import FileProxy
            console = _console()
            sink = _Sink()
            proxy = FileProxy(console, sink)
            for line in stream.splitlines(True):
                proxy.write(line)
            proxy.flush()
            ocells, octl, od = decode(console.file.getvalue())
            got = [c for c in ocells if c[0] != "\n"] + [("<%s>" % (t[0],), NULLVIS) for t in octl]
            if sink.getvalue():
                got.append(("<sink>", NULLVIS))
            # attribute the failure: when a bare decoder already reads the stream differently the
            # finding is the decoder's (same key as the decoder driver), else it is the proxy's own
            from rich.ansi import AnsiDecoder
            alone = [c for t in AnsiDecoder().decode(stream) for c in _rich_cells(t)]
            if _sg_diff(alone, want, plists):
                driver = "decoder"
    except Exception as e:
        res.violate(_crash_key(e, "ansi.py"), case, "%s on %r: %r" % (driver, stream, e))
        verdict = "crash"
    if got is not None:
        err = _sg_diff(got, want, plists)
        if err:
            res.violate("sgr/%s/%s" % (driver, err[0]), case, "%s on %r: %s (expected = vf/term.py on the same bytes)"
                        % ("one AnsiDecoder" if case["driver"] == "decoder" else "FileProxy", stream, err[1]))
            verdict = err[0]
    vis = [_canon_vis(v) for _, v in want]
    res.sig(("sg", case["driver"], layout, tuple(sorted(set(_pclass(pl).split("-")[0] for pl in plists))),
             len(set(vis)), verdict), nontrivial=any(v != vis[0] for v in vis) or vis[0][:3] != NULLVIS[:3])


def _sg_cases(sub, tier):
    """(plists, layout, driver)"""
    quick = tier == "quick"
    if sub == "S1":
        for pl in SG_FULL:
            for lay in SG_LAYOUTS:
                yield (pl,), lay, "decoder"
                yield (pl,), lay, "proxy"
    elif sub == "S2":
        for a in SG_FULL:
            for b in SG_FULL:
                for lay in SG_LAYOUTS:
                    yield (a, b), lay, "decoder"
    elif sub == "SP2":
        for a in SG_FULL:
            for b in SG_FULL:
                for lay in (SG_LAYOUTS[:2] if quick else SG_LAYOUTS):
                    yield (a, b), lay, "proxy"
    elif sub == "S3":
        M = SG_SMALL if quick else SG_MID
        for a in M:
            for b in M:
                for c in M:
                    for lay in SG_LAYOUTS:
                        yield (a, b, c), lay, "decoder"
    elif sub == "SP3":
        for a in SG_SMALL:
            for b in SG_SMALL:
                for c in SG_SMALL:
                    yield (a, b, c), "lines", "proxy"


def _part_sg(sh, tier, res):
    for idx, (plists, lay, driver) in enumerate(_sg_cases(sh["sub"], tier)):
        if idx % sh["n"] != sh["i"]:
            continue
        if idx % 512 == sh["i"] and deadline_passed():
            res.capped = True
            break
        check_sgr(plists, lay, driver, res)
        if idx % 9973 == 0:
            res.sample({"part": "sg", "plists": list(plists), "layout": lay, "driver": driver})


# =========================================================================== part 5
# Re-entrancy as an event of the proxy histories.  History: [write(P)] outer [write(Y)] flush, where
# the outer operation prints through the console (a write that completes >= 1 line, or a flush of
# pending text) and, WHILE that print is in progress, a nested operation on the same proxy happens
# once: it is performed by a render hook of the console (bare proxy) or from inside the rendering of
# the live display's renderable (with Live, through sys.stdout; there the lines handed to
# console.print are recorded, because the nested frame drawing is Live's business).  Oracle: the printed lines, as a
# multiset, are those of one of the two sequential orders (nested before outer / outer before
# nested) of the reference proxy -- every line complete, exactly once, nested lines as lines of their
# own and never merged into another line; the closing flush emits what is left exactly once.
RE_PRE = ["", "ab"]
RE_OUTER = [["w", "\n"], ["w", "c\n"], ["w", "c\nd"], ["w", "c\nd\n"], ["w", "\nd"], ["f"]]
RE_NESTED = [["w", "n\n"], ["w", "p"], ["w", "p\nq"], ["w", ""], ["w", "\n"], ["w", "n\nm\n"], ["f"]]
RE_POST = ["", "e", "e\n"]
RE_VARIANTS = ["hook", "live"]


def _seq_units(ops):
    """reference proxy, sequential: -> texts of the printed units (lines and flushed partials)"""
    pending, units = "", []
    for op in ops:
        if op[0] == "w":
            pending += op[1]
            while "\n" in pending:
                line, _, pending = pending.partition("\n")
                units.append(line)
        elif pending:
            units.append(pending)
            pending = ""
    return units


def _re_cases():
    for pre in RE_PRE:
        for outer in RE_OUTER:
            if outer == ["f"] and not pre:
                continue                    # a flush with nothing pending prints nothing: no nested event
            for nested in RE_NESTED:
                for post in RE_POST:
                    for variant in RE_VARIANTS:
                        yield {"part": "re", "variant": variant, "pre": pre, "outer": outer, "nested": nested,
                               "post": post}


def check_reentrant(case, res):
    from rich.console import RenderHook
    from rich.text import Text
    variant, pre, outer, nested, post = case["variant"], case["pre"], list(case["outer"]), list(case["nested"]), case["post"]
    res.evaluations += 1
    head = [["w", pre]] if pre else []
    tail = ([["w", post]] if post else []) + [["f"]]
    want = [sorted(_seq_units(head + [nested, outer] + tail)), sorted(_seq_units(head + [outer, nested] + tail))]
    from rich.console import Console
    printed = []

    class Recording(Console):
        """notes the text of every Text handed to print(): what is 'printed through the console'"""

        def print(self, *objects, **kwargs):
            for r in objects:
                if isinstance(r, Text):
                    printed.extend(r.plain.split("\n"))
            super().print(*objects, **kwargs)

    console = _console(cls=Recording if variant == "live" else None)
    sink = _Sink()
    armed = [None]
    fired = [0]

    def fire():
        act, armed[0] = armed[0], None
        if act is not None:
            fired[0] += 1
            act()

    def do(target, op):
        if op[0] == "w":
            target.write(op[1])
        else:
            target.flush()

    got = None
    try:
        if variant == "hook":
            from rich.file_proxy import FileProxy

            class Hook(RenderHook):
                def process_renderables(self, renderables):
                    fire()
                    return renderables

            proxy = FileProxy(console, sink)
            console.push_render_hook(Hook())
            for op in head:
                do(proxy, op)
            armed[0] = lambda: do(proxy, nested)
            do(proxy, outer)
            armed[0] = None
            for op in tail:
                do(proxy, op)
            cells, ctl, d = decode(console.file.getvalue())
            got = ["".join(c for c, _ in ln) for ln in _split_lines(cells)]
            # _split_lines drops nothing but a missing final line; empty lines are kept
        else:
            from rich.live import Live

            class Dash:
                def __rich_console__(self, console, options):
                    fire()
                    yield Text(MARK)

            saved = (sys.stdout, sys.stderr)
            sys.stdout, sys.stderr = sink, _Sink()
            try:
                with Live(Dash(), console=console, auto_refresh=False):
                    for op in head:
                        do(sys.stdout, op)
                    armed[0] = lambda: do(sys.stdout, nested)
                    do(sys.stdout, outer)
                    armed[0] = None
                    for op in tail:
                        do(sys.stdout, op)
            finally:
                sys.stdout, sys.stderr = saved
            # a print from inside the live renderable's rendering also nests the display's own frame
            # handling (not this property's business): read what was handed to console.print instead
            got = list(printed)
    except Exception as e:
        res.violate(_crash_key(e), case, "%r" % (e,))
        res.sig(("re", variant, outer[0], nested[0], "crash"))
        return
    verdict = "ok"
    if sink.getvalue():
        res.violate("reentrant/underlying-file-written", case, "%r reached the wrapped file" % sink.getvalue())
        verdict = "sink"
    elif sorted(got) not in want:
        gc = collections.Counter("".join(got))
        wcs = [collections.Counter("".join(w)) for w in want]
        if gc in wcs:
            diag = "lines-merged-or-split"
        elif any(all(gc[k] <= w[k] for k in gc) for w in wcs):
            diag = "text-lost"
        else:
            diag = "text-duplicated"
        where = "in-flush" if outer[0] == "f" else "in-write"
        res.violate("reentrant/%s" % where, case,
                    diag + ": printed lines %r; sequential orders give %r (nested first) or %r (outer first); nested op ran %d time(s)"
                    % (got, want[0], want[1], fired[0]))
        verdict = diag
    res.sig(("re", variant, outer[0], bool(pre), nested[0], nested[-1].endswith("\n") if nested[0] == "w" else None,
             fired[0], want[0] != want[1], verdict), nontrivial=fired[0] > 0)


def _part_re(sh, tier, res):
    for idx, case in enumerate(_re_cases()):
        if idx % sh["n"] != sh["i"]:
            continue
        check_reentrant(case, res)
        if idx % 97 == 0:
            res.sample(case)


# =========================================================================== protocol
# =========================================================================== part tc: two first decoders (E3, cold state)
# Two real threads are the first users of rich.ansi in the interpreter (stdout and stderr proxies written from two
# threads): every execution runs in a fork of a zygote that imported rich but never decoded anything (vf/cold.py).
# Scheduling points: every executed line of rich/ansi.py; all schedules with <= 1 preemption. Oracle: each
# thread's Text, and a later single-threaded decode, carry exactly the attributes / colours the SGR codes say.
TC_LINES = {"A": "\x1b[9;21;53mx\x1b[0my", "B": "\x1b[53;51;38;5;196mp\x1b[55mq"}
TC_EXPECT = {"A": [("x", ("overline", "strike", "underline2")), ("y", ())],
             "B": [("p", ("frame", "overline")), ("q", ("frame",))]}
TC_SHARDS = 4
TC_MAX_EXECS = 4000


def _tc_setup():
    import rich.ansi
    import rich.text   # noqa: F401
    from .. import sched
    _console()
    sched.install()
    for co in sched._code_objects(rich.ansi):
        sys.monitoring.set_local_events(sched.TOOL, co, sys.monitoring.events.LINE)
    sched.SKIP_CODES = frozenset()


def _tc_decode(line):
    from rich.ansi import AnsiDecoder
    try:
        return ("ok", AnsiDecoder().decode_line(line))
    except Exception as e:  # noqa
        return ("crash", _crash_key(e, "ansi.py"), repr(e))


def _tc_judge(tid, out):
    if out[0] == "crash":
        return ("exception/" + out[1].split("/", 1)[-1], "decode_line(%r) raised %s" % (TC_LINES[tid], out[2]))
    cells = _rich_cells(out[1])
    got = [(ch, tuple(sorted(vis[0]))) for ch, vis in cells]
    if got != TC_EXPECT[tid]:
        return ("attributes", "decode_line(%r) gives %r, the SGR codes say %r" % (TC_LINES[tid], got, TC_EXPECT[tid]))
    return None


def _tc_make(s):
    out = {}

    def runner(tid):
        def run():
            out[tid] = _tc_decode(TC_LINES[tid])
        return run

    def observe():
        return {"got": out, "again": {t: _tc_decode(TC_LINES[t]) for t in "AB"}}
    return {"A": runner("A"), "B": runner("B")}, observe


def _tc_child(prefix):
    from .. import sched, cold
    s, obs = sched.run_once(_tc_make, prefix, "line", 0)
    vio = []
    if s.problem:
        vio.append(("threads/%s" % s.problem.split(":")[0], s.problem))
    for tid, e in s.errors:
        vio.append(("threads/exception/%s" % type(e).__name__, "thread %s raised %r" % (tid, e)))
    for tid in "AB":
        got = obs["got"].get(tid)
        if got is None:
            if not s.problem:
                vio.append(("threads/no-result", "thread %s did not finish" % tid))
        else:
            err = _tc_judge(tid, got)
            if err:
                vio.append(("threads/decoder/" + err[0], "thread %s: %s" % (tid, err[1])))
        err = _tc_judge(tid, obs["again"][tid])
        if err:
            vio.append(("threads/decoder/memoised/" + err[0], "decoded again by one thread after both finished: %s" % err[1]))
    dev = s.deviations_before(len(s.choices))
    return cold.record_of(s, sig=("tc", min(dev, 3), bool(vio)), vio=vio)


def _part_tc(sh, tier, res):
    from .. import cold
    zy = cold.Zygote("vf.checks.c19", "_tc_setup")
    bad = [0]

    def on_exec(rec):
        res.evaluations += 4
        res.sig(rec["sig"], nontrivial=rec["sig"][1] > 0)
        if rec["vio"]:
            bad[0] += 1
            ch = list(rec["choices"])
            while ch and ch[-1] == 0:
                ch.pop()
            for key, detail in rec["vio"]:
                res.violate(key, {"part": "tc", "choices": ch}, detail)
        return bad[0] < 8
    try:
        st = cold.explore_cold(lambda prefix: zy.call("_tc_child", prefix), 1, on_exec,
                               stop=deadline_passed, max_execs=TC_MAX_EXECS, shard=(sh["i"], sh["n"]))
    finally:
        zy.close()
    res.count("tc_schedules", st["executions"])
    res.count("transitions", st["executions"])
    if not st["complete"] and not bad[0]:
        res.capped = True


def _replay_tc(case, res):
    from .. import cold
    zy = cold.Zygote("vf.checks.c19", "_tc_setup")
    try:
        rec = zy.call("_tc_child", list(case["choices"]))
    finally:
        zy.close()
    for key, detail in rec["vio"]:
        res.violate(key, case, detail)


def plan(tier, seed):
    shards = []
    n1 = {"quick": {"R1": 4, "R2": 12, "RB": 6, "R3": 6}, "thorough": {"R1": 8, "R2": 32, "RB": 16, "R3": 32}}[tier]
    for sub, n in n1.items():
        shards += [{"part": "rt", "sub": sub, "i": i, "n": n} for i in range(n)]
    nfd = {"quick": {"F1": 1, "F2": 8, "F3": 2}, "thorough": {"F1": 1, "F2": 32, "F3": 8}}[tier]
    for sub, n in nfd.items():
        shards += [{"part": "fd", "sub": sub, "i": i, "n": n} for i in range(n)]
    nsg = {"quick": {"S1": 1, "S2": 6, "SP2": 12, "S3": 6}, "thorough": {"S1": 1, "S2": 6, "SP2": 16, "S3": 32, "SP3": 8}}[tier]
    for sub, n in nsg.items():
        shards += [{"part": "sg", "sub": sub, "i": i, "n": n} for i in range(n)]
    shards += [{"part": "re", "i": i, "n": 2} for i in range(2)]
    shards += [{"part": "tc", "i": i, "n": TC_SHARDS} for i in range(TC_SHARDS)]
    for spec in stream_sets(tier):
        nstreams = sum(1 for _ in streams(spec[2], spec[3], spec[4]))
        n = min(nstreams, 48 if tier == "quick" else 160)
        shards += [{"part": "fp", "set": spec[0], "i": i, "n": n} for i in range(n)]
    return shards


def run_shard(sh, tier, seed):
    res = Result()
    if sh["part"] == "rt":
        _part_rt(sh, tier, res)
    elif sh["part"] == "fd":
        _part_fd(sh, tier, res)
    elif sh["part"] == "sg":
        _part_sg(sh, tier, res)
    elif sh["part"] == "re":
        _part_re(sh, tier, res)
    elif sh["part"] == "tc":
        _part_tc(sh, tier, res)
    else:
        _part_fp(sh, tier, res)
    return res


def describe(tier, seed, res):
    sets = "; ".join("%s: %s, alphabet %s, %d..%d lines, %d writes, <=%d flushes, targets %s"
                     % (s[0], s[1], s[2], s[3], s[4], s[5], s[6], "/".join(s[7])) for s in stream_sets(tier))
    return {
        "rule": "Part 1: %d styles x 5 texts (R1); %d^2 ordered pairs as two runs x 2 text pairs (R2) and as base style + "
                "span (RB); %d^3 ordered triples x 2 text triples (R3); each printed on a truecolor terminal console and "
                "decoded by rich.ansi.AnsiDecoder (fresh and one reused per shard) and by vf/term.py. "
                "Part 2: streams = all concatenations of lines of the alphabet, last line closed or open; per stream every "
                "non-decreasing tuple of cut offsets (empty writes included) x every placement of the flushes in the gaps "
                "(also twice in one gap) + two closing flushes; judged after every call. Sets -- %s. "
                "Alphabets: L5 = plain, empty, SGR-styled, markup-like, wide; L9 = L5 + emoji-code-like, closing-tag-like, "
                "number, line leaving SGR 31 open; L11 = L9 + SGR 22 line, OSC-8 link line; LK = plain + 16 OSC-8 link lines "
                "whose URLs contain ; : = \\ %% # ? & [ ] and id= look-alikes. "
                "LF = plain + 7 foreign hyperlink lines (id-less links to 2 targets, id=1 for 2 targets, link left open, "
                "close without open, two links on a line). "
                "Part 3 (FD): foreign OSC 8 streams through ONE AnsiDecoder instance: all sequences of 1 / 2 / 3 segments "
                "[open] inner [close] sep over menus of %d / %d / %d segments (open: none, params ''/id=1/id=2/k=v x 2 targets ST, "
                "3 BEL forms; inner: x, x-newline-y, x SGR1 y, x SGR0 y; close: none, ST, BEL, with id; sep: none, newline, z newline; "
                "reduced menus for the longer sequences), compared per character with vf/term.py on the same bytes. "
                "Part 4 (SG): all sequences of 1 and 2 SGR sequences over %d parameter lists (attribute on/off codes, 0, empty, "
                "38/48;5;{0,1,196}, 38/48;2;{0,128,255}^3, basic colours, 39/49, combined, truncated, unknown) and all triples over "
                "a %d-list sub-alphabet, each sequence followed by a character, x 3 layouts (inline, one per line, per line inside "
                "an open hyperlink), through one AnsiDecoder and (pairs; thorough also triples) through a FileProxy, compared per "
                "character with vf/term.py on the same bytes. "
                "Part 5 (RE): re-entrancy: histories [write(P)] outer [write(Y)] flush with P in {'', ab}, outer in {5 writes that "
                "complete a line, flush}, Y in {'', e, e-newline}; while the outer call is printing, ONE nested call on the same proxy "
                "(7 kinds: complete line, partial, partial+line, empty, newline, two lines, flush) made by a console render hook (bare "
                "proxy) or by the live display's renderable (Live, sys.stdout); printed lines as a multiset must equal one of the two "
                "sequential orders of the reference proxy. "
                "A case is non-trivial when a write boundary falls inside a line or a flush emits a partial line (part 2) / "
                "when some character carries a style (part 1); distinct = distinct outcome signatures."
                % (len(universe(tier)), len(pair_menu(tier)), len(triple_menu(tier)), sets,
                   len(_fd_menu(_fd_levels(tier)["F1"][1])), len(_fd_menu(_fd_levels(tier)["F2"][1])),
                   len(_fd_menu(_fd_levels(tier)["F3"][1])), len(SG_FULL), len(SG_SMALL if tier == "quick" else SG_MID)),
        "assumptions": [
            "expected (char, attributes, colours, link) are computed from the style descriptions, not from rich.style",
            "terminal meaning of a stream = vf/term.py decoder (SGR state carried across lines; default colour == unset)",
            "whether a flushed partial line is followed by a newline is not specified: both accepted",
            "a flush strictly inside an escape sequence has no defined styling: such histories only have to run without exception",
            "foreign streams: SGR 0 resets attributes and colours but not an open OSC 8 hyperlink (VTE / xterm behaviour); "
            "OSC sequences end at ST or BEL",
            "foreign SGR: ECMA-48 meanings as in vf/term.py (empty parameter = 0; 24 ends single and double underline; 25 ends "
            "both blinks; 26 and other unknown codes change nothing); 38;5;n with n<16 is the standard colour n",
            "re-entrancy part: a nested call may take effect before or after the outer call; a flushed partial line is printed "
            "as a line of its own; with Live the lines handed to console.print are read instead of the screen",
            "write() return values are not judged (the statement is silent)",
            "pending text that is never flushed before the display stops is not required to appear",
        ],
        "coverage": {"states": res.counters.get("states", 0), "transitions": res.counters.get("transitions", 0)},
    }


def _norm_sd(x):
    if x is None:
        return None
    return (tuple((a, bool(v)) for a, v in x[0]), x[1], x[2], x[3])


def replay(case):
    res = Result()
    if case.get("part") == "rt":
        c = dict(case)
        c["runs"] = [[t, _norm_sd(sd)] for t, sd in case["runs"]]
        if case.get("base") is not None:
            c["base"] = _norm_sd(case["base"])
        from rich.ansi import AnsiDecoder
        check_line(c, res, AnsiDecoder())
    elif case.get("part") == "fd":
        check_foreign(case["stream"], res)
    elif case.get("part") == "re":
        check_reentrant(case, res)
    elif case.get("part") == "tc":
        _replay_tc(case, res)
    elif case.get("part") == "sg":
        check_sgr(tuple(case["plists"]), case["layout"], case["driver"], res)
    else:
        check_history(case["variant"], [list(op) for op in case["ops"]], res)
    return [(k, v[2]) for k, v in sorted(res.violations.items())]
