"""C05 -- Text editing operations keep characters and styles attached.

Explicit-state exploration (E2) of editing histories on the real rich.text.Text
with the reference model vf/reftext.RefText in lock-step.

state      = (constructor description, event history); the real Text is carried
             along as a slot-by-slot clone and every state that is stored for
             expansion is additionally rebuilt by replaying its history on fresh
             objects (canonical keys must agree, else the machinery aborts, exit 2)
transition = one editing event executed on the real Text AND on the RefText, then
             plain / len() / per-character effective style (text.render(console) ->
             Segments -> RefStyle.from_rich) are compared; a violating transition is
             reported and not extended
dedup      = canonical key (plain, base style, _length, span list with empty spans
             dropped, tab_size/end/justify/overflow/no_wrap, wild mask of the
             reference); per shard
strata     = A  every initial state x the FULL event menu (depth 1)
             B  a smaller initial set x FULL x FULL (depth 2)
             L  aliasing: every stratum-A initial state x deriving event x mutating
                event x {mutate the derived text, mutate the original}: the other
                side must stay observably unchanged (keys alias/<derive>/<mutate>/
                original-changed | derived-changed)
             D  17 hand-picked diverse seeds, CORE menu, BFS to depth 4 (quick) /
                5 and 6 (thorough), then deterministic chain extensions of the
                deepest states up to history length 12
finding key = <event>/<argument class>/<symptom>; when the text already carried a
             span with an offset outside the text, the key names the event that
             stored it: <event>/<argument class>/stores-out-of-range-span

Measured (tree with the text.py defects fixed, i.e. nothing pruned; machine shared
with ~100 runnable processes, so CPU seconds are the meaningful number):
  quick     2.81 M transitions, 1.08 M states (sum over 88 shards), 378 outcome
            signatures, ~350 CPU-s in total; 25 s wall measured with 16 workers on the idle machine
  thorough  67.6 M transitions, 26.9 M states (369 shards), 392 signatures,
            ~10 000 CPU-s in total (= ~11 min wall on 16 free cores; 22 min measured
            with 10 workers), worker RSS <= 0.7 GB
"""
import io
import itertools
import os
import json
import traceback

from ..par import Result, deadline_passed
from ..refstyle import RefStyle
from ..reftext import NULL, RefText, RefIndexError, WILD, strip_control, STRIPPED, intern
from ..width import cw

ID = "C05"
LEVEL = "model_checking"
ENGINE = "E2"
CAP_S = {"quick": int(os.environ.get("VF_C05_CAP", 480)), "thorough": int(os.environ.get("VF_C05_CAP", 3000))}
TECHNIQUE = ("explicit-state BFS over editing histories on the real rich.text.Text with an independent "
             "list-of-(char, style) reference model in lock-step, deduplicated by canonical state key")
LEVEL_TEXT = ("Every editing event of the menu is executed on the real Text from every reached canonical state up to "
              "the depth bound and compared (plain string, len(), per-character effective style read back from "
              "Text.render) with the RefText reference after every single event; every transition is a call into the "
              "real code, every stored state is re-validated by replaying its history on fresh objects. Exhaustive "
              "inside the stated bounds (initial states, event menus, depth); nothing is sampled.")
LEVEL_NOTE = ("Trusted: CPython (str, re), vf/reftext.py + vf/refstyle.py + vf/width.py (reference, ~450 lines, selftested), "
              "Console.get_style / Style.combine as the reading of a style name (decided by C06). Bounds: strings <= 8 "
              "characters; initial strings <= 2 (quick, + length 3 with <= 1 span) / <= 3 (thorough) over 7 symbols with "
              "<= 2 spans and 4 constructors; FULL menu of 109 events at depth 1 (depth 2 on a subset); CORE menu of 25 "
              "events to depth 4 (quick) / 5, and 6 from two seeds (thorough); enumerated chains to history length 12. "
              "Dedup is per shard, so `states` is a sum over shards (an upper bound on distinct states).")

MAXLEN = 8
SIGMA = ["a", "あ", " ", "\t", "\n", "\x08", "́"]

STY = {
    "": NULL,
    "red": RefStyle(color=("std", 1)),
    "blue": RefStyle(color=("std", 4)),
    "bold": RefStyle({"bold": True}),
    "italic": RefStyle({"italic": True}),
}

# fixed argument texts (built fresh for every use, real and reference from the same description)
ARGS = {
    "P": {"k": "text", "s": "p", "base": "bold", "spans": [[0, 1, "red"]]},
    "Q": {"k": "text", "s": "q r", "base": "", "spans": [[1, 3, "blue"]]},
    "E": {"k": "text", "s": "", "base": "italic", "spans": []},
    "D": {"k": "text", "s": "-", "base": "italic", "spans": [[0, 1, "blue"]]},
    "N": {"k": "text", "s": "", "base": "", "spans": []},
    # base style AND an own span that sets the same attribute to another value (the span must win),
    # next to base-only (E), span-only (Q) and base+compatible span (P)
    "C": {"k": "text", "s": "cd", "base": "red", "spans": [[0, 1, "blue"]]},
}

# ---------------------------------------------------------------------------- event menus
FULL = [
    ["append", "x", None], ["append", "y", "red"], ["append", "\x08z", "blue"], ["append", "\x08", "red"],
    ["append", "あ", "bold"],
    ["append_T", "P"], ["append_T", "E"], ["append_T", "C"], ["append_text", "Q"], ["append_text", "E"], ["append_text", "C"],
    ["append_tokens", [["t", "red"], ["u", None]]],
    ["add", "s:x"], ["add", "P"], ["add", "C"], ["rappend", "C"], ["radd", "C"], ["assemble", ["@", {"arg": "C"}, {"arg": "Q"}], ""],
    ["rappend", "P"], ["rappend_text", "Q"], ["radd", "E"], ["assemble", ["@", ["x", "red"], "y"], "italic"],
    ["stylize", "red", 0, None], ["stylize", "red", 1, 3], ["stylize", "red", -1, None], ["stylize", "red", -9, 1],
    ["stylize", "blue", 0, -1], ["stylize", "blue", 1, 99], ["stylize", "blue", -9, None], ["stylize", "blue", 2, 1],
    ["stylize", "bold", 1, 2],
    ["pad", 0, " "], ["pad", 1, " "], ["pad", 2, "-"],
    ["pad_left", 0, "-"], ["pad_left", 1, " "], ["pad_left", 2, "-"],
    ["pad_right", 1, " "], ["pad_right", 2, "-"],
    ["truncate", 0, "crop", False], ["truncate", 1, "crop", False], ["truncate", 2, None, False],
    ["truncate", 2, "crop", True], ["truncate", 4, "crop", True], ["truncate", 6, None, True],
    ["truncate", 1, "ellipsis", False], ["truncate", 2, "ellipsis", False], ["truncate", 3, "ellipsis", True],
    ["truncate", 4, "ellipsis", False], ["truncate", 2, "ignore", False], ["truncate", 3, "fold", False],
    ["right_crop", 0], ["right_crop", 1], ["right_crop", 2], ["right_crop", 9],
    ["set_length", 0], ["set_length", 1], ["set_length", 3], ["set_length", 6],
    ["align", "left", 1, " "], ["align", "left", 4, " "], ["align", "center", 2, " "], ["align", "center", 5, " "],
    ["align", "center", 6, "-"], ["align", "right", 3, " "], ["align", "right", 6, "-"],
    ["expand_tabs", 2], ["expand_tabs", 4],
    ["rstrip"], ["rstrip_end", 0], ["rstrip_end", 1], ["rstrip_end", 3],
    ["remove_suffix", ""], ["remove_suffix", " "], ["remove_suffix", "x"],
    ["set_plain", ""], ["set_plain", "z"], ["set_plain", "a b"],
    ["copy"],
    ["getitem", 0], ["getitem", 1], ["getitem", -1], ["getitem", -2], ["getitem", 8],
    ["slice", 1, None], ["slice", None, -1], ["slice", -2, None], ["slice", 1, 2], ["slice", 2, 1], ["slice", -9, 9],
    ["split", "\n", False, False], ["split", "\n", True, False], ["split", "\n", False, True], ["split", "\n", True, True],
    ["split", " ", False, False], ["split", " ", True, False], ["split", " ", False, True],
    ["divide", [1]], ["divide", [0]], ["divide", [1, 3]], ["divide", [2, 2]], ["divide", [9]],
    ["join_sep", ["P", "Q"]], ["join_sep", ["C", "C"]], ["join_elem", "D", ["@", "P"]], ["join_elem", "D", ["P", "@"]],
    ["join_elem", "N", ["@", "@"]], ["join_elem", "C", ["C", "@", "Q"]],
    ["fit", 2], ["fit", 5],
    ["hl_words", ["a", "x"], "blue", True], ["hl_words", ["A"], "red", False],
    ["hl_regex", "a+|\\s", "bold", ""], ["hl_regex", "(?P<red>a)(?P<blue>.)?", None, ""],
    ["copy_styles"], ["repr_hl"], ["repr_hl_call"],
]

CORE = [
    ["append", "\x08z", "blue"], ["append_T", "P"], ["append_T", "C"], ["rappend", "P"], ["append", "(1", None],
    ["stylize", "red", 1, 3], ["stylize", "blue", -1, None], ["stylize", "bold", -9, 2],
    ["pad_left", 1, " "], ["pad", 1, "-"],
    ["truncate", 2, "ellipsis", False], ["truncate", 4, "crop", True],
    ["right_crop", 1], ["set_length", 3], ["align", "center", 5, " "],
    ["expand_tabs", 2], ["rstrip"],
    ["getitem", -1], ["slice", 1, None], ["slice", None, -1],
    ["split", " ", False, False], ["divide", [1]], ["join_elem", "D", ["@", "P"]],
    ["hl_words", ["a", "x"], "blue", True], ["repr_hl"], ["set_plain", "z"],
]

# hand-picked diverse seeds for the deep strata (constructor descriptions)
SEEDS = [
    {"k": "text", "s": "a b", "base": "italic", "spans": [[0, 2, "red"], [1, 3, "blue"]]},
    {"k": "text", "s": "a\tあ", "base": "", "spans": [[0, 3, "red"], [2, 3, "blue"]]},
    {"k": "text", "s": "あ́ ", "base": "", "spans": [[0, 1, "blue"], [0, 3, "red"]]},
    {"k": "text", "s": "", "base": "italic", "spans": []},
    {"k": "text", "s": "a\nb", "base": "", "spans": [[0, 3, "red"], [0, 1, "red"]]},
    {"k": "assemble", "parts": [["a ", "red"], "\t", {"k": "text", "s": "あ", "base": "blue", "spans": []}], "base": "italic"},
    {"k": "text", "s": "a\x08b", "base": "", "spans": [[1, 2, "red"]]},
    {"k": "styled", "s": " a ", "style": "blue"},
    {"k": "markup", "s": "あa", "base": "italic"},
    {"k": "text", "s": "\n", "base": "", "spans": [[0, 1, "blue"]]},
    {"k": "text", "s": "ab", "base": "", "spans": [[0, 2, "red"], [0, 2, "red"]]},
    {"k": "text", "s": "a  b", "base": "", "spans": [[1, 3, "blue"]]},
    {"k": "text", "s": "\ta", "base": "italic", "spans": [[0, 2, "blue"]]},
    {"k": "text", "s": "a", "base": "", "spans": []},
    {"k": "text", "s": "ああ", "base": "", "spans": [[1, 2, "red"]]},
    {"k": "text", "s": "a \n", "base": "", "spans": [[0, 3, "blue"], [1, 2, "red"]]},
    {"k": "text", "s": "a\tb", "base": "red", "spans": [[0, 2, "blue"], [1, 3, "bold"]]},
]

_CON = None
_RS = {}
_BASE = {}


def _console():
    global _CON
    if _CON is None:
        from rich.console import Console
        _CON = Console(file=io.StringIO(), width=80, height=25, force_terminal=False, color_system=None,
                       legacy_windows=False, _environ={})
        for name, rs in STY.items():
            if RefStyle.from_rich(_CON.get_style(name)) != rs:
                raise RuntimeError("style table of the check disagrees with Console.get_style(%r)" % name)
    return _CON


# ---------------------------------------------------------------------------- building texts
def build_real(d):
    from rich.text import Text, Span
    k = d["k"]
    if k == "text":
        return Text(d["s"], style=d["base"], spans=[Span(a, b, st) for a, b, st in d["spans"]])
    if k == "styled":
        return Text.styled(d["s"], d["style"])
    if k == "markup":
        from rich.markup import escape
        return Text.from_markup(escape(d["s"]), style=d["base"])
    if k == "assemble":
        parts = []
        for p in d["parts"]:
            if isinstance(p, dict):
                parts.append(build_real(p))
            elif isinstance(p, str):
                parts.append(p)
            else:
                parts.append((p[0], p[1]))
        return Text.assemble(*parts, style=d["base"])
    raise ValueError(k)


def build_ref(d):
    k = d["k"]
    if k == "text":
        return RefText.from_str(d["s"], STY[d["base"]], [(a, b, STY[st]) for a, b, st in d["spans"]])
    if k == "styled":
        r = RefText.from_str(d["s"])
        r.stylize(STY[d["style"]])
        return r
    if k == "markup":
        return RefText.from_str(d["s"], STY[d["base"]])
    if k == "assemble":
        parts = []
        for p in d["parts"]:
            if isinstance(p, dict):
                parts.append(build_ref(p))
            elif isinstance(p, str):
                parts.append(p)
            else:
                parts.append((p[0], None if p[1] is None else STY[p[1]]))
        return RefText.assemble(parts, STY[d["base"]])
    raise ValueError(k)


def clone(t):
    """slot-by-slot copy that does not go through Text.copy()/__init__ (both are under test)"""
    from rich.text import Text
    c = Text.__new__(Text)
    c._text = list(t._text)
    c.style = t.style
    c.justify = t.justify
    c.overflow = t.overflow
    c.no_wrap = t.no_wrap
    c.end = t.end
    c.tab_size = t.tab_size
    c._spans = list(t._spans)
    c._length = t._length
    return c


def canon(t, ref):
    return ("".join(t._text), str(t.style), t._length,
            tuple((s[0], s[1], str(s[2])) for s in t._spans if s[0] != s[1]),
            t.tab_size, t.end, t.justify, t.overflow, t.no_wrap, ref.wild_mask())


# ---------------------------------------------------------------------------- events
def apply_real(t, ev):
    """executes the event on the real Text `t` (a private clone); -> list of result Texts"""
    from rich.text import Text, Span
    k = ev[0]
    if k == "append":
        t.append(ev[1], ev[2])
    elif k == "append_T":
        t.append(build_real(ARGS[ev[1]]))
    elif k == "append_text":
        t.append_text(build_real(ARGS[ev[1]]))
    elif k == "append_tokens":
        t.append_tokens([(a, b) for a, b in ev[1]])
    elif k == "add":
        return [t + (ev[1][2:] if ev[1].startswith("s:") else build_real(ARGS[ev[1]]))]
    elif k == "rappend":
        x = build_real(ARGS[ev[1]])
        x.append(t)
        return [x]
    elif k == "rappend_text":
        x = build_real(ARGS[ev[1]])
        x.append_text(t)
        return [x]
    elif k == "radd":
        return [build_real(ARGS[ev[1]]) + t]
    elif k == "assemble":
        return [Text.assemble(*[t if p == "@" else build_real(ARGS[p["arg"]]) if isinstance(p, dict) else
                                (p if isinstance(p, str) else (p[0], p[1])) for p in ev[1]],
                              style=ev[2])]
    elif k == "stylize":
        t.stylize(ev[1], ev[2], ev[3])
    elif k == "pad":
        t.pad(ev[1], ev[2])
    elif k == "pad_left":
        t.pad_left(ev[1], ev[2])
    elif k == "pad_right":
        t.pad_right(ev[1], ev[2])
    elif k == "truncate":
        t.truncate(ev[1], overflow=ev[2], pad=ev[3])
    elif k == "right_crop":
        t.right_crop(ev[1])
    elif k == "set_length":
        t.set_length(ev[1])
    elif k == "align":
        t.align(ev[1], ev[2], ev[3])
    elif k == "expand_tabs":
        t.expand_tabs(ev[1])
    elif k == "rstrip":
        t.rstrip()
    elif k == "rstrip_end":
        t.rstrip_end(ev[1])
    elif k == "remove_suffix":
        t.remove_suffix(ev[1])
    elif k == "set_plain":
        t.plain = ev[1]
    elif k == "copy":
        return [t.copy()]
    elif k == "getitem":
        return [t[ev[1]]]
    elif k == "slice":
        return [t[ev[1]:ev[2]]]
    elif k == "split":
        return list(t.split(ev[1], include_separator=ev[2], allow_blank=ev[3]))
    elif k == "divide":
        return list(t.divide(ev[1]))
    elif k == "join_sep":
        return [t.join([build_real(ARGS[a]) for a in ev[1]])]
    elif k == "join_elem":
        return [build_real(ARGS[ev[1]]).join([t if a == "@" else build_real(ARGS[a]) for a in ev[2]])]
    elif k == "fit":
        return list(t.fit(ev[1]))
    elif k == "hl_words":
        t.highlight_words(ev[1], ev[2], case_sensitive=ev[3])
    elif k == "hl_regex":
        t.highlight_regex(ev[1], ev[2], style_prefix=ev[3])
    elif k == "copy_styles":
        n = len(t.plain)
        t.copy_styles(Text("?" * n, spans=[Span(0, (n + 1) // 2, "blue")]))
    elif k == "repr_hl":
        from rich.highlighter import ReprHighlighter
        ReprHighlighter().highlight(t)
    elif k == "repr_hl_call":
        from rich.highlighter import ReprHighlighter
        return [ReprHighlighter()(t)]
    else:
        raise ValueError(k)
    return [t]


def apply_ref(r, ev, observed=None):
    """the same event on the reference (`r` is a private copy); -> list of RefTexts.
    Raises RefIndexError where the ordinary-string operation raises IndexError."""
    k = ev[0]
    if k == "append":
        r.append_str(ev[1], None if ev[2] is None else STY[ev[2]])
    elif k in ("append_T", "append_text"):
        r.append_ref(build_ref(ARGS[ev[1]]))
    elif k == "append_tokens":
        r.append_tokens([(a, None if b is None else STY[b]) for a, b in ev[1]])
    elif k == "add":
        return [r.concat(ev[1][2:] if ev[1].startswith("s:") else build_ref(ARGS[ev[1]]))]
    elif k in ("rappend", "rappend_text", "radd"):
        x = build_ref(ARGS[ev[1]])
        x.append_ref(r)
        return [x]
    elif k == "assemble":
        return [RefText.assemble([r if p == "@" else build_ref(ARGS[p["arg"]]) if isinstance(p, dict) else
                                  (p if isinstance(p, str) else (p[0], STY[p[1]])) for p in ev[1]],
                                 STY[ev[2]])]
    elif k == "stylize":
        r.stylize(STY[ev[1]], ev[2], ev[3])
    elif k == "pad":
        r.pad(ev[1], ev[2])
    elif k == "pad_left":
        r.pad_left(ev[1], ev[2])
    elif k == "pad_right":
        r.pad_right(ev[1], ev[2])
    elif k == "truncate":
        r.truncate(ev[1], ev[2], ev[3], observed=observed)
    elif k == "right_crop":
        r.right_crop(ev[1])
    elif k == "set_length":
        r.set_length(ev[1])
    elif k == "align":
        r.align(ev[1], ev[2], ev[3], observed=observed)
    elif k == "expand_tabs":
        r.expand_tabs(ev[1])
    elif k == "rstrip":
        r.rstrip()
    elif k == "rstrip_end":
        r.rstrip_end(ev[1])
    elif k == "remove_suffix":
        r.remove_suffix(ev[1])
    elif k == "set_plain":
        r.set_plain(ev[1])
    elif k in ("copy", "repr_hl", "repr_hl_call"):
        return [r]
    elif k == "getitem":
        return [r.getitem(ev[1])]
    elif k == "slice":
        return [r.slice(ev[1], ev[2])]
    elif k == "split":
        return r.split(ev[1], ev[2], ev[3])
    elif k == "divide":
        return r.divide(ev[1])
    elif k == "join_sep":
        return [RefText.join(r, [build_ref(ARGS[a]) for a in ev[1]])]
    elif k == "join_elem":
        return [RefText.join(build_ref(ARGS[ev[1]]), [r if a == "@" else build_ref(ARGS[a]) for a in ev[2]])]
    elif k == "fit":
        return r.fit(ev[1])
    elif k == "hl_words":
        r.highlight_words(ev[1], STY[ev[2]], ev[3])
    elif k == "hl_regex":
        r.highlight_regex(ev[1], None if ev[2] is None else STY[ev[2]], STY)
    elif k == "copy_styles":
        n = len(r)
        r.copy_styles(RefText.from_str("?" * n, NULL, [(0, (n + 1) // 2, STY["blue"])]))
    else:
        raise ValueError(k)
    return [r]


def argclass(ev, ref):
    """coarse class of the event's arguments relative to the text (part of the finding key)"""
    k = ev[0]
    n = len(ref)
    if k == "getitem":
        return "negative-index" if ev[1] < 0 else "index"
    if k == "slice":
        a, b, _ = slice(ev[1], ev[2]).indices(n)
        if a > b:
            return "reversed-range"
        return "negative-offset" if (ev[1] or 0) < 0 or (ev[2] or 0) < 0 else "offsets"
    if k == "stylize":
        if ev[2] < 0:
            return "negative-start-before-beginning" if n + ev[2] < 0 else "negative-start"
        if ev[3] is not None and ev[3] < 0:
            return "negative-end"
        return "offsets"
    if k == "right_crop":
        return "zero-amount" if ev[1] == 0 else ("beyond-length" if ev[1] > n else "within")
    if k == "remove_suffix":
        return "empty-suffix" if ev[1] == "" else "suffix"
    if k == "set_length":
        return "grow" if ev[1] > n else ("shrink" if ev[1] < n else "same")
    if k == "truncate":
        return (ev[2] or "default") + ("+pad" if ev[3] else "")
    if k == "append":
        return "control-stripped" if any(c in STRIPPED for c in ev[1]) else "str"
    if k == "divide":
        return "beyond-end" if any(o > n for o in ev[1]) else "offsets"
    if k in ("pad", "pad_left", "pad_right"):
        return "zero-count" if ev[1] == 0 else "count"
    if k == "align":
        return ev[1]
    if k == "split":
        return ("keep-separator" if ev[2] else "drop-separator") + ("+blank" if ev[3] else "")
    if k == "join_elem":
        return "empty-separator" if not ARGS[ev[1]]["s"] else "separator"
    return "-"


# ---------------------------------------------------------------------------- oracle
def _rs(style):
    r = _RS.get(style)
    if r is None:
        r = _RS[style] = intern(RefStyle.from_rich(style))
    return r


def observe(t):
    out = []
    for seg in t.render(_console()):
        rs = _rs(seg.style)
        for ch in seg.text:
            out.append((ch, rs))
    return out


def compare(t, ref):
    """-> None or (symptom, detail)"""
    want = ref.plain
    got = t.plain
    if got != want:
        return ("plain-differs", "plain %r, ordinary string operations give %r" % (got, want))
    try:
        n = len(t)
    except Exception as e:
        return ("len-raises", "len() raises %s: %s (plain %r)" % (type(e).__name__, e, got))
    if n != len(want):
        return ("len-differs", "len()=%d but plain %r has %d characters" % (n, got, len(want)))
    try:
        obs = observe(t)
    except Exception as e:
        return ("render-raises", "render() raises %s: %s (plain %r, spans %r)" % (type(e).__name__, e, got, t.spans))
    if "".join(c for c, _ in obs) != want:
        return ("render-differs-from-plain", "render() yields %r for plain %r" % ("".join(c for c, _ in obs), want))
    eff = ref.effective()
    diffs = [i for i, ((_, g), (_, e)) in enumerate(zip(obs, eff)) if e is not WILD and g is not e]
    if not diffs:
        return None
    base = ref.base
    if base != NULL and all(base + obs[i][1] == eff[i][1] for i in diffs):
        sym = "base-style-lost"
    elif all(obs[i][1] == base or obs[i][1] == NULL for i in diffs):
        sym = "style-lost"
    elif all(eff[i][1] == base for i in diffs):
        sym = "style-gained"
    else:
        sym = "style-misplaced"
    i = diffs[0]
    return (sym, "plain %r: character %d %r renders as %r, reference %r (differing positions %r)" % (
        want, i, want[i], obs[i][1], eff[i][1], diffs))


def _resync_base(t, r):
    """The base style of a result is only observable through its characters (just judged). Where the
    implementation keeps it elsewhere than the reference assumed (e.g. text[i] starts a new Text without
    base) and no judged character shows the difference, the reference follows the implementation so that
    later padding is judged against the base the text really has."""
    b = _BASE.get(t.style)
    if b is None:
        b = _BASE[t.style] = _rs(_console().get_style(t.style))
    if b is not r.base:
        r.base = b


def out_of_range_span(t):
    n = len(t.plain)
    for s in t.spans:
        if s.end > s.start and (s.start < 0 or s.end > n):
            return s
    return None


def _crash_key(e):
    where = "?"
    for fs in reversed(traceback.extract_tb(e.__traceback__)):
        if "/rich/" in fs.filename:
            where = "%s:%s" % (fs.filename.rsplit("/", 1)[1], fs.name)
            break
    return "crash/%s/%s" % (type(e).__name__, where)


class Step:
    __slots__ = ("status", "key", "detail", "succ", "sig", "nontrivial")


def step(t, ref, taint, ev):
    """One transition. t/ref are NOT modified. Returns a Step:
       status "disabled" | "ok" | "violation"; succ = [(text, ref, taint), ...]"""
    st = Step()
    st.succ = []
    kind = ev[0]
    ac = argclass(ev, ref)
    # reference first: enabledness (length cap) and the expected outcome
    expect_index_error = False
    try:
        refs = apply_ref(ref.copy(), ev)
    except RefIndexError:
        refs = []
        expect_index_error = True
    if any(len(r) > MAXLEN for r in refs):
        st.status = "disabled"
        return st
    if kind == "copy_styles" and len(ref) == 0:
        st.status = "disabled"
        return st
    # the real code
    rt = clone(t)
    nspans = len(rt._spans)
    try:
        outs = apply_real(rt, ev)
    except IndexError as e:
        if expect_index_error:
            st.status = "ok"
            st.sig = (kind, ac, "IndexError")
            st.nontrivial = True
            return st
        st.status, st.key, st.detail = "violation", _crash_key(e), "%s: %s" % (type(e).__name__, e)
        return st
    except Exception as e:
        st.status, st.key, st.detail = "violation", _crash_key(e), "%s: %s" % (type(e).__name__, e)
        return st
    if expect_index_error:
        st.status, st.key = "violation", "%s/%s/no-IndexError" % (kind, ac)
        st.detail = "index %r is out of range for %r but no IndexError was raised" % (ev[1], ref.plain)
        return st
    if kind in ("truncate", "align") and outs[0].plain != refs[0].plain:
        refs = apply_ref(ref.copy(), ev, observed=outs[0].plain)      # zero-width tolerance at a crop boundary
    if kind in ("repr_hl", "repr_hl_call") and len(outs[0]._spans) != nspans:
        # style-only operation with theme styles the reference does not model: characters are judged, styles not
        refs[0].chars = [(c, WILD) for c, _ in refs[0].chars]

    def violation(symptom, detail):
        st.status = "violation"
        if taint and symptom.startswith(("style-", "base-style", "render-")):
            st.key = "%s/stores-out-of-range-span" % taint
            st.detail = "a span with an offset outside the text was stored earlier (%s); now %s %s: %s" % (
                taint, kind, symptom, detail)
        elif symptom == "base-style-lost":
            st.key = "%s/base-style-lost" % kind          # independent of the argument class
            st.detail = detail
        else:
            st.key = "%s/%s/%s" % (kind, ac, symptom)
            st.detail = detail
        return st

    if len(outs) != len(refs):
        return violation("piece-count", "got %d pieces %r, ordinary string operation gives %d %r" % (
            len(outs), [o.plain for o in outs], len(refs), [r.plain for r in refs]))
    for o, r in zip(outs, refs):
        bad = compare(o, r)
        if bad:
            return violation(bad[0], bad[1])
        _resync_base(o, r)
    st.status = "ok"
    changed = len(refs) != 1 or refs[0] != ref
    styled = any(s is not WILD and s != NULL for r in refs for _, s in r.chars)
    wild = any(s is WILD for r in refs for _, s in r.chars)
    st.sig = (kind, ac, min(len(refs), 3), changed, styled, wild, bool(taint))
    st.nontrivial = changed
    for o, r in zip(outs, refs):
        tn = taint
        if tn is None and out_of_range_span(o) is not None:
            tn = "%s/%s" % (kind, ac)
        st.succ.append((o, r, tn))
    return st


def _desc_text(d):
    if d["k"] == "assemble":
        return "".join(_desc_text(p) if isinstance(p, dict) else (p if isinstance(p, str) else p[0]) for p in d["parts"])
    return d["s"]


def initial(desc):
    """-> ("ok", text, ref, taint) | ("violation", key, detail)"""
    ref = build_ref(desc)
    stripped = any(c in STRIPPED for c in _desc_text(desc))
    ac = "control-stripped" if stripped else "-"
    try:
        t = build_real(desc)
    except Exception as e:
        return ("violation", _crash_key(e), "%s: %s" % (type(e).__name__, e))
    bad = compare(t, ref)
    if bad:
        return ("violation", "construct/%s/%s" % (ac, bad[0]), "%s: %s" % (desc["k"], bad[1]))
    taint = "construct/%s" % ac if out_of_range_span(t) is not None else None
    return ("ok", t, ref, taint)


# ---------------------------------------------------------------------------- replay from history
def rebuild(init, history):
    """Replays a history (list of [event, piece index]) on fresh objects without judging."""
    t, r = build_real(init), build_ref(init)
    for ev, idx in history:
        outs = apply_real(clone(t), ev)
        refs = apply_ref(r.copy(), ev)
        if ev[0] in ("truncate", "align") and outs[0].plain != refs[0].plain:
            refs = apply_ref(r.copy(), ev, observed=outs[0].plain)
        if ev[0] in ("repr_hl", "repr_hl_call") and len(outs[0]._spans) != len(t._spans):
            refs[0].chars = [(c, WILD) for c, _ in refs[0].chars]
        t, r = outs[idx], refs[idx]
        _resync_base(t, r)
    return t, r


def run_case(case):
    """Full judged re-execution of one case; -> list of (key, detail)."""
    init, history = case["init"], case.get("history", [])
    i0 = initial(init)
    if i0[0] == "violation":
        return [(i0[1], i0[2])]
    _, t, r, taint = i0
    for ev, idx in history:
        s = step(t, r, taint, ev)
        if s.status == "violation":
            return [(s.key, s.detail)]
        if s.status == "disabled" or idx is None or idx >= len(s.succ):
            return []
        t, r, taint = s.succ[idx]
    return []


# ---------------------------------------------------------------------------- exploration
def _revalidate(desc, hist, key, res):
    """state = history: the carried clone must equal a replay of the history on fresh objects"""
    tt, rr = rebuild(desc, hist)
    if canon(tt, rr) != key:
        raise RuntimeError("replay of %r from %r does not reproduce the carried state" % (hist, desc))
    res.count("states_revalidated_by_replay")


def explore(inits, menus, res, chain_extra=0, chain_states=0, first_filter=None):
    """BFS from `inits` (constructor descriptions). menus[d] is the event menu used at
    depth d+1; len(menus) is the depth bound. Dedup by canonical key inside this call."""
    seen = set()
    level = []
    maxdepth = len(menus)
    for desc in inits:
        res.evaluations += 1
        res.count("initial_states_built")
        i0 = initial(desc)
        if i0[0] == "violation":
            res.violate(i0[1], {"init": desc, "history": []}, i0[2])
            res.sig(("construct", desc["k"], "violation"))
            continue
        _, t, r, taint = i0
        res.sig(("construct", desc["k"], len(r) > 0, any(s != NULL for _, s in r.chars), r.base != NULL))
        key = canon(t, r)
        if key in seen:
            res.count("initial_states_duplicate")
            continue
        seen.add(key)
        level.append((desc, [], t, r, taint))
    res.count("states", len(level))
    transitions = 0
    last_new = []
    for depth in range(1, maxdepth + 1):
        menu = menus[depth - 1]
        nxt = []
        for (desc, hist, t, r, taint) in level:
            if deadline_passed():
                res.capped = True
                break
            for ei, ev in enumerate(menu):
                if depth == 1 and first_filter is not None and ei % first_filter[1] != first_filter[0]:
                    continue
                s = step(t, r, taint, ev)
                if s.status == "disabled":
                    res.count("events_disabled_by_length_cap")
                    continue
                transitions += 1
                res.evaluations += 1
                if s.status == "violation":
                    res.violate(s.key, {"init": desc, "history": hist + [[ev, None]]}, s.detail)
                    res.sig((ev[0], "violation", s.key.rsplit("/", 1)[-1]))
                    continue
                res.sig(s.sig, nontrivial=s.nontrivial)
                for idx, (t2, r2, tn2) in enumerate(s.succ):
                    key = canon(t2, r2)
                    if key in seen:
                        continue
                    seen.add(key)
                    res.count("states")
                    h2 = hist + [[ev, idx]]
                    if depth < maxdepth:
                        _revalidate(desc, h2, key, res)
                    nxt.append((desc, h2, t2, r2, tn2))
        res.counters["max_depth"] = max(res.counters.get("max_depth", 0), depth if level else depth - 1)
        if res.capped:
            break
        if depth == maxdepth:
            res.count("frontier_at_depth_bound", len(nxt))
            last_new = nxt
        level = nxt
        if transitions and depth == 1 and len(res.samples) < 2 and level:
            res.sample({"init": level[0][0], "history": level[0][1]})
    # deterministic chain extensions of the deepest states (towards the 12 operations of the quantifier)
    if chain_extra and last_new and not res.capped:
        classes = {}
        for stt in last_new:
            t, r = stt[2], stt[3]
            sigk = (len(r), min(len(t._spans), 4), any(m for m in r.wild_mask()),
                    any(c in "\t\n" for c in r.plain), any(cw(c) != 1 for c in r.plain), bool(stt[4]))
            classes.setdefault(sigk, []).append(stt)
        picked = []
        pools = [classes[k] for k in sorted(classes)]
        i = 0
        while len(picked) < chain_states and any(pools):
            p = pools[i % len(pools)]
            if p:
                picked.append(p.pop(0))
            i += 1
        res.count("chain_start_states", len(picked))
        for stt in picked:
            _revalidate(stt[0], stt[1], canon(stt[2], stt[3]), res)
        menu = menus[-1]
        M = len(menu)
        for (desc, hist, t0, r0, taint0) in picked:
            if deadline_passed():
                res.capped = True
                break
            for rot in range(M):
                t, r, taint, h = t0, r0, taint0, hist
                for j in range(chain_extra):
                    ev = menu[(rot + 7 * j) % M]
                    s = step(t, r, taint, ev)
                    if s.status == "disabled":
                        continue
                    transitions += 1
                    res.evaluations += 1
                    res.count("chain_transitions")
                    if s.status == "violation":
                        res.violate(s.key, {"init": desc, "history": h + [[ev, None]]}, s.detail)
                        res.sig((ev[0], "violation", s.key.rsplit("/", 1)[-1]))
                        break
                    res.sig(s.sig, nontrivial=s.nontrivial)
                    if not s.succ:
                        break
                    idx = len(s.succ) - 1 if len(s.succ[-1][1]) else 0
                    t, r, taint = s.succ[idx]
                    h = h + [[ev, idx]]
                    res.counters["max_depth"] = max(res.counters.get("max_depth", 0), len(h))
                    key = canon(t, r)
                    if key not in seen:
                        seen.add(key)
                        res.count("states")
    res.count("transitions", transitions)


# ---------------------------------------------------------------------------- aliasing clause
# A Text derived from another one must share no mutable state with it: after deriving, editing the
# derived object must leave the original unchanged and editing the original must leave the derived
# object unchanged (plain, len(), rendered per-character styles). A single-object history cannot see
# this: each object on its own looks right immediately after each operation.
DERIVE = [
    ["copy"], ["add", "s:x"], ["add", "P"], ["radd", "P"], ["rappend", "P"], ["rappend_text", "Q"],
    ["assemble", ["@", ["x", "red"], "y"], "italic"],
    ["getitem", 0], ["getitem", -1],
    ["slice", 1, None], ["slice", None, -1], ["slice", -9, 9],
    ["split", "\n", False, False], ["split", " ", True, False],
    ["divide", []], ["divide", [1]],
    ["join_sep", ["P", "Q"]], ["join_elem", "D", ["@", "P"]], ["join_elem", "N", ["@"]],
    ["fit", 2], ["repr_hl_call"], ["rcopy_styles"],
]
MUTATE = [
    ["stylize", "red", 0, None], ["pad_left", 1, "-"], ["pad_right", 2, "-"],
    ["append", "y", "red"], ["append_T", "P"], ["append_tokens", [["t", "red"], ["u", None]]],
    ["right_crop", 1], ["truncate", 1, "crop", False], ["align", "center", 5, " "],
    ["set_plain", "z"], ["expand_tabs", 2], ["hl_words", ["a", "x"], "blue", True], ["copy_styles"],
]


def _derive(t, ev):
    """Runs a deriving event directly on `t` (no clone in between: aliasing must survive)."""
    if ev[0] == "rcopy_styles":          # t is the SOURCE of copy_styles
        from rich.text import Text
        other = Text("?" * len(t.plain))
        other.copy_styles(t)
        return [other]
    return apply_real(t, ev)


def _snap(t):
    try:
        n = len(t)
    except Exception as e:
        n = "len() raises %s" % type(e).__name__
    try:
        o = tuple(observe(t))
    except Exception as e:
        o = "render() raises %s: %s" % (type(e).__name__, e)
    return (t.plain, n, o)


def _snap_diff(a, b):
    if a[0] != b[0]:
        return "plain %r -> %r" % (a[0], b[0])
    if a[1] != b[1]:
        return "len %r -> %r (plain %r)" % (a[1], b[1], a[0])
    if isinstance(a[2], str) or isinstance(b[2], str):
        return "render %r -> %r" % (a[2], b[2])
    for i, (x, y) in enumerate(zip(a[2], b[2])):
        if x != y:
            return "plain %r: character %d %r rendered %r before and %r after" % (a[0], i, x[0], x[1], y[1])
    return "render length %d -> %d" % (len(a[2]), len(b[2]))


def _cheap(t):
    return (t.plain, t._length, tuple(t._spans))


def alias_derive(t0, dev):
    """-> None when the deriving event does not apply (IndexError) | (orig, before, piece_snaps, violation)
    `orig` is a private clone of t0 on which `dev` has been run once."""
    orig = clone(t0)
    before = _snap(orig)
    try:
        pieces = _derive(orig, dev)
    except IndexError:
        return None
    after = _snap(orig)
    bad = None
    if after != before:
        bad = ("alias/%s/none/original-changed" % dev[0], "deriving alone changed the original: " + _snap_diff(before, after))
    return orig, before, [_snap(p) for p in pieces], bad


def alias_check(t0, dev, mev, direction, ctx=None):
    """t0: pristine Text (never modified here). Derives with `dev`, then applies the mutator `mev`
    to every derived piece (direction "derived") or to the original (direction "original") and
    requires the other side to be observably unchanged (plain, len(), rendered styles).
    ctx = alias_derive(t0, dev) may be passed in to share work between mutators.
    -> ("n/a",) | ("ok", nontrivial) | ("violation", key, detail)"""
    if ctx is None:
        ctx = alias_derive(t0, dev)
    if ctx is None:
        return ("n/a",)
    orig, before, piece_snaps, bad = ctx
    if bad:
        return ("violation", bad[0], bad[1])
    nontrivial = False
    try:
        if direction == "derived":
            # `orig` is unchanged so far (checked after every use), so it can be derived from again
            for p in _derive(orig, dev):
                c0 = _cheap(p)
                apply_real(p, mev)
                nontrivial = nontrivial or _cheap(p) != c0
                now = _snap(orig)
                if now != before:
                    return ("violation", "alias/%s/%s/original-changed" % (dev[0], mev[0]),
                            "after %r on the derived text %r the original changed: %s" % (mev, c0[0], _snap_diff(before, now)))
        else:
            o2 = clone(t0)
            pieces = _derive(o2, dev)
            c0 = _cheap(o2)
            apply_real(o2, mev)
            nontrivial = _cheap(o2) != c0
            for p, pb in zip(pieces, piece_snaps):
                now = _snap(p)
                if now != pb:
                    return ("violation", "alias/%s/%s/derived-changed" % (dev[0], mev[0]),
                            "after %r on the original %r the derived text changed: %s" % (mev, before[0], _snap_diff(pb, now)))
    except Exception as e:
        return ("violation", _crash_key(e), "%s: %s (alias clause: %r then %r on the %s)" % (type(e).__name__, e, dev, mev, direction))
    return ("ok", nontrivial)


def explore_alias(inits, res):
    seen = set()
    for desc in inits:
        i0 = initial(desc)
        res.count("alias_initial_states_built")
        if i0[0] == "violation":
            continue                      # reported by stratum A
        _, t0, r0, _taint = i0
        key = canon(t0, r0)
        if key in seen:
            continue
        seen.add(key)
        res.count("alias_initial_states")
        if deadline_passed():
            res.capped = True
            break
        for dev in DERIVE:
            ctx = alias_derive(t0, dev)
            if ctx is None:
                res.count("alias_derive_not_applicable")
                continue
            for mev in MUTATE:
                for direction in ("derived", "original"):
                    out = alias_check(t0, dev, mev, direction, ctx)
                    res.evaluations += 1
                    res.count("alias_checks")
                    if out[0] == "violation":
                        res.violate(out[1], {"alias": {"init": desc, "derive": dev, "mutate": mev, "direction": direction}}, out[2])
                        res.sig(("alias", dev[0], mev[0], direction, "violation"))
                        ctx = alias_derive(t0, dev)      # the shared original may be spoilt now
                        if ctx is None or ctx[3]:
                            break
                    else:
                        res.sig(("alias", dev[0], mev[0], direction, out[1]), nontrivial=out[1])
                else:
                    continue
                break
    if len(res.samples) < 1 and inits:
        res.sample({"alias": {"init": inits[-1], "derive": DERIVE[0], "mutate": MUTATE[1], "direction": "derived"}})


# ---------------------------------------------------------------------------- initial states
def _strings(maxlen, minlen=0):
    for L in range(minlen, maxlen + 1):
        for tup in itertools.product(SIGMA, repeat=L):
            yield "".join(tup)


def _span_sets(n, maxspans):
    spans = [[a, b, st] for a in range(n) for b in range(a + 1, n + 1) for st in ("red", "blue")]
    yield []
    if maxspans >= 1:
        for s in spans:
            yield [s]
    if maxspans >= 2:
        for s1 in spans:
            for s2 in spans:
                yield [s1, s2]


# base alphabet: none, an attribute no span touches (italic), and a colour the spans {red, blue} conflict with
BASES = ("", "italic", "red")


def inits_for_string(s, maxspans, bases=BASES, other_ctors=True):
    n = len(strip_control(s))
    for base in bases:
        for spans in _span_sets(n, maxspans):
            yield {"k": "text", "s": s, "base": base, "spans": spans}
    if not other_ctors:
        return
    yield {"k": "styled", "s": s, "style": "red"}
    for base in bases:
        yield {"k": "markup", "s": s, "base": base}
        for cut in range(len(s) + 1):
            yield {"k": "assemble", "parts": [[s[:cut], "red"], s[cut:]], "base": base}
            if cut:
                yield {"k": "assemble", "parts": [{"k": "text", "s": s[:cut], "base": "blue", "spans": []},
                                                  [s[cut:], None]], "base": base}
                if strip_control(s[:cut]):      # a Text part whose own span conflicts with its own base
                    yield {"k": "assemble", "parts": [{"k": "text", "s": s[:cut], "base": "red", "spans": [[0, 1, "blue"]]},
                                                      {"k": "text", "s": s[cut:], "base": "blue", "spans": []}], "base": base}


def _stratum_inits(name, tier):
    """-> iterator of (string index, description)"""
    if name == "A":
        if tier == "quick":
            for i, s in enumerate(_strings(2)):
                for d in inits_for_string(s, 2):
                    yield i, d
            for i, s in enumerate(_strings(3, 3)):
                for d in inits_for_string(s, 1, bases=("",), other_ctors=False):
                    yield i, d
        else:
            for i, s in enumerate(_strings(3)):
                for d in inits_for_string(s, 2):
                    yield i, d
    elif name == "L":
        # aliasing: the stratum-A states; of the length-3 strings quick keeps only span sets over one style,
        # thorough only span sets of <=1 span
        for i, d in _stratum_inits("A", tier):
            if len(d.get("s", "")) == 3:
                sp = d.get("spans", ())
                if (tier == "quick" and any(x[2] != "red" for x in sp)) or (tier != "quick" and len(sp) > 1):
                    continue
            yield i, d
    elif name == "B":
        if tier == "quick":
            for i, s in enumerate(_strings(1)):
                for d in inits_for_string(s, 2):
                    yield i, d
        else:
            for i, s in enumerate(_strings(2)):
                for d in inits_for_string(s, 1):
                    yield i, d


DEEP_SEEDS = (0, 1)       # thorough: these seeds go one level deeper


def plan(tier, seed):
    """longest shards first (the pool hands them out in this order)"""
    shards = []
    if tier == "quick":
        for si in range(len(SEEDS)):
            for j in range(2):
                shards.append({"st": "D", "seed": si, "j": j, "m": 2, "depth": 4})
        shards += [{"st": "B", "i": i, "n": 8} for i in range(8)]
        shards += [{"st": "L", "i": i, "n": 48} for i in range(48)]
        shards += [{"st": "A", "i": i, "n": 48} for i in range(48)]
    else:
        m = len(CORE)
        for si in DEEP_SEEDS:
            for j in range(m):
                shards.append({"st": "D", "seed": si, "j": j, "m": m, "depth": 6})
        for si in range(len(SEEDS)):
            if si not in DEEP_SEEDS:
                for j in range(5):
                    shards.append({"st": "D", "seed": si, "j": j, "m": 5, "depth": 5})
        shards += [{"st": "B", "i": i, "n": 57} for i in range(57)]
        shards += [{"st": "L", "i": i, "n": 192} for i in range(192)]
        shards += [{"st": "A", "i": i, "n": 192} for i in range(192)]
    return shards


def run_shard(sh, tier, seed):
    import time
    res = Result()
    c0 = time.process_time()
    st = sh["st"]
    if st == "A":
        inits = [d for i, d in _stratum_inits("A", tier) if i % sh["n"] == sh["i"]]
        explore(inits, [FULL], res)
    elif st == "B":
        inits = [d for i, d in _stratum_inits("B", tier) if i % sh["n"] == sh["i"]]
        explore(inits, [FULL, FULL], res)
    elif st == "L":
        inits = [d for i, d in _stratum_inits("L", tier) if i % sh["n"] == sh["i"]]
        explore_alias(inits, res)
    elif st == "D":
        D = sh["depth"]
        explore([SEEDS[sh["seed"]]], [CORE] * D, res, chain_extra=12 - D,
                chain_states=40 if tier == "quick" else 200, first_filter=(sh["j"], sh["m"]))
    res.count("cpu_s", round(time.process_time() - c0, 2))
    if st != "L":
        res.count("max_depth_core_bfs" if st == "D" else "max_depth_full_menu", sh.get("depth") or (2 if st == "B" else 1))
    return res


def describe(tier, seed, res):
    c = res.counters
    quick = tier == "quick"
    return {
        "rule": ("Stratum A: every initial state (strings <=%s over {a, U+3042, space, tab, newline, U+0008, U+0301} x ordered "
                 "span sets of <=2 spans over {red, blue} x base {none, italic, red: red conflicts with the blue spans}, built through Text(), Text.styled, "
                 "Text.assemble (string, (string, style) and Text parts, among them a Text whose own span conflicts with its own "
                 "base), Text.from_markup) x each of the %d events of the FULL menu. Operand Texts of the composing events "
                 "(append, append_text, +, reversed forms, assemble, join) are: base-only, span-only, base + compatible span, "
                 "and base + conflicting span (red base, blue span: the span must win); every character's effective style "
                 "(base < spans in order) is compared with the RefText. Stratum B: %s x FULL x FULL "
                 "(all histories of length 2, dedup). Stratum D: BFS with the %d-event CORE menu to depth %s from %d "
                 "hand-picked seeds; then the deepest level is partitioned into structural classes, up to %d states are "
                 "taken round-robin over the classes per shard and each is extended by one chain per menu rotation up to "
                 "history length 12 (chains are enumerated, not a full product). Events whose reference result exceeds %d "
                 "characters are not enabled. Each piece returned by split/divide/fit is a successor. A violating "
                 "transition is reported and not extended. Non-trivial = the event changed the reference state or "
                 "produced pieces; distinct = distinct outcome signatures (event, argument class, pieces, changed, "
                 "styled, wild, tainted). Stratum L (aliasing): every stratum-A initial state (of the length-3 strings quick keeps spans of one style, thorough <=1 span) x %d deriving events (copy, +, "
                 "reversed + / append / append_text with the text as argument, Text.assemble with the text as part, text[i], "
                 "slices, split / divide / fit pieces, join as separator and as element, Highlighter.__call__, copy_styles "
                 "source) x %d mutating events x 2 directions: mutate every derived piece -> the original must be observably "
                 "unchanged (plain, len(), rendered per-character styles), mutate the original -> every derived piece must be "
                 "unchanged; the derivation runs on the object itself (no clone in between)." % (
                     "2 (+ length 3 with <=1 span, base none, Text() only)" if quick else "3", len(FULL),
                     "strings <=1 with <=2 spans" if quick else "strings <=2 with <=1 span",
                     len(CORE), "4" if quick else "5 (6 from seeds %s, one shard per first event)" % (DEEP_SEEDS,),
                     len(SEEDS), 40 if quick else 200, MAXLEN, len(DERIVE), len(MUTATE))),
        "assumptions": [
            "deduplication is per shard: `states` and `transitions` are sums over shards (states is an upper bound on the number of distinct canonical states)",
            "characters invented by an operation (ellipsis, space for a halved wide character, tab-expansion spaces, text written through the plain setter, characters styled by ReprHighlighter) carry no style obligation; padding must show the base style only",
            "a zero-width character exactly at a cell-crop boundary may be kept or dropped (as in C13)",
            "negative offsets follow Python slice semantics; right_crop / remove_suffix / text[i] / text[i:j] are judged as the ordinary-string operations s[:max(len(s)-n,0)], s.removesuffix, s[i] (IndexError included), s[i:j]",
            "truncate(0, ellipsis), truncate(ignore, pad=True), negative counts, multi-character separators and Text.overflow/justify other than None are outside the menu",
            "style names are read by Console.get_style / Style combination (C06 decides those)",
        ],
        "coverage": {
            "states": c.get("states", 0),
            "transitions": c.get("transitions", 0),
            "traces_validated_against_impl": c.get("transitions", 0),
            "max_depth": c.get("max_depth", 0),
            "frontier_at_depth_bound": c.get("frontier_at_depth_bound", 0),
            "states_revalidated_by_replay": c.get("states_revalidated_by_replay", 0),
            "alias_checks": c.get("alias_checks", 0),
            "alias_initial_states": c.get("alias_initial_states", 0),
            "cpu_seconds_all_shards": round(c.get("cpu_s", 0), 1),
        },
    }


def replay(case):
    if "alias" in case:
        a = case["alias"]
        i0 = initial(a["init"])
        if i0[0] == "violation":
            return [(i0[1], i0[2])]
        out = alias_check(i0[1], a["derive"], a["mutate"], a["direction"])
        return [(out[1], out[2])] if out[0] == "violation" else []
    return run_case(case)
