"""C12 -- Progress accounting is exact for any history and any interleaving.

Sequential (E2): explicit-state BFS over operation histories on a real Progress with a
reference model (per task: last explicitly set value + sum of advances, total, started,
finished expectations) in lock-step; histories reaching an already seen canonical state are
not extended.  track(): every sequence / generator of length 0..4.
Concurrent (E3): 2-3 threads issuing mutators on one task under the schedule explorer of
vf/sched.py (bytecode-level scheduling points inside the mutators, tick-per-call clock);
the final task state must be the final state of some sequential order of the same
operations (linearizability by permutation) and the invariants must hold.
"""
import io
import itertools
import json
import math

from ..par import Result, deadline_passed, MachineryError
from .. import sched

ID = "C12"
LEVEL = "model_checking"
ENGINE = "E2+E3"
CAP_S = {"quick": 300, "thorough": 3600}
TECHNIQUE = ("explicit-state BFS over operation histories of the real Progress against a reference model, plus "
             "stateless preemption-bounded schedule exploration of concurrent mutators with a linearizability oracle")
LEVEL_TEXT = ("Every operation history up to the depth bound (deduplicated on a canonical state) and every schedule of "
              "the concurrent harnesses up to the preemption bound is executed on the real Progress; counters, percentage, "
              "finished/finished_time, speed and time_remaining are compared with a reference model after every event, "
              "final states of concurrent runs with all sequential orders. Exhaustive inside the bounds.")
LEVEL_NOTE = ("Trusted: CPython GIL (sequential consistency per bytecode), vf/sched.py, the 60-line reference model in this "
              "file. Bounds: <=2 tasks, small argument domains, depth 4 (quick) / 6 (thorough); 2-3 threads with 1-2 "
              "operations each, preemption bound 2 (quick) / 3 (thorough) at bytecode granularity inside the mutators.")


# ----------------------------------------------------------------------------- sequential part
class Clock:
    def __init__(self, tick_per_call=False):
        self.t = 0.0
        self.tick = tick_per_call

    def __call__(self):
        if self.tick:
            self.t += 1.0
        return self.t


def _mk_progress(clock, terminal=False, file=None):
    from rich.console import Console
    from rich.progress import Progress
    f = file if file is not None else io.StringIO()
    c = Console(file=f, width=40, height=10, force_terminal=terminal, color_system=None, legacy_windows=False,
                _environ={}, get_time=clock)
    return Progress("{task.description}", console=c, auto_refresh=False, redirect_stdout=False,
                    redirect_stderr=False, get_time=clock, speed_estimate_period=30.0)


class RefTask:
    """The reference: what the statement says, nothing about samples or clocks."""

    def __init__(self, total, completed, started):
        self.total = total
        self.base = completed       # last explicitly set value
        self.adv = 0                # sum of advances since
        self.started = started
        self.neg = False            # a negative advance was seen: speed clauses are void
        self.reached = False        # completed >= total was left by an advance/update since last reset/total change
        self.fin_time = ("unset",)  # recorded finish time once observed

    @property
    def completed(self):
        return self.base + self.adv


ADD = [dict(total=t, start=s, completed=c) for t in (3, 0, -1, 10 ** 18) for s in (True, False) for c in (0, 2)]
ADV = [1, 2, 0, 0.5, -1]
UPD = [dict(zip(("total", "completed", "advance"), v)) for v in itertools.product((None, 2, 5), (None, 0, 4), (None, 1))
       if any(x is not None for x in v)]
RST = [dict(total=t, completed=c, start=s) for t in (None, 4) for c in (0, 1) for s in (True, False)]
TICKS = [1.0, 40.0]


def _events(ntasks):
    ev = []
    for t in range(ntasks):
        ev += [("advance", t, a) for a in ADV]
        ev += [("update", t, u) for u in UPD]
        ev += [("reset", t, r) for r in RST]
        ev += [("start_task", t), ("stop_task", t)]
    ev += [("tick", dt) for dt in TICKS]
    # operations that are refused (unknown task id) and operations on ANOTHER Progress object: the history goes
    # on after them and every task of this Progress must be exactly as before
    ev += [("missing", op) for op in ("advance", "update", "reset", "start_task", "stop_task")]
    ev += [("other", "add-advance")]
    return ev


def _apply(p, clock, ids, refs, ev):
    """apply one event to the real Progress and to the reference"""
    kind = ev[0]
    if kind == "add":
        a = ev[1]
        ids.append(p.add_task("t%d" % len(ids), start=a["start"], total=a["total"], completed=a["completed"]))
        refs.append(RefTask(a["total"], a["completed"], a["start"]))
        return None
    if kind == "tick":
        clock.t += ev[1]
        return None
    if kind == "missing":
        from rich.progress import TaskID
        bad = TaskID(97)
        try:
            {"advance": lambda: p.advance(bad, 1), "update": lambda: p.update(bad, completed=1, total=1),
             "reset": lambda: p.reset(bad), "start_task": lambda: p.start_task(bad),
             "stop_task": lambda: p.stop_task(bad)}[ev[1]]()
        except KeyError:
            pass                    # whether and how it is refused is not C12's business; what it leaves behind is
        return None
    if kind == "other":
        q = _mk_progress(clock)
        qt = q.add_task("q", total=2, completed=1)
        q.advance(qt, 3)
        q.update(qt, total=9)
        q.reset(qt, total=5)
        q.advance(qt, 7)
        qtask = q.tasks[0]
        if (qtask.completed, qtask.total, qtask.finished, len(q.tasks)) != (7, 5, True, 1):
            raise AssertionError("second Progress: task %r after add(total=2, completed=1) advance 3, total 9, reset(total=5), advance 7"
                                 % ((qtask.completed, qtask.total, qtask.finished, len(q.tasks)),))
        return None
    t = ev[1]
    r = refs[t]
    if kind == "advance":
        p.advance(ids[t], ev[2])
        r.adv += ev[2]
        if ev[2] < 0:
            r.neg = True
    elif kind == "update":
        u = ev[2]
        kw = {k: v for k, v in u.items() if v is not None}
        p.update(ids[t], **kw)
        if u["total"] is not None:
            r.total = u["total"]
            r.reached = False
            r.fin_time = ("unset",)
        if u["advance"] is not None:
            r.adv += u["advance"]
        if u["completed"] is not None:
            r.base, r.adv = u["completed"], 0
    elif kind == "reset":
        a = ev[2]
        p.reset(ids[t], start=a["start"], total=a["total"], completed=a["completed"])
        if a["total"] is not None:
            r.total = a["total"]
        r.base, r.adv = a["completed"], 0
        r.started = a["start"]
        r.reached = False
        r.neg = False
        r.fin_time = ("unset",)
    elif kind == "start_task":
        p.start_task(ids[t])
        r.started = True
    elif kind == "stop_task":
        p.stop_task(ids[t])
        r.started = True     # stop_task starts a task that was never started (documented by the code's own comment)
    return t


def _check(p, ids, refs, ev, touched):
    """-> list of (key, detail) after event ev"""
    out = []
    tasks = {t.id: t for t in p.tasks}
    if len(tasks) != len(ids):
        out.append(("seq/task-count/%s" % ev[0], "%d tasks, %d were added" % (len(tasks), len(ids))))
    for i, (tid, r) in enumerate(zip(ids, refs)):
        task = tasks[tid]
        if task.completed != r.completed:
            out.append(("seq/completed/%s" % ev[0], "task %d completed=%r reference %r" % (i, task.completed, r.completed)))
        if task.total != r.total:
            out.append(("seq/total/%s" % ev[0], "task %d total=%r reference %r" % (i, task.total, r.total)))
        want_pct = 0.0 if not r.total else min(100.0, max(0.0, r.completed / r.total * 100.0))
        if task.percentage != want_pct:
            out.append(("seq/percentage", "task %d percentage=%r reference %r" % (i, task.percentage, want_pct)))
        if task.started != r.started:
            out.append(("seq/started/%s" % ev[0], "task %d started=%r reference %r" % (i, task.started, r.started)))
        if i == touched and ev[0] in ("advance", "update") and r.started and r.completed >= r.total:
            r.reached = True
            if not task.finished:
                out.append(("seq/finished-not-reported/%s" % ev[0], "task %d completed %r >= total %r, started, but finished is False"
                            % (i, r.completed, r.total)))
        if task.finished and not r.reached:
            out.append(("seq/finished-too-early/%s" % ev[0], "task %d reports finished, completed %r total %r never reached since reset"
                        % (i, r.completed, r.total)))
        if task.finished:
            if r.fin_time == ("unset",):
                r.fin_time = task.finished_time
            elif task.finished_time != r.fin_time:
                out.append(("seq/finished_time-changed/%s" % ev[0], "task %d finished_time %r was %r" % (i, task.finished_time, r.fin_time)))
        elif r.fin_time != ("unset",):
            out.append(("seq/finished_time-cleared/%s" % ev[0], "task %d no longer finished after %r" % (i, ev)))
        if not r.neg:
            sp = task.speed
            if sp is not None and sp < 0:
                out.append(("seq/negative-speed", "task %d speed %r" % (i, sp)))
            if i == touched and ev[0] == "advance" and task.started and task.stop_time is None:
                tr = task.time_remaining
                if tr is not None and tr < 0:
                    out.append(("seq/negative-time_remaining", "task %d time_remaining %r" % (i, tr)))
    return out


def _canon(p, clock, ids):
    tasks = {t.id: t for t in p.tasks}
    key = []
    for tid in ids:
        t = tasks[tid]
        now = clock.t
        key.append((t.total, t.completed,
                    None if t.start_time is None else now - t.start_time,
                    None if t.stop_time is None else now - t.stop_time,
                    t.finished_time,
                    tuple((now - s.timestamp, s.completed) for s in t._progress)))
    return tuple(key)


def _run_history(hist):
    clock = Clock()
    p = _mk_progress(clock)
    ids, refs = [], []
    vio = []
    for ev in hist:
        touched = _apply(p, clock, ids, refs, ev)
        vio = _check(p, ids, refs, ev, touched)   # only the last event's verdict matters (earlier ones were judged before)
    return p, clock, ids, refs, vio


def _bfs(initial, events, maxdepth, res, label):
    import collections
    seen = set()
    frontier = collections.deque()
    for init in initial:
        p, clock, ids, refs, vio = _run_history(init)
        for key, detail in vio:
            res.violate(key, {"part": "seq", "history": init}, detail)
        k = _canon(p, clock, ids) + tuple((r.neg, r.reached) for r in refs)
        if k not in seen:
            seen.add(k)
            frontier.append(init)
    transitions = 0
    maxd = 0
    cut = 0
    while frontier:
        hist = frontier.popleft()
        depth = len(hist) - len(initial[0])
        if depth >= maxdepth:
            cut += 1
            continue
        if deadline_passed():
            res.capped = True
            break
        for ev in events:
            h2 = hist + [ev]
            try:
                p, clock, ids, refs, vio = _run_history(h2)
            except Exception as e:  # noqa
                res.violate("seq/exception/%s/%s" % (type(e).__name__, ev[0]), {"part": "seq", "history": h2}, repr(e))
                continue
            transitions += 1
            res.evaluations += 1
            for key, detail in vio:
                res.violate(key, {"part": "seq", "history": h2}, detail)
            t0 = p.tasks[0]
            res.sig((label, ev[0], t0.finished, t0.speed is None, t0.percentage in (0.0, 100.0)),
                    nontrivial=t0.finished or t0.speed is not None)
            if any(abs(t.completed) > 12 for t in p.tasks):
                continue      # counter cap: keeps the canonical space finite
            k = _canon(p, clock, ids) + tuple((r.neg, r.reached) for r in refs)
            if k not in seen:
                seen.add(k)
                frontier.append(h2)
                maxd = max(maxd, depth + 1)
    res.count("states", len(seen))
    res.count("transitions", transitions)
    res.count("frontier_at_depth_cap", cut)
    res.counters["max_depth"] = max(res.counters.get("max_depth", 0), maxd)
    if hist := (frontier[0] if frontier else None):
        pass
    res.sample({"part": "seq", "history_example": [("add", ADD[0]), ("advance", 0, 2), ("tick", 1.0), ("advance", 0, 1)]}, limit=1)


# ----------------------------------------------------------------------------- float amounts x sample window
# Long, narrow histories the BFS depth cannot reach: k float advances (amounts that are not exact in binary),
# a clock jump past the speed window (so that these samples are discarded), one more advance, a short tick, a
# last advance. Every event is judged by the reference like any BFS transition (completed = sum of the advances,
# speed and time_remaining never negative). Any estimate kept incrementally instead of being recomputed shows here.
FW_AMOUNTS = [0.1, 0.2, 0.3, 0.7, 1.1, 3]
FW_LATE = [0, 0.1, 0.3, 1, 1.1]
FW_LAST = [0, 0.1]


def _fw_histories(tier):
    maxk = 3 if tier == "quick" else 4
    for via in ("advance", "update"):
        def adv(a):
            return ("advance", 0, a) if via == "advance" else ("update", 0, {"total": None, "completed": None, "advance": a})
        for k in range(1, maxk + 1):
            for amounts in itertools.product(FW_AMOUNTS, repeat=k):
                for spaced in (False, True):
                    head = [("add", dict(total=100, start=True, completed=0))]
                    for a in amounts:
                        if spaced:
                            head.append(("tick", 1.0))
                        head.append(adv(a))
                    for jump in (40.0, 29.0):
                        for d in FW_LATE:
                            for e in FW_LAST:
                                yield head + [("tick", jump), adv(d), ("tick", 1.0), adv(e)]


def _run_fw(sh, tier, res):
    n = 0
    for i, hist in enumerate(_fw_histories(tier)):
        if i % sh["n"] != sh["i"]:
            continue
        if n % 64 == 0 and deadline_passed():
            res.capped = True
            break
        clock = Clock()
        p = _mk_progress(clock)
        ids, refs = [], []
        try:
            for j, ev in enumerate(hist):
                touched = _apply(p, clock, ids, refs, ev)
                for key, detail in _check(p, ids, refs, ev, touched):
                    res.violate(key.replace("seq/", "seq/float-window/", 1), {"part": "seq", "history": hist[:j + 1]}, detail)
        except Exception as e:  # noqa
            res.violate("seq/float-window/exception/%s" % type(e).__name__, {"part": "seq", "history": hist}, repr(e))
        n += 1
        res.evaluations += 1
        t0 = p.tasks[0]
        res.sig(("fw", len(hist), t0.speed is None, len(t0._progress)), nontrivial=t0.speed is not None)
    res.count("float_window_histories", n)
    res.count("transitions", n)


# ----------------------------------------------------------------------------- track()
def _track_cases():
    for n in range(0, 5):
        for kind in ("list", "generator"):
            yield {"part": "track", "n": n, "kind": kind}


def _check_track_seq(case, res):
    clock = Clock()
    p = _mk_progress(clock)
    n = case["n"]
    seq = list(range(10, 10 + n))
    src = seq if case["kind"] == "list" else (x for x in seq)
    got = []
    completed_seen = []
    res.evaluations += 1
    try:
        it = p.track(src, total=n if case["kind"] == "generator" else None)
        for x in it:
            got.append(x)
            completed_seen.append(p.tasks[0].completed)
    except Exception as e:      # an explicit total (0 included) and a sized list are all track() is entitled to need
        res.violate("track/exception/%s" % type(e).__name__, case, "track() over %d elements (%s) raised %r" % (n, case["kind"], e))
        return
    if got != seq:
        res.violate("track/elements", case, "yielded %r from %r" % (got, seq))
    if n and p.tasks[0].completed != n:
        res.violate("track/completed", case, "completed %r after %d elements" % (p.tasks[0].completed, n))
    if n == 0 and p.tasks and p.tasks[0].completed != 0:
        res.violate("track/completed", case, "completed %r after 0 elements" % p.tasks[0].completed)
    # after the k-th element was yielded and control returned, k-1 advances have happened
    if completed_seen != list(range(0, n)):
        res.violate("track/advance-before-yield", case, "completed seen at each yield: %r" % completed_seen)
    res.sig(("track", n, case["kind"]), nontrivial=n > 0)


# ----------------------------------------------------------------------------- track() with its real helper thread
# Three consecutive track() runs with auto_refresh=True (the _TrackThread path) in ONE cold process (a fork of a
# zygote that never ran track(), vf/cold.py), with real threads and events: whatever the helper keeps between
# runs -- class attributes, module globals -- shows in the second and third run.  The final completed count does
# not depend on timing.
def _real_setup():
    import rich.progress  # noqa: imported, never called


def _track_real_child(n, kind, mode):
    import signal
    from rich.console import Console
    from rich.progress import Progress

    def mk():
        c = Console(file=io.StringIO(), width=40, height=10, force_terminal=False, color_system=None, _environ={})
        return Progress("{task.description}", console=c, auto_refresh=True, redirect_stdout=False, redirect_stderr=False)

    class Hang(Exception):
        pass

    def on_alarm(*_):
        raise Hang()
    signal.signal(signal.SIGALRM, on_alarm)
    out = []
    shared = mk()
    for run in range(3):
        p = shared if mode == "same-progress" else mk()
        seq = list(range(10, 10 + n))
        src = seq if kind == "list" else (x for x in seq)
        signal.alarm(20)
        try:
            got = [x for x in p.track(src, total=n if kind != "list" else None, update_period=0.005)]
            task = p.tasks[-1]
            out.append({"run": run, "got": got, "seq": seq, "completed": task.completed, "error": None})
        except Hang:
            out.append({"run": run, "got": None, "seq": seq, "completed": None, "error": "hang"})
            break
        except Exception as e:
            out.append({"run": run, "got": None, "seq": seq, "completed": None, "error": "%s: %s" % (type(e).__name__, e)})
        finally:
            signal.alarm(0)
    return out


def _track_real_cases():
    for n in (0, 1, 3):
        for kind in ("list", "generator"):
            for mode in ("fresh-progress", "same-progress"):
                yield {"part": "track-real", "n": n, "kind": kind, "mode": mode}


def _check_track_real(case, res, zy):
    out = zy.call("_track_real_child", case["n"], case["kind"], case["mode"])
    res.evaluations += len(out)
    for o in out:
        when = "first-run" if o["run"] == 0 else "later-run"
        if o["error"]:
            res.violate("track-real/%s/%s" % (when, o["error"].split(":")[0]), case, "run %d: %s" % (o["run"], o["error"]))
        elif o["got"] != o["seq"]:
            res.violate("track-real/%s/elements" % when, case, "run %d yielded %r from %r" % (o["run"], o["got"], o["seq"]))
        elif o["completed"] != case["n"]:
            res.violate("track-real/%s/completed" % when, case, "run %d: completed %r after %d elements" % (o["run"], o["completed"], case["n"]))
    res.sig(("track-real", case["n"], case["kind"], case["mode"], tuple(o["completed"] for o in out)), nontrivial=case["n"] > 0)


# ----------------------------------------------------------------------------- concurrent part
def _cops():
    return {
        "adv1": lambda e: e["p"].advance(e["t"], 1),
        "adv2": lambda e: e["p"].advance(e["t"], 2),
        "upd_adv1": lambda e: e["p"].update(e["t"], advance=1),
        "upd_c5": lambda e: e["p"].update(e["t"], completed=5),
        "upd_tot4": lambda e: e["p"].update(e["t"], total=4),
        "reset": lambda e: e["p"].reset(e["t"]),
        "refresh": lambda e: e["p"].refresh(),
        "adv1_refresh": lambda e: e["p"].update(e["t"], advance=1, refresh=True),
        "add_a": lambda e: e["ids"].__setitem__("a", e["p"].add_task("a", total=10)),
        "add_b": lambda e: e["ids"].__setitem__("b", e["p"].add_task("b", total=20)),
        "adv_a3": lambda e: e["p"].advance(e["ids"]["a"], 3),
        "adv_b5": lambda e: e["p"].advance(e["ids"]["b"], 5),
        "stop_start": lambda e: (e["p"].stop_task(e["t"]), e["p"].start_task(e["t"])),
        "adv3": lambda e: e["p"].advance(e["t"], 3),           # total is 3: this one finishes the task
        "reset_c1": lambda e: e["p"].reset(e["t"], completed=1),
    }


CH = {
    # id: threads -> op lists
    "P1": {"A": ["adv1"], "B": ["adv2"]},
    "P2": {"A": ["adv1", "adv1"], "B": ["upd_adv1"]},
    "P3": {"A": ["adv1"], "B": ["upd_c5"]},
    "P4": {"A": ["adv2"], "B": ["upd_tot4"]},
    "P5": {"A": ["adv1"], "B": ["reset"]},
    "P6": {"A": ["adv1"], "B": ["adv2"], "X": ["refresh"]},
    "P7": {"A": ["adv1_refresh"], "B": ["adv2"]},
    "P8": {"A": ["adv1"], "B": ["upd_adv1"], "X": ["adv2"]},
    "P9": {"A": ["add_a", "adv_a3"], "B": ["add_b", "adv_b5"]},
    "P10": {"A": ["adv1"], "B": ["stop_start"]},
    "P11": {"A": ["adv3"], "B": ["reset"]},                # a finishing advance against a reset
    "P12": {"A": ["upd_c5"], "B": ["reset_c1"]},           # a finishing update against a reset
    "P13": {"A": ["adv3"], "B": ["upd_tot4"]},             # a finishing advance against a total change
}
CPLAN = {
    "quick": [(h, "line", 2) for h in ("P1", "P2", "P3", "P4", "P5", "P7", "P10")] + [(h, "line", 1) for h in ("P6", "P8", "P9", "P11", "P12", "P13")]
             + [(h, "coarse", 2) for h in CH],
    "thorough": [(h, "line", 3) for h in ("P1", "P3", "P4", "P5")] + [(h, "line", 2) for h in ("P2", "P6", "P7", "P8", "P9", "P10", "P11", "P12", "P13")]
                + [(h, "coarse", 3) for h in CH],
}
_SKIP = {}


def _progress_only():
    """Scheduling points at line/bytecode level only inside rich.progress: the accounting state
    (tasks, samples) is touched by no other module; console/live_render/file_proxy keep their
    lock, event and write points."""
    if "codes" not in _SKIP:
        import importlib
        codes = set()
        for name in ("rich.console", "rich.live_render", "rich.file_proxy", "rich.live"):
            codes |= set(sched._code_objects(importlib.import_module(name)))
        _SKIP["codes"] = frozenset(codes)
    sched.SKIP_CODES = _SKIP["codes"]


def _cbuild(s):
    clock = Clock(tick_per_call=True)
    p = _mk_progress(clock, terminal=True, file=sched.RecFile())
    t = p.add_task("t", total=3)
    p.start()
    return {"p": p, "t": t, "clock": clock, "ids": {}}


def _cobserve(env):
    task = env["p"].tasks[0]
    others = sorted((t.description, t.total, t.completed) for t in env["p"].tasks[1:])
    return {"completed": task.completed, "total": task.total, "finished": task.finished,
            "percentage": task.percentage, "speed": task.speed, "time_remaining": task.time_remaining,
            "samples": [(s.timestamp, s.completed) for s in task._progress], "started": task.started,
            "others": others, "ids": sorted(env["ids"].items()), "ntasks": len(env["p"].tasks)}


def _cmake(hid):
    threads = CH[hid]
    ops = _cops()

    def make(s):
        env = _cbuild(s)

        def runner(names):
            def go():
                for n in names:
                    ops[n](env)
            return go
        return {tid: runner(names) for tid, names in threads.items()}, lambda: _cobserve(env)
    return make


_CSEQ = {}


def _cseq(hid):
    if hid in _CSEQ:
        return _CSEQ[hid]
    from .c11 import _merges
    ops = _cops()
    outs = []
    for order in _merges(CH[hid]):
        def make(s, order=order):
            env = _cbuild(s)

            def go():
                for _tid, n in order:
                    ops[n](env)
            return {"S": go}, lambda: _cobserve(env)
        s, obs = sched.run_once(make, [], "coarse", 0)
        if s.problem or s.errors:
            raise MachineryError("sequential run failed %s %r %r" % (hid, s.problem, s.errors))
        outs.append(obs)
    _CSEQ[hid] = outs
    return outs


def _cjudge(hid, s, obs):
    v = []
    if s.problem:
        return (hid, "problem"), [("conc/%s/%s" % (hid, s.problem.split(":")[0]), s.problem)]
    for tid, e in s.errors:
        v.append(("conc/%s/exception/%s" % (hid, type(e).__name__), "thread %s raised %r" % (tid, e)))
    seq = _cseq(hid)
    fin = {(o["completed"], o["total"], o["finished"], o["percentage"], tuple(o["others"]), o["ntasks"],
            len(set(i for _, i in o["ids"]))) for o in seq}
    mine = (obs["completed"], obs["total"], obs["finished"], obs["percentage"], tuple(obs["others"]), obs["ntasks"],
            len(set(i for _, i in obs["ids"])))
    if mine not in fin:
        key = "conc/%s/not-linearizable" % hid
        if obs["completed"] not in {o["completed"] for o in seq}:
            key = "conc/%s/lost-or-duplicated-update" % hid
        elif (tuple(obs["others"]), obs["ntasks"]) not in {(tuple(o["others"]), o["ntasks"]) for o in seq}:
            key = "conc/%s/task-lost-or-mixed-up" % hid
        v.append((key, "final (completed,total,finished,percentage)=%r; sequential orders give %r" % (mine, sorted(fin, key=repr))))
    if obs["speed"] is not None and obs["speed"] < 0:
        v.append(("conc/%s/negative-speed" % hid, "speed %r samples %r" % (obs["speed"], obs["samples"])))
    if obs["time_remaining"] is not None and obs["time_remaining"] < 0:
        v.append(("conc/%s/negative-time_remaining" % hid, "time_remaining %r samples %r" % (obs["time_remaining"], obs["samples"])))
    ts = [t for t, _ in obs["samples"]]
    sig = (hid, mine, ts == sorted(ts))
    return sig, v


def _run_conc(sh, res):
    hid, gran, bound = sh["h"], sh["gran"], sh["bound"]
    sched.install()
    _progress_only()
    _cseq(hid)

    def judge(s, obs):
        sig, vio = _cjudge(hid, s, obs)
        res.evaluations += 1
        res.sig(sig, nontrivial=True)
        res.count("choice_points", len(s.choices))
        for key, detail in vio:
            res.violate(key, {"part": "conc", "h": hid, "gran": gran, "choices": list(s.choices)}, detail)
    st = sched.explore(_cmake(hid), bound, judge, granularity=gran, timeout_budget=0,
                       first_level=(sh["i"], sh["n"]), stop=deadline_passed)
    res.count("schedules", st["executions"])
    tag = "%s:%s:b%d" % (hid, gran, bound)
    if st["complete"]:
        res.count("complete:" + tag)
    else:
        res.capped = True
        res.count("incomplete:" + tag)
    if sh["i"] == 0:
        res.sample({"part": "conc", "harness": hid, "threads": CH[hid], "granularity": gran, "bound": bound}, limit=1)


def _track_auto_make(n, kind):
    def make(s):
        clock = Clock(tick_per_call=True)
        from rich.console import Console
        from rich.progress import Progress
        c = Console(file=sched.RecFile(), width=40, height=10, force_terminal=True, color_system=None,
                    legacy_windows=False, _environ={}, get_time=clock)
        p = Progress("{task.description}", console=c, auto_refresh=True, redirect_stdout=False,
                     redirect_stderr=False, get_time=clock)
        # auto_refresh=True selects the _TrackThread path of track(); the display itself is not started
        seq = list(range(10, 10 + n))
        got = []

        def go():
            src = seq if kind == "list" else (x for x in seq)
            for x in p.track(src, total=n if kind != "list" else None):
                got.append(x)
        return {"A": go}, lambda: {"got": list(got), "seq": seq, "completed": p.tasks[0].completed if p.tasks else None}
    return make


def _run_track_auto(sh, res):
    sched.install()
    _progress_only()
    n, kind = sh["n"], sh["kind"]

    def judge(s, obs):
        res.evaluations += 1
        case = {"part": "track-auto", "n": n, "kind": kind, "choices": list(s.choices), "tb": sh["tb"], "bound": sh["bound"]}
        if s.problem:
            res.violate("track-auto/%s" % s.problem.split(":")[0], case, s.problem)
        for tid, e in s.errors:
            res.violate("track-auto/exception/%s" % type(e).__name__, case, "thread %s raised %r" % (tid, e))
        if obs["got"] != obs["seq"]:
            res.violate("track-auto/elements", case, "yielded %r from %r" % (obs["got"], obs["seq"]))
        if obs["completed"] != n:
            res.violate("track-auto/completed", case, "completed %r after %d elements" % (obs["completed"], n))
        res.sig(("track-auto", n, kind, s.timeouts_fired), nontrivial=s.timeouts_fired > 0)
        res.count("choice_points", len(s.choices))
    st = sched.explore(_track_auto_make(n, kind), sh["bound"], judge, granularity="line", timeout_budget=sh["tb"],
                       first_level=(sh["i"], sh["nsh"]), stop=deadline_passed)
    res.count("schedules", st["executions"])
    if not st["complete"]:
        res.capped = True


# ----------------------------------------------------------------------------- protocol
def plan(tier, seed):
    shards = []
    depth1 = 4 if tier == "quick" else 5
    depth2 = 2 if tier == "quick" else 3
    for i in range(len(ADD)):
        shards.append({"part": "seq1", "init": i, "depth": depth1})
    for i in range(4):
        shards.append({"part": "seq2", "i": i, "n": 4, "depth": depth2})
    shards.append({"part": "track"})
    for i in range(8):
        shards.append({"part": "fw", "i": i, "n": 8})
    shards.append({"part": "track-real"})
    for n in range(0, 3 if tier == "quick" else 5):
        for kind in ("list", "generator"):
            for i in range(4):
                shards.append({"part": "track-auto", "n": n, "kind": kind, "tb": 2, "bound": 2 if tier == "quick" else 3,
                               "i": i, "nsh": 4})
    for h, gran, bound in CPLAN[tier]:
        n = 2 if gran == "coarse" else 8
        for i in range(n):
            shards.append({"part": "conc", "h": h, "gran": gran, "bound": bound, "i": i, "n": n})
    return shards


def run_shard(sh, tier, seed):
    res = Result()
    part = sh["part"]
    if part == "seq1":
        _bfs([[("add", ADD[sh["init"]])]], _events(1), sh["depth"], res, "seq1")
    elif part == "seq2":
        inits = [[("add", a), ("add", b)] for a in (ADD[0], ADD[3]) for b in (ADD[0], ADD[5])]
        _bfs([inits[sh["i"]]], _events(2), sh["depth"], res, "seq2")
    elif part == "fw":
        _run_fw(sh, tier, res)
    elif part == "track":
        for case in _track_cases():
            _check_track_seq(case, res)
        res.sample({"part": "track", "n": 3, "kind": "generator"}, limit=1)
    elif part == "track-real":
        from .. import cold
        zy = cold.Zygote("vf.checks.c12", "_real_setup")
        try:
            for case in _track_real_cases():
                _check_track_real(case, res, zy)
        finally:
            zy.close()
        res.sample({"part": "track-real", "n": 3, "kind": "generator", "mode": "fresh-progress", "runs": 3}, limit=1)
    elif part == "track-auto":
        _run_track_auto(sh, res)
    elif part == "conc":
        _run_conc(sh, res)
    return res


def finish(tier, seed, res):
    for key, (size, cj, detail) in list(res.violations.items()):
        case = json.loads(cj)
        if case.get("part") in ("conc", "track-auto"):
            def keys():
                return sorted({k for k, _ in replay(case)})     # details may hold addresses; the keys are the verdict
            a, b = keys(), keys()
            if a == b and key in a:
                continue
            # the parent had not run this harness before: a finding that is absent in the first replay and present,
            # identically, in the second and third depends on an earlier run in the same process (state kept between
            # executions) -- deterministic, and a violation in its own right
            c = keys()
            if b == c and key in b:
                continue
            stable = b if (b == c and b) else (a if (a == b and a) else None)
            if stable:
                # the schedule violates the property every time it is replayed, but under other keys than the worker
                # saw (its process had a different past): report what reproduces, not what does not
                size, cj, detail = res.violations.pop(key)
                res.vcount.pop(key, None)
                res.count("unreproduced_keys_replaced")
                for k2 in stable:
                    if k2 not in res.violations:
                        res.violate(k2, case, "replayed in the parent: %s (the worker reported %s: %s)" % (k2, key, detail[:200]))
                continue
            raise MachineryError("schedule replay not reproducible for %s: %r vs %r vs %r" % (key, a, b, c))


def describe(tier, seed, res):
    done = sorted(k[9:] for k in res.counters if k.startswith("complete:"))
    return {
        "rule": "sequential: BFS from each of 16 add_task variants over {advance x5, update x17, reset x8, start_task, stop_task, "
                "tick x2} with dedup on (total, completed, relative start/stop times, finished_time, relative samples); two-task "
                "BFS at smaller depth; float-window histories (1..%d advances by amounts from {0.1, 0.2, 0.3, 0.7, 1.1, 3}, at one time or 1 s apart, through advance() or update(advance=), then a clock jump of 40 s / 29 s around the 30 s speed window, a further advance from {0, 0.1, 0.3, 1, 1.1}, 1 s, a last advance from {0, 0.1}; every event judged); track() over lists/generators of length 0..4 without and (under the scheduler, timeout "
                "budget 2) with the helper thread. track() with its real helper thread: three consecutive runs in one cold process (fresh and shared Progress), final counts. concurrent: harnesses P1..P13 (2-3 threads, mutators on one task; P9 two threads each adding and advancing their own task; P11-P13 a finishing advance/update against reset / total change) -- every "
                "schedule within the preemption bound at bytecode granularity inside the mutators. non-trivial = the task "
                "finished or has a speed estimate (sequential), every schedule (concurrent); distinct = outcome signatures." % (3 if tier == "quick" else 4),
        "assumptions": [
            "monotone clock; tick-per-call clock in concurrent harnesses so that two reads are ordered",
            "counters capped at |completed| <= 12 for state dedup (events are still executed and judged beyond, not extended)",
            "a task that never left completed >= total since its last reset / total change must not report finished",
            "stop_task() starts a never-started task (that is what the code does and documents)",
        ],
        "coverage": {
            "states": res.counters.get("states", 0) + res.counters.get("choice_points", 0),
            "transitions": res.counters.get("transitions", 0) + res.counters.get("schedules", 0),
            "traces_validated_against_impl": res.counters.get("transitions", 0) + res.counters.get("schedules", 0),
            "sequential_states": res.counters.get("states", 0),
            "sequential_transitions": res.counters.get("transitions", 0),
            "schedules_explored": res.counters.get("schedules", 0),
            "completed_concurrent_bounds": done,
            "explanation": "states = canonical sequential states + scheduling choice points visited; every transition / schedule is an execution of the real code",
        },
    }


def replay(case):
    res = Result()
    part = case.get("part")
    if part == "seq":
        hist = [tuple(e) if not isinstance(e, tuple) else e for e in case["history"]]
        hist = [tuple(x if not isinstance(x, list) else tuple(x) for x in e) for e in hist]
        clock = Clock()
        p = _mk_progress(clock)
        ids, refs = [], []
        out = []
        for ev in hist:
            touched = _apply(p, clock, ids, refs, ev)
            out += _check(p, ids, refs, ev, touched)
        return sorted(set(out))
    if part == "track":
        _check_track_seq(case, res)
    elif part == "track-real":
        from .. import cold
        zy = cold.Zygote("vf.checks.c12", "_real_setup")
        try:
            _check_track_real(case, res, zy)
        finally:
            zy.close()
    elif part == "conc":
        sched.install()
        _progress_only()
        s, obs = sched.run_once(_cmake(case["h"]), case["choices"], case["gran"], 0)
        if s.problem and s.problem.startswith("divergence"):
            return [("replay-divergence", s.problem)]
        _sig, vio = _cjudge(case["h"], s, obs)
        return sorted(set(vio))
    elif part == "track-auto":
        sched.install()
        _progress_only()
        s, obs = sched.run_once(_track_auto_make(case["n"], case["kind"]), case["choices"], "line", case["tb"])
        out = []
        if s.problem:
            out.append(("track-auto/%s" % s.problem.split(":")[0], s.problem))
        for tid, e in s.errors:
            out.append(("track-auto/exception/%s" % type(e).__name__, repr(e)))
        if obs["got"] != obs["seq"]:
            out.append(("track-auto/elements", repr(obs)))
        if obs["completed"] != case["n"]:
            out.append(("track-auto/completed", repr(obs)))
        return out
    return [(k, v[2]) for k, v in sorted(res.violations.items())]
