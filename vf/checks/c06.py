"""C06 -- Styles form a consistent algebra, round-trip through text, and hash consistently.

Every case is a *description* (attrs, color spec, bgcolor spec, link) from which fresh
rich Styles are built; the oracle works on the descriptions (RefStyle algebra from
vf/refstyle.py, colour names resolved through the table in docs/source/appendix/colors.rst,
never through rich.color).

(pairs)  U x U: a+b against RefStyle(a)+RefStyle(b) (identity, right-bias per field), against
         the keyword-built style of the merged description (rich ==, hash, dict lookup), and
         the ==/hash contract between the operands themselves.
(assoc)  B^3 for a basis B containing every kind of field + per attribute all 27 state
         triples: (a+b)+c == a+(b+c) == chain(a,b,c) == reference.
(derived) every route-built style is also used as an OPERAND: d+x and x+d for 6 keyword-built
         partners x (null, attributes, colours, link, mixed, single attribute) against the Ref sum
         and against the same sum with the equal keyword-built style (==, hash), and bool(d) must
         not be False when d specifies something (equal styles are interchangeable in +); all
         triples over 25 derived operands (without_color, update_link incl. None, from_color, copy,
         parse, + and chain results, background_style) and 6 keyword-built partners, derived
         operand in every position.
(history) parse / normalize memo histories: 140 events (parse of each spelling, normalize, parse of
         str(keyword-built)) over 22 style groups whose spellings either denote the same style
         (abbreviations, extra spaces, word order, upper-case words) or collide after lower-casing /
         whitespace normalisation although they denote different styles (links differing only in
         letter case, trailing slash, query case); all ordered pairs (thorough: + related triples of
         parse events), each history from empty caches (cache_clear(), or a forked child of a
         process that has parsed nothing when a memo is not an lru_cache); every step must give the
         style of its own definition. Keys history/parse/<event>/<what it follows>/<clause>.
(fault)   error-path histories of length 2-3 over 15 valid probe operations (parse, normalize,
         parse(str(s)), Console.get_style, +, chain, Color.parse) and 226 failing operations: 72
         definitions rejected at word group k for every k of 3 bases x 8 ways of being rejected, each
         through Style.parse (raises), Style.normalize and Console.get_style(default=) (swallow it),
         failing Color.parse, failing + / combine / chain; shapes fv, fvv, vfv, ffv (thorough also
         fv1v2 and the wide ff product), each with a cold and a warm memo and closed by a sentinel
         definition no history parses before; every valid step must still give the style of its own
         definition. Keys history/fault/<entry point of the responsible failing operation>/<clause>.
(spell)   spelling variants of 18 colours (every form: name, bright/256 name, color(n), #hex, rgb(),
         default): 6 letter-case variants x 5 blank paddings, and for rgb() all 63 placements of
         blanks inside the parentheses, through every route that takes the raw string (color= /
         bgcolor= keyword, Color.parse -> keyword, from_color), fg / bg / both, plain and with
         bold+link: equal (==, hash, str()) to the canonical spelling and parse(str(s)) == s.
(routes) for every s in U every construction route (keywords twice, Color objects, parse of
         independent spellings, a+b for every split of the fields with and without overridden
         left values, chain/combine, copy, update_link, without_color, from_color,
         background_style, null-equal operands from every route on both sides; cold and
         after str()/render() on the source): value, ==, hash, dict/set lookup against the
         keyword-built style, and str()/normalize() round trip of the route-built object.
(vec)    attribute vectors (quick: <=3 specified + all 2^13 fully specified; thorough: all
         3^13): accessors, str/normalize round trip, low+high split and full override.
(docs)   every attribute spelling of docs/source/style.rst with and without "not", the doc
         examples, every colour name of the appendix table (number, type, rgb), color(n) for
         all n, #hex / rgb() on a per-channel grid (quick 25, thorough 70 values + each
         channel over all 256), default, on, link.

Measured: quick 5.5 M evaluations (19.6 k cache histories, 56.6 k fault-history runs, 689 colour
spelling variants), 625 distinct outcome signatures, ~125 CPU-s (69 s wall on 16 workers at load
average 96; ~20 s on a quiet machine); thorough (before the spell part) 28.8 M evaluations, ~16 CPU-min.
"""
import itertools
import os
import re
import traceback

from ..par import Result, deadline_passed
from ..refstyle import ATTRS, NULL, RefStyle, canon_color

ID = "C06"
LEVEL = "exploration"
ENGINE = "E1"
CAP_S = {"quick": 240, "thorough": 1500}
TECHNIQUE = ("bounded-exhaustive enumeration of style descriptions, operand pairs/triples and construction "
             "routes on the real Style class, judged by the RefStyle algebra, Python's ==/hash contract and "
             "the documented spellings (docs tables)")
LEVEL_TEXT = ("Every style of a syntax-directed universe (each attribute in each state, all attribute pairs, every "
              "kind of colour for foreground and background, links), every ordered pair of them, every triple of a "
              "basis, every construction route to each style and every documented spelling is executed on the real "
              "code and compared with an independent reference. Exhaustive inside the stated bounds; nothing is sampled.")
LEVEL_NOTE = ("Trusted: CPython, vf/refstyle.py, the 60-line description algebra in vf/checks/c06.py, the colour table "
              "of docs/source/appendix/colors.rst. Bounds: U = 1336 styles (quick) / 2096 (thorough); basis 40 / 90; "
              "attribute vectors <=3 specified + 2^13 full (quick) / all 3^13 (thorough).")

IDX = {a: i for i, a in enumerate(ATTRS)}
U1 = "https://example.org/A?b=1"     # upper case on purpose: nothing may lower-case a URL
U2 = "u2"
U1C = "https://example.org/a?B=1"    # U1 with the case of path and query flipped: a different URL
U1S = "https://example.org/A/?b=1"   # U1 with a trailing slash on the path: a different URL
COLORS = ["red", "bright_red", "grey0", "color(0)", "color(7)", "color(8)", "color(15)", "color(16)",
          "color(255)", "#af00ff", "rgb(175,0,255)", "default"]


# ------------------------------------------------------------------ docs (independent tables)
_DOCS = {}


def docs():
    root = os.environ.get("VF_REPO") or "/repo"
    if root in _DOCS:
        return _DOCS[root]
    with open(os.path.join(root, "docs/source/style.rst"), encoding="utf-8") as f:
        style_rst = f.read()
    with open(os.path.join(root, "docs/source/appendix/colors.rst"), encoding="utf-8") as f:
        colors_rst = f.read()
    names = {}
    for line in colors_rst.splitlines():
        plain = re.sub(r"<[^>]+>", "", line)
        m = re.search(r'│\s*(\d+)\s*│\s*"([a-z0-9_]+)"\s*│\s*(#[0-9a-f]{6})?\s*│\s*(rgb\(\d+,\d+,\d+\))?\s*║', plain)
        if m:
            names[m.group(2)] = (int(m.group(1)), m.group(3), m.group(4))
    spell = {}
    for m in re.finditer(r'^\* ``"(\w+)"``(?: or ``"(\w+)"``)? for ', style_rst, re.M):
        spell[m.group(1)] = [w for w in m.groups() if w]
    assert len(names) > 200 and len(spell) >= 12, "docs tables not recognised"
    _DOCS[root] = {"names": names, "spell": spell, "style_rst": style_rst}
    return _DOCS[root]


_RGB = re.compile(r"rgb\(\s*(\d+)\s*,\s*(\d+)\s*,\s*(\d+)\s*\)$")


def canon_spec(spec):
    """colour spelling -> canonical tuple, without rich.color."""
    if spec is None:
        return None
    s = spec.strip().lower()
    if s == "default":
        return ("default",)
    names = docs()["names"]
    if s in names:
        n = names[s][0]
        return ("std", n) if n < 16 else ("idx", n)
    m = re.fullmatch(r"color\((\d+)\)", s)
    if m:
        n = int(m.group(1))
        return ("std", n) if n < 16 else ("idx", n)
    m = re.fullmatch(r"#([0-9a-f]{6})", s)
    if m:
        h = m.group(1)
        return ("rgb", int(h[0:2], 16), int(h[2:4], 16), int(h[4:6], 16))
    m = _RGB.match(s)
    if m:
        return ("rgb", int(m.group(1)), int(m.group(2)), int(m.group(3)))
    raise ValueError(spec)


# ------------------------------------------------------------------ descriptions
def D(attrs=(), color=None, bgcolor=None, link=None):
    if isinstance(attrs, dict):
        attrs = attrs.items()
    return (tuple(sorted(((str(a), bool(v)) for a, v in attrs), key=lambda av: IDX[av[0]])), color, bgcolor, link)


def dj(case_desc):
    """JSON form -> description"""
    a, c, b, l = case_desc
    return D([tuple(x) for x in a], c, b, l)


NULLD = D()


def kwargs(d):
    kw = dict(d[0])
    if d[1] is not None:
        kw["color"] = d[1]
    if d[2] is not None:
        kw["bgcolor"] = d[2]
    if d[3] is not None:
        kw["link"] = d[3]
    return kw


def build(d):
    from rich.style import Style
    return Style(**kwargs(d))


def ref(d):
    return RefStyle(dict(d[0]), canon_spec(d[1]), canon_spec(d[2]), d[3])


def merge(d1, d2):
    """right wins where it specifies -- on descriptions (keeps the right spelling of a colour)"""
    attrs = dict(d1[0])
    attrs.update(dict(d2[0]))
    return D(attrs, d2[1] if d2[1] is not None else d1[1], d2[2] if d2[2] is not None else d1[2],
             d2[3] if d2[3] is not None else d1[3])


def fields(d):
    """the specified fields of a description, as single-field descriptions"""
    out = [D([av]) for av in d[0]]
    if d[1] is not None:
        out.append(D(color=d[1]))
    if d[2] is not None:
        out.append(D(bgcolor=d[2]))
    if d[3] is not None:
        out.append(D(link=d[3]))
    return out


def alt(d):
    """same fields, every value different"""
    return D([(a, not v) for a, v in d[0]],
             None if d[1] is None else ("green" if d[1] != "green" else "blue"),
             None if d[2] is None else ("color(2)" if d[2] != "color(2)" else "blue"),
             None if d[3] is None else d[3] + "/other")


def spell(d, variant=0):
    """independent speller of a style definition. variants: 0 canonical order, 1 reversed groups
    and documented abbreviations, 2 extra whitespace"""
    sp = docs()["spell"]
    groups = []
    for a, v in d[0]:
        w = a
        if variant == 1 and a in sp:
            w = sp[a][-1]
        groups.append(w if v else "not " + w)
    if d[1] is not None:
        groups.append(d[1])
    if d[2] is not None:
        groups.append("on " + d[2])
    if d[3] is not None:
        groups.append("link " + d[3])
    if variant == 1:
        groups.reverse()
    if variant == 2:
        return "  " + "   ".join(g.replace(" ", "  ") for g in groups) + " "
    return " ".join(groups)


# ------------------------------------------------------------------ universe
def universe(tier):
    thorough = tier != "quick"
    out, seen = [], set()

    def add(d):
        if d not in seen:
            seen.add(d)
            out.append(d)

    add(NULLD)
    singles = [D([(a, v)]) for a in ATTRS for v in (True, False)]
    for s in singles:
        add(s)
    for c in COLORS:
        add(D(color=c))
    for c in COLORS:
        add(D(bgcolor=c))
    add(D(link=U1))
    add(D(link=U2))
    add(D(link=U1C))
    add(D(link=U1S))
    for a, b in itertools.combinations(ATTRS, 2):
        for va in (True, False):
            for vb in (True, False):
                add(D([(a, va), (b, vb)]))
    for c in COLORS:
        for b in COLORS:
            add(D(color=c, bgcolor=b))
    amix = [(), [("bold", True)], [("bold", False)], [("bold", True), ("italic", False)],
            [("dim", False), ("overline", True)], [("italic", True), ("underline2", True), ("blink", False)]]
    cmix = [(None, None), ("red", None), (None, "blue"), ("red", "blue"), ("default", "default"),
            ("#af00ff", "color(16)"), ("color(1)", None), ("rgb(175,0,255)", "grey0")]
    for a in amix:
        for c, b in cmix:
            for l in (None, U1, U2):
                add(D(a, c, b, l))
    for a in amix[:3]:
        for c, b in cmix[:4]:
            for l in (U1C, U1S):
                add(D(a, c, b, l))
    for s in singles:
        for c in COLORS:
            add(D(s[0], color=c))
        for l in (U1, U2):
            add(D(s[0], link=l))
    for s in singles:
        for c in COLORS:
            add(D(s[0], bgcolor=c))
    if thorough:
        for a, b in itertools.combinations(ATTRS, 2):
            for va in (True, False):
                for vb in (True, False):
                    add(D([(a, va), (b, vb)], "red", "color(16)", U1))
        for a, b, c in itertools.combinations(ATTRS[:7] + ATTRS[12:], 3):
            for va, vb, vc in itertools.product((True, False), repeat=3):
                add(D([(a, va), (b, vb), (c, vc)]))
    return out


def basis(tier):
    b = [NULLD,
         D([("bold", True)]), D([("bold", False)]), D([("italic", True)]), D([("italic", False)]),
         D([("overline", True)]), D([("overline", False)]), D([("strike", True)]),
         D([("bold", True), ("italic", False)]), D([("bold", False), ("italic", True)]),
         D([("dim", True), ("overline", False)]), D([("blink", True), ("blink2", False), ("underline2", True)]),
         D(color="red"), D(color="color(1)"), D(color="bright_red"), D(color="#af00ff"), D(color="rgb(175,0,255)"),
         D(color="default"), D(color="grey0"), D(color="color(255)"),
         D(bgcolor="blue"), D(bgcolor="default"), D(bgcolor="#000000"), D(bgcolor="color(16)"),
         D(color="red", bgcolor="blue"), D(color="default", bgcolor="default"), D(color="#af00ff", bgcolor="grey0"),
         D(link=U1), D(link=U2),
         D([("bold", True)], "red"), D([("bold", False)], None, "blue"), D([("italic", True)], link=U1),
         D([("bold", True)], "red", "blue", U1), D([("bold", False), ("overline", True)], "default", None, U2),
         D([("underline", True)], None, "default", U2), D(color="green", link=U1), D(bgcolor="green", link=U2),
         D([("reverse", True), ("conceal", False)]), D([("frame", True), ("encircle", True)], "color(8)"),
         D([(a, True) for a in ATTRS])]
    assert len(b) == 40 and len(set(b)) == 40
    if tier != "quick":
        seen = set(b)
        extra = [D([(a, v)]) for a in ATTRS for v in (True, False)]
        extra += [D([(a, False) for a in ATTRS]), D([(a, i % 2 == 0) for i, a in enumerate(ATTRS)])]
        extra += [D(color=c) for c in COLORS] + [D(bgcolor=c) for c in COLORS]
        extra += [D([("dim", v)], c, g, l) for v in (True, False) for c, g, l in
                  (("red", None, U1), (None, "red", U2), ("color(7)", "color(7)", None), ("default", "#af00ff", U1))]
        extra += [D([(a, v), (c, not v)], link=l) for v in (True, False) for a, c, l in
                  (("underline", "underline2", None), ("blink", "blink2", U1), ("frame", "conceal", U2), ("reverse", "strike", None))]
        for e in extra:
            if e not in seen and len(b) < 90:
                seen.add(e)
                b.append(e)
        assert len(b) == 90
    return b


# keyword-built partners for the derived operands (assoc part) / operands every route-built style is combined with (routes part)
DERIVED_PARTNERS = [D(), D([("bold", True), ("italic", False)]), D(color="green", bgcolor="color(2)"), D(link="other://X"),
                    D([("bold", False), ("underline", True)], "blue", "default", "mix://L"), D([("overline", True)])]
JUDGE_TRUTHY_EMPTY = False   # bool() of a derived style that specifies nothing: counted, not judged (statement is silent)


def attr_triples():
    """per attribute all 27 state triples"""
    for a in ATTRS:
        for states in itertools.product((None, True, False), repeat=3):
            yield tuple(D([] if v is None else [(a, v)]) for v in states)


def vectors(tier):
    """attribute vectors as base-3 numbers (0 unset, 1 on, 2 off)"""
    if tier != "quick":
        for n in range(3 ** 13):
            yield n
        return
    for k in range(0, 4):
        for pos in itertools.combinations(range(13), k):
            for vals in itertools.product((1, 2), repeat=k):
                yield sum(v * 3 ** p for p, v in zip(pos, vals))
    for bits in range(2 ** 13):
        yield sum((1 if bits >> p & 1 else 2) * 3 ** p for p in range(13))


def vec_desc(n):
    attrs = []
    for p in range(13):
        n, t = divmod(n, 3)
        if t:
            attrs.append((ATTRS[p], t == 1))
    return D(attrs)


# ------------------------------------------------------------------ helpers
def _crash_key(e):
    where = "?"
    for fr in reversed(traceback.extract_tb(e.__traceback__)):
        if "/rich/" in fr.filename:
            where = "%s:%s" % (os.path.basename(fr.filename), fr.name)
            break
    return "crash/%s/%s" % (type(e).__name__, where)


def _safe(f):
    """f() or False when the code under test raises (the crash itself is reported by the route that owns it)"""
    try:
        return f()
    except Exception:
        return False


def _eq(x, y):
    """rich's == must say yes in both directions and != must say no"""
    return (x == y) and (y == x) and not (x != y)


def _hash_ok(x, k):
    return hash(x) == hash(k) and {k: 1}.get(x) == 1 and x in {k} and k in {x}


def _diff_field(got, want):
    if got.attrs != want.attrs:
        return "attributes"
    if got.color != want.color:
        return "color"
    if got.bgcolor != want.bgcolor:
        return "bgcolor"
    return "link"


def _roundtrip(x, res):
    """-> None or (form, kind, detail) for style object x"""
    from rich.style import Style
    from rich.errors import StyleSyntaxError
    s = str(x)
    res.evaluations += 1
    try:
        p = Style.parse(s)
    except StyleSyntaxError as e:
        return ("str", "-unparseable", "str() gave %r which does not parse: %s" % (s, e))
    if not _eq(p, x) or RefStyle.from_rich(p) != RefStyle.from_rich(x):
        return ("str", "", "parse(str(s)) != s; str() gave %r, s is %r, parsed back %r" % (
            s, RefStyle.from_rich(x), RefStyle.from_rich(p)))
    if hash(p) != hash(x):
        return ("hash", "", "parse(%r) == s but hashes differ" % s)
    try:
        n = Style.normalize(s)
        p2 = Style.parse(n)
    except StyleSyntaxError as e:
        return ("normalize", "-unparseable", "normalize(%r) does not parse: %s" % (s, e))
    res.evaluations += 1
    if not _eq(p2, x) or RefStyle.from_rich(p2) != RefStyle.from_rich(x):
        return ("normalize", "", "parse(normalize(%r)) != s; normalize gave %r" % (s, n))
    return None


# ------------------------------------------------------------------ (pairs)
def check_pair(di, dj_, res, a=None, b=None, ra=None, rb=None):
    case = {"part": "pair", "a": di, "b": dj_}
    try:
        a = build(di) if a is None else a
        b = build(dj_) if b is None or b is a else b
        ra = ra or ref(di)
        rb = rb or ref(dj_)
        x = a + b
        res.evaluations += 1
        want = ra + rb
        got = RefStyle.from_rich(x)
        if got != want:
            if ra == NULL or rb == NULL:
                key = "add/identity"
            else:
                key = "add/" + _diff_field(got, want)
            res.violate(key, case, "%r + %r gave %r, reference %r" % (ra, rb, got, want))
        else:
            k = build(merge(di, dj_))
            if not _eq(x, k):
                res.violate("add/eq-keywords", case, "a+b has the fields of Style(%r) but does not compare equal to it" % (kwargs(merge(di, dj_)),))
            elif not _hash_ok(x, k):
                res.violate("hash/add", case, "a+b == Style(**%r) but hash %d != %d" % (kwargs(merge(di, dj_)), hash(x), hash(k)))
        e = a == b
        res.evaluations += 1
        if e and ra != rb:
            res.violate("eq/different-styles-compare-equal", case, "%r == %r" % (ra, rb))
        elif not _eq(a, b) and di == dj_:
            res.violate("eq/same-keywords-unequal", case, "Style(**kw) != Style(**kw) for %r" % (kwargs(di),))
        elif e and hash(a) != hash(b):
            res.violate("hash/keywords", case, "equal keyword-built styles hash differently")
    except Exception as exc:
        res.violate(_crash_key(exc), case, traceback.format_exc()[-800:])
        return
    sa, sb = dict(di[0]), dict(dj_[0])
    both = [x_ for x_ in sa if x_ in sb]
    res.sig(("pair", "flip" if any(sa[x_] != sb[x_] for x_ in both) else "same" if both else "-",
             (di[1] is not None) * 2 + (dj_[1] is not None), (di[2] is not None) * 2 + (dj_[2] is not None),
             (di[3] is not None) * 2 + (dj_[3] is not None)),
            nontrivial=di != NULLD and dj_ != NULLD)


def _build_all(descs, res):
    """keyword-built styles; a description whose construction raises is reported once (by the
    routes part too) and left out of the products"""
    out = []
    for d in descs:
        try:
            out.append(build(d))
        except Exception as exc:
            res.violate(_crash_key(exc), {"part": "routes", "d": d, "route": "keywords"}, traceback.format_exc()[-800:])
            out.append(None)
    return out


def _part_pairs(sh, tier, res):
    U = universe(tier)
    built = _build_all(U, res)
    refs = [ref(d) for d in U]
    for i in range(sh["i"], len(U), sh["n"]):
        if deadline_passed():
            res.capped = True
            break
        if built[i] is None:
            continue
        for j in range(len(U)):
            if built[j] is not None:
                check_pair(U[i], U[j], res, built[i], built[j], refs[i], refs[j])
        if i % 211 == 0:
            res.sample({"part": "pair", "a": U[i], "b": U[(i * 7 + 3) % len(U)]}, limit=1)
    res.counters["max_universe"] = len(U)


# ------------------------------------------------------------------ (assoc)
def derived_basis():
    """(name, expected description, factory): operands that are NOT keyword-built -- one or more per
    derivation route and per kind of remaining field (the flags a route sets by hand, e.g. `_null`,
    only show when its result is used as an operand)."""
    from rich.style import Style
    from rich.color import Color
    red, blue = Color.parse("red"), Color.parse("blue")
    return [
        ("without_color:link-only", D(link=U1), lambda: Style(color="red", bgcolor="blue", link=U1).without_color),
        ("without_color:attr-only", D([("bold", True)]), lambda: Style(bold=True, color="red").without_color),
        ("without_color:attr+link", D([("italic", False)], link=U2), lambda: Style(italic=False, bgcolor="blue", link=U2).without_color),
        ("without_color:empty", NULLD, lambda: Style(color="red").without_color),
        ("without_color:of-sum", D(link=U2), lambda: (Style(color="red") + Style(link=U2)).without_color),
        ("update_link:set", D(link=U2), lambda: Style().update_link(U2)),
        ("update_link:replace", D([("italic", False)], "red", None, U1), lambda: Style(italic=False, color="red", link="x://y").update_link(U1)),
        ("update_link:clear", D([("bold", True)]), lambda: Style(bold=True, link=U1).update_link(None)),
        ("update_link:clear-color", D(bgcolor="blue"), lambda: Style(bgcolor="blue", link=U1).update_link()),
        ("update_link:empty", NULLD, lambda: Style(link=U1).update_link()),
        ("from_color:fg", D(color="red"), lambda: Style.from_color(red)),
        ("from_color:bg", D(bgcolor="blue"), lambda: Style.from_color(None, blue)),
        ("from_color:both", D(color="default", bgcolor="default"), lambda: Style.from_color(Color.default(), Color.default())),
        ("from_color:empty", NULLD, lambda: Style.from_color()),
        ("copy:full", D([("bold", True)], "red", "blue", U1), lambda: Style(bold=True, color="red", bgcolor="blue", link=U1).copy()),
        ("copy:link-only", D(link=U2), lambda: Style(link=U2).copy()),
        ("copy:of-derived", D(link=U1), lambda: Style(color="red", link=U1).without_color.copy()),
        ("parse:attrs-bg", D([("bold", False)], None, "blue"), lambda: Style.parse("not bold on blue")),
        ("parse:link", D(link=U1), lambda: Style.parse("link " + U1)),
        ("parse:none", NULLD, lambda: Style.parse("none")),
        ("add:attr+link", D([("bold", True)], link=U1), lambda: Style(bold=True) + Style(link=U1)),
        ("add:colors", D(color="red", bgcolor="blue"), lambda: Style(color="red") + Style(bgcolor="blue")),
        ("add:derived+kw", D([("dim", True)], link=U2), lambda: Style(color="red", link=U2).without_color + Style(dim=True)),
        ("chain:three", D([("strike", True)], "red", None, U2), lambda: Style.chain(Style(strike=True), Style(color="red"), Style(link=U2))),
        ("background_style", D(bgcolor="blue"), lambda: Style(bold=True, color="red", bgcolor="blue", link=U1).background_style),
    ]


def _operand(spec):
    """spec: a description, or "@name" of a derived_basis entry -> (fresh object, description)"""
    if isinstance(spec, str):
        for name, d, make in derived_basis():
            if "@" + name == spec:
                return make(), d
        raise KeyError(spec)
    return build(spec), spec


def check_triple(da, db, dc, res, objs=None, refs=None):
    from rich.style import Style
    case = {"part": "triple", "a": da, "b": db, "c": dc}
    nder = sum(1 for v in (da, db, dc) if isinstance(v, str))
    try:
        if objs is None:
            (a, da), (b, db), (c, dc) = _operand(da), _operand(db), _operand(dc)
        else:
            a, b, c = objs
        ra, rb, rc = refs or (ref(da), ref(db), ref(dc))
        x = (a + b) + c
        y = a + (b + c)
        z = Style.chain(a, b, c)
        res.evaluations += 3
        want = ra + rb + rc
        gx, gy, gz = RefStyle.from_rich(x), RefStyle.from_rich(y), RefStyle.from_rich(z)
        if gx != gy or not _eq(x, y):
            res.violate("assoc/grouping-matters", case, "(a+b)+c = %r but a+(b+c) = %r" % (gx, gy))
        elif gx != want:
            res.violate("assoc/" + _diff_field(gx, want), case, "(a+b)+c = %r, reference %r" % (gx, want))
        elif gz != want or not _eq(z, x):
            res.violate("value/chain", case, "chain(a,b,c) = %r, reference %r" % (gz, want))
        else:
            k = build(merge(merge(da, db), dc))
            if not _eq(x, k):
                res.violate("add/eq-keywords", case, "(a+b)+c has the fields of the keyword-built style but is not == to it")
            elif not (_hash_ok(x, k) and _hash_ok(y, k)):
                res.violate("hash/add", case, "(a+b)+c == a+(b+c) == keyword-built, hashes %d %d %d" % (hash(x), hash(y), hash(k)))
            elif not _hash_ok(z, k):
                res.violate("hash/chain", case, "chain(a,b,c) equals the keyword-built style but hashes differently")
    except Exception as exc:
        res.violate(_crash_key(exc), case, traceback.format_exc()[-800:])
        return
    n = sum(1 for d in (da, db, dc) if d != NULLD)
    over = len(fields(da)) + len(fields(db)) + len(fields(dc)) - len(fields(merge(merge(da, db), dc)))
    res.sig(("triple", n, min(over, 4), min(nder, 2)), nontrivial=n == 3)


def _part_assoc(sh, tier, res):
    B = basis(tier)
    objs = _build_all(B, res)
    refs = [ref(d) for d in B]
    for i in range(sh["i"], len(B), sh["n"]):
        if deadline_passed():
            res.capped = True
            break
        for j in range(len(B)):
            for k in range(len(B)):
                if objs[i] is None or objs[j] is None or objs[k] is None:
                    continue
                check_triple(B[i], B[j], B[k], res, (objs[i], objs[j], objs[k]), (refs[i], refs[j], refs[k]))
    # triples over derived (not keyword-built) operands mixed with keyword-built ones: every position
    specs = ["@" + name for name, _, _ in derived_basis()] + DERIVED_PARTNERS
    for i in range(sh["i"], len(specs), sh["n"]):
        for sj in specs:
            for sk in specs:
                if isinstance(specs[i], str) or isinstance(sj, str) or isinstance(sk, str):
                    check_triple(specs[i], sj, sk, res)
                    res.count("derived_triples")
    if sh["i"] == 0:
        for t in attr_triples():
            check_triple(t[0], t[1], t[2], res)
        res.sample({"part": "triple", "a": B[8], "b": B[12], "c": B[32]}, limit=1)
    res.counters["max_basis"] = len(B)


# ------------------------------------------------------------------ (routes)
def null_equals():
    """(name, factory) of styles that specify nothing, from every route"""
    from rich.style import Style
    return [
        ("Style()", lambda: Style()),
        ("Style.null()", lambda: Style.null()),
        ("parse('none')", lambda: Style.parse("none")),
        ("parse('')", lambda: Style.parse("")),
        ("from_color()", lambda: Style.from_color()),
        ("Style(color='red').without_color", lambda: Style(color="red").without_color),
        ("Style(link='u').update_link(None)", lambda: Style(link="u").update_link(None)),
        ("Style().update_link()", lambda: Style().update_link()),
        ("Style().copy()", lambda: Style().copy()),
        ("Style(bold=None)", lambda: Style(bold=None)),
    ]


def _warm(s):
    """fill the per-object caches of a source style"""
    str(s)
    s.render("x")
    hash(s)
    return s


def check_routes(d, res, only=None, special=None):
    """All construction routes to description d. `only`: restrict to one route name (replay)."""
    from rich.style import Style
    from rich.color import Color
    case0 = {"part": "routes", "d": d}
    if special:
        case0["special"] = special
    try:
        k = build(d)
    except Exception as exc:
        res.violate(_crash_key(exc), dict(case0, route="keywords"), traceback.format_exc()[-800:])
        return
    rk = ref(d)
    base_rt = []   # lazily: how does the keyword-built style itself round-trip?

    def baseline_fails(form):
        if not base_rt:
            try:
                base_rt.append(_roundtrip(build(d), Result()))
            except Exception:
                base_rt.append(("str", "", ""))
        return base_rt[0] is not None and base_rt[0][0] == form

    opsums = {}

    def sums_for(dd, kk):
        """keyword-built kk combined with every partner, both sides; kept only where the Ref sum confirms it"""
        if dd not in opsums:
            lst = []
            for od in DERIVED_PARTNERS:
                try:
                    o, ro, rd = build(od), ref(od), ref(dd)
                    kl, kr = kk + o, o + kk
                    if RefStyle.from_rich(kl) == rd + ro and RefStyle.from_rich(kr) == ro + rd:
                        lst.append((od, o, kl, kr, rd + ro, ro + rd))
                except Exception:
                    pass        # reported by the pairs part
            opsums[dd] = lst
        return opsums[dd]

    def as_operand(x, kk, dd, tag, hkey, case):
        """x equals the keyword-built kk, so it must be interchangeable with it as an operand of +
        (left and right) and in a boolean context."""
        if not x and dd != NULLD:
            res.violate("bool/" + tag, case, "bool() is False for a style that specifies %r" % (kwargs(dd),))
        elif x and dd == NULLD:
            res.count("bool_truthy_but_specifies_nothing")
            if JUDGE_TRUTHY_EMPTY:
                res.violate("bool-empty/" + tag, case, "bool() is True for a style equal to Style()")
        for od, o, kl, kr, wl, wr in sums_for(dd, kk):
            for side, y, ksum, want in (("left", x + o, kl, wl), ("right", o + x, kr, wr)):
                res.evaluations += 1
                c2 = dict(case, partner=od, side=side)
                got = RefStyle.from_rich(y)
                if got != want:
                    what = "identity" if od == NULLD or dd == NULLD else _diff_field(got, want)
                    res.violate("add-derived/%s/%s" % (what, tag), c2,
                                "route-built style as %s operand: got %r, reference %r" % (side, got, want))
                elif not _eq(y, ksum):
                    res.violate("add-derived/eq/" + tag, c2, "sum with the route-built operand is not == to the sum with the equal keyword-built one")
                elif not _hash_ok(y, ksum):
                    res.violate("hash/" + (hkey or "add"), c2, "sum with the route-built operand hashes differently from the sum with the equal keyword-built one")

    def judge(route, make, hkey=None, expect=None, expect_d=None):
        """make() builds the style through `route`; it must equal the keyword-built k."""
        if only and route != only:
            return
        case = dict(case0, route=route)
        kk, rr, dd = (k, rk, d) if expect is None else (expect, ref(expect_d), expect_d)
        try:
            x = make()
            res.evaluations += 1
            got = RefStyle.from_rich(x)
            tag = route.split(":")[0]
            if got != rr:
                res.violate("value/" + tag, case, "route %s gave %r, keywords %r give %r" % (route, got, kwargs(dd), rr))
                res.sig(("route", tag, "value"))
                return
            if not _eq(x, kk):
                res.violate("eq/" + tag, case, "route %s gave the fields of Style(**%r) but is not == to it" % (route, kwargs(dd)))
                return
            if not _hash_ok(x, kk):
                res.violate("hash/" + (hkey or tag), case, "route %s == Style(**%r) but hash %d != %d (or dict/set lookup fails)" % (
                    route, kwargs(dd), hash(x), hash(kk)))
            as_operand(x, kk, dd, tag, hkey, case)
            rt = _roundtrip(x, res)
            if rt:
                form, kind, detail = rt
                if form == "hash":
                    pass        # already reported under hash/<route>
                elif tag == "keywords" or baseline_fails(form):
                    res.violate("roundtrip/%s%s%s" % (form, kind, "(%s)" % special if special else ""), case, detail)
                else:
                    res.violate("roundtrip/%s%s/%s" % (form, kind, tag), case, "only through route %s: %s" % (route, detail))
            res.sig(("route", tag, len(fields(dd)) if len(fields(dd)) < 4 else 4, rt is None))
        except Exception as exc:
            res.violate(_crash_key(exc), case, traceback.format_exc()[-800:])

    def check_accessors():
        got = RefStyle.from_rich(k)
        res.evaluations += 1
        if got != rk:
            res.violate("value/keywords", dict(case0, route="keywords"), "Style(**%r) reads back as %r" % (kwargs(d), got))

    if not only or only == "keywords":
        check_accessors()
    judge("keywords", lambda: build(d))
    if special:
        return

    # Color objects instead of strings
    def colobj(spec):
        if spec is None:
            return None
        c = canon_spec(spec)
        if spec.startswith("color("):
            return Color.from_ansi(c[1])
        if spec.startswith("#"):
            from rich.color_triplet import ColorTriplet
            return Color.from_triplet(ColorTriplet(c[1], c[2], c[3]))
        if spec == "default":
            return Color.default()
        return Color.parse(spec)
    if d[1] is not None or d[2] is not None:
        def with_objects():
            kw = kwargs(d)
            for f in ("color", "bgcolor"):
                if f in kw:
                    kw[f] = colobj(kw[f])
            return Style(**kw)
        if not (str(d[1]) + str(d[2])).count("rgb("):      # from_triplet names it "#rrggbb"
            judge("keywords-color-objects", with_objects)

    # parse of independent spellings
    for v in (0, 1, 2):
        judge("parse:%d" % v, lambda v=v: Style.parse(spell(d, v)))

    # a+b for every split of the fields; chain / combine
    fs = fields(d)
    for mask in range(2 ** len(fs)):
        left, right = NULLD, NULLD
        for i, f in enumerate(fs):
            if mask >> i & 1:
                right = merge(right, f)
            else:
                left = merge(left, f)
        judge("add:%d" % mask, lambda: build(left) + build(right))
        judge("add-warm:%d" % mask, lambda: _warm(build(left)) + _warm(build(right)), hkey="add")
        if right != NULLD:
            judge("add-override:%d" % mask, lambda: build(merge(left, alt(right))) + build(right), hkey="add")
            judge("add-same:%d" % mask, lambda: build(merge(left, right)) + build(right), hkey="add")
        if mask == 2 ** len(fs) - 2 or len(fs) < 2:
            # chain/combine are reported under their own key only when the same fold by + is fine
            plus_ok = _safe(lambda: _hash_ok(build(left) + build(right), k))
            judge("chain:%d" % mask, lambda: Style.chain(build(left), build(right)), hkey="chain" if plus_ok else "add")
            judge("combine:%d" % mask, lambda: Style.combine([build(left), build(right)]), hkey="combine" if plus_ok else "add")
    if fs:
        def fold():
            ops = [build(f) for f in fs]
            acc = ops[0]
            for o in ops[1:]:
                acc = acc + o
            return acc
        plus_ok = _safe(lambda: _hash_ok(fold(), k))
        judge("chain:fields", lambda: Style.chain(*[build(f) for f in fs]), hkey="chain" if plus_ok else "add")
        judge("combine:fields", lambda: Style.combine(build(f) for f in fs), hkey="combine" if plus_ok else "add")
        judge("chain:one", lambda: Style.chain(build(d)))

    # identity with null-equal styles from every route, and None
    judge("add-none", lambda: build(d) + None, hkey="add")
    for name, make_null in null_equals():
        judge("identity-left:" + name, lambda: make_null() + build(d), hkey="add")
        judge("identity-right:" + name, lambda: build(d) + make_null(), hkey="add")

    # copy
    judge("copy:cold", lambda: build(d).copy())
    judge("copy:warm", lambda: _warm(build(d)).copy())

    # update_link
    nolink = D(d[0], d[1], d[2], None)
    for src_name, src in (("nolink", nolink), ("otherlink", D(d[0], d[1], d[2], "other://L"))):
        for warm in (False, True):
            def make(src=src, warm=warm):
                s = build(src)
                if warm:
                    _warm(s)
                return s.update_link(d[3]) if d[3] is not None else s.update_link()
            judge("update_link:%s:%s" % (src_name, "warm" if warm else "cold"), make)

    # without_color (only where d has no colours, so the keyword-built d is the expectation)
    if d[1] is None and d[2] is None:
        for c, b in (("red", None), (None, "blue"), ("#af00ff", "default")):
            for warm in (False, True):
                def make(c=c, b=b, warm=warm):
                    s = build(D(d[0], c, b, d[3]))
                    if warm:
                        _warm(s)
                    return s.without_color
                judge("without_color:%s" % ("warm" if warm else "cold"), make)
    else:
        nocol = D(d[0], None, None, d[3])
        if _safe(lambda: build(nocol)):
            judge("without_color:self", lambda: build(d).without_color, expect=build(nocol), expect_d=nocol)

    # from_color (colour-only styles)
    if not d[0] and d[3] is None:
        judge("from_color", lambda: Style.from_color(None if d[1] is None else Color.parse(d[1]),
                                                     None if d[2] is None else Color.parse(d[2])))
    # background_style
    bgd = D(bgcolor=d[2])
    if _safe(lambda: build(bgd)):
        judge("background_style", lambda: build(d).background_style, expect=build(bgd), expect_d=bgd)


SPECIALS = [("spaced-rgb", D(color="rgb(1, 2, 3)")), ("spaced-rgb", D([("bold", True)], None, "rgb(1, 2, 3)"))]


def _part_routes(sh, tier, res):
    U = universe(tier)
    for i in range(sh["i"], len(U), sh["n"]):
        if deadline_passed():
            res.capped = True
            break
        check_routes(U[i], res)
        if i % 97 == 0:
            res.sample({"part": "routes", "d": U[i]}, limit=2)
    if sh["i"] == 0:
        for sp, d in SPECIALS:
            check_routes(d, res, special=sp)


# ------------------------------------------------------------------ (vec)
def check_vector(n, res):
    from rich.style import Style
    d = vec_desc(n)
    case = {"part": "vec", "n": n, "d": d}
    try:
        k = build(d)
        rk = RefStyle(dict(d[0]))
        res.evaluations += 1
        got = RefStyle.from_rich(k)
        if got != rk:
            res.violate("value/keywords", case, "Style(**%r) reads back as %r" % (kwargs(d), got))
            return
        rt = _roundtrip(k, res)
        if rt:
            res.violate("roundtrip/%s%s" % (rt[0], rt[1]), case, rt[2])
        p = Style.parse(spell(d))
        res.evaluations += 1
        if RefStyle.from_rich(p) != rk or not _eq(p, k):
            res.violate("value/parse", case, "parse(%r) gave %r" % (spell(d), RefStyle.from_rich(p)))
        elif not _hash_ok(p, k):
            res.violate("hash/parse", case, "parse(%r) == keywords but hash differs" % spell(d))
        lo = D([av for av in d[0] if IDX[av[0]] < 7])
        hi = D([av for av in d[0] if IDX[av[0]] >= 7])
        for name, x in (("split", build(lo) + build(hi)), ("override", build(alt(d)) + build(d)),
                        ("left-kept", build(d) + build(NULLD if not d[0] else D([d[0][0]])))):
            res.evaluations += 1
            gx = RefStyle.from_rich(x)
            if gx != rk:
                res.violate("add/attributes", case, "%s: got %r want %r" % (name, gx, rk))
            elif not _eq(x, k):
                res.violate("add/eq-keywords", case, "%s: same fields, not ==" % name)
            elif not _hash_ok(x, k):
                res.violate("hash/add", case, "%s: == keyword-built but hash differs" % name)
    except Exception as exc:
        res.violate(_crash_key(exc), case, traceback.format_exc()[-800:])
        return
    groups = tuple(any(0 <= IDX[a] - lo_ < w for a, _ in d[0]) for lo_, w in ((0, 4), (4, 5), (9, 4)))
    res.sig(("vec", min(len(d[0]), 4), groups, any(not v for _, v in d[0])), nontrivial=bool(d[0]))


def _part_vec(sh, tier, res):
    for idx, n in enumerate(vectors(tier)):
        if idx % sh["n"] != sh["i"]:
            continue
        if idx % 4096 == sh["i"] and deadline_passed():
            res.capped = True
            break
        check_vector(n, res)
    res.sample({"part": "vec", "n": 3 ** 13 - 1 - sh["i"]}, limit=1)


# ------------------------------------------------------------------ (docs)
DOC_EXAMPLES = [
    ("magenta", D(color="magenta")),
    ("color(5)", D(color="color(5)")),
    ("#af00ff", D(color="#af00ff")),
    ("rgb(175,0,255)", D(color="rgb(175,0,255)")),
    ("red on white", D(color="red", bgcolor="white")),
    ("default on default", D(color="default", bgcolor="default")),
    ("blink bold red underline on white", D([("blink", True), ("bold", True), ("underline", True)], "red", "white")),
    ("not bold", D([("bold", False)])),
    ("link https://google.com", D(link="https://google.com")),
    ("italic magenta on yellow", D([("italic", True)], "magenta", "yellow")),
    ("dim cyan", D([("dim", True)], "cyan")),
    ("bold red", D([("bold", True)], "red")),
    ("bold green blink", D([("bold", True), ("blink", True)], "green")),
    ("italic magenta underline", D([("italic", True), ("underline", True)], "magenta")),
]


def check_definition(text, d, res, key, strict_eq=True):
    """Style.parse(text) must be the style described by d."""
    from rich.style import Style
    case = {"part": "doc", "text": text, "d": d, "key": key, "strict": strict_eq}
    try:
        p = Style.parse(text)
        res.evaluations += 1
        got = RefStyle.from_rich(p)
        if got != ref(d):
            res.violate(key, case, "parse(%r) gave %r, documented meaning %r" % (text, got, ref(d)))
            return False
        k = build(d)
        if strict_eq and not _eq(p, k):
            res.violate("eq/parse", case, "parse(%r) has the fields of Style(**%r) but is not == to it" % (text, kwargs(d)))
        elif p == k and not _hash_ok(p, k):
            res.violate("hash/parse", case, "parse(%r) == Style(**%r) but hashes differ" % (text, kwargs(d)))
        return True
    except Exception as exc:
        res.violate(key + "/" + type(exc).__name__, case, traceback.format_exc()[-600:])
        return False


def check_color_name(name, res):
    """one row of the documented colour table"""
    from rich.color import Color
    number, hexv, rgbv = docs()["names"][name]
    case = {"part": "docname", "name": name}
    check_definition(name, D(color=name), res, "docs/color-name")
    check_definition("on " + name, D(bgcolor=name), res, "docs/color-name")
    # the same colour by number must mean the same thing
    check_definition("color(%d)" % number, D(color=name), res, "docs/color-number", strict_eq=False)
    try:
        c = Color.parse(name)
        res.evaluations += 1
        if c.number != number or c.type.name != ("STANDARD" if number < 16 else "EIGHT_BIT"):
            res.violate("docs/color-name", case, "%r parses to %r, documented number %d" % (name, c, number))
        if hexv:
            t = c.get_truecolor()
            if t.hex != hexv or t.rgb != rgbv:
                res.violate("docs/color-table-rgb", case, "%r is documented as %s %s, palette says %s %s" % (name, hexv, rgbv, t.hex, t.rgb))
            if canon_spec(hexv) != canon_spec(rgbv):
                res.violate("docs/table-inconsistent", case, "%s vs %s" % (hexv, rgbv))
    except Exception as exc:
        res.violate(_crash_key(exc), case, traceback.format_exc()[-600:])
    res.sig(("docname", number < 8, number < 16, hexv is not None))


def _part_docs(res):
    dc = docs()
    for text, d in DOC_EXAMPLES:
        if text not in dc["style_rst"]:
            res.count("doc_examples_not_in_docs")
            continue
        check_definition(text, d, res, "docs/example")
        if not d[0] and d[2] is None and d[3] is None:
            check_definition("on " + text, D(bgcolor=text), res, "docs/example")
        res.sig(("example", len(fields(d))))
    # attribute words: documented spellings + the 13 keyword names, with and without "not"
    words = {a: [a] for a in ATTRS}
    for a, sp in dc["spell"].items():
        if a not in words:
            res.violate("docs/attribute-unknown", {"part": "docattr", "attr": a}, "style.rst documents %r, Style has no such keyword" % a)
            continue
        for w in sp:
            if w not in words[a]:
                words[a].append(w)
    for a, ws in words.items():
        for w in ws:
            check_definition(w, D([(a, True)]), res, "docs/attribute")
            check_definition("not " + w, D([(a, False)]), res, "docs/attribute-not")
            check_definition(w + " red on blue link " + U1, D([(a, True)], "red", "blue", U1), res, "docs/attribute")
            check_definition("not " + w + " not " + ws[0], D([(a, False)]), res, "docs/attribute-not")
            res.sig(("attr", w == a))
    res.count("attribute_spellings", sum(len(w) for w in words.values()))
    for name in dc["names"]:
        check_color_name(name, res)
    res.count("colour_names", len(dc["names"]))
    try:
        from rich.color import ANSI_COLOR_NAMES
        res.count("colour_names_undocumented", len(set(ANSI_COLOR_NAMES) - set(dc["names"])))
    except Exception:
        pass
    for n in range(256):
        check_definition("color(%d)" % n, D(color="color(%d)" % n), res, "docs/color-number")
        check_definition("on color(%d)" % n, D(bgcolor="color(%d)" % n), res, "docs/color-number")
        res.sig(("colorn", n < 16))
    for text, d in (("default", D(color="default")), ("on default", D(bgcolor="default")),
                    ("none", NULLD), ("", NULLD), ("bold on default", D([("bold", True)], None, "default"))):
        check_definition(text, d, res, "docs/default")
    res.sample({"part": "doc", "text": "italic magenta on yellow"}, limit=1)


def grid(tier):
    if tier == "quick":
        return sorted(set(list(range(0, 256, 11)) + [255]))             # 24 values
    return sorted(set(list(range(0, 256, 4)) + [255, 1, 95, 135, 175, 215]))


def check_rgb(r, g, b, res):
    hexs = "#%02x%02x%02x" % (r, g, b)
    rgbs = "rgb(%d,%d,%d)" % (r, g, b)
    ok = check_definition(hexs, D(color=hexs), res, "docs/color-hex")
    ok &= check_definition(rgbs, D(color=rgbs), res, "docs/color-rgb()")
    ok &= check_definition("on " + hexs, D(bgcolor=rgbs), res, "docs/color-hex", strict_eq=False)
    ok &= check_definition("on " + rgbs, D(bgcolor=hexs), res, "docs/color-rgb()", strict_eq=False)
    res.sig(("rgb", r == g == b, r in (0, 255), ok), nontrivial=ok)


def _part_grid(sh, tier, res):
    g = grid(tier)
    for i in range(sh["i"], len(g), sh["n"]):
        if deadline_passed():
            res.capped = True
            break
        for gg in g:
            for b in g:
                check_rgb(g[i], gg, b, res)
    if sh["i"] == 0:
        for v in range(256):
            for o1, o2 in ((0, 0), (255, 128), (17, 255)):
                check_rgb(v, o1, o2, res)
                check_rgb(o1, v, o2, res)
                check_rgb(o1, o2, v, res)
        res.sample({"part": "rgb", "rgb": [175, 0, 255]}, limit=1)
    res.counters["max_grid_values_per_channel"] = len(g)


# ------------------------------------------------------------------ (history) parse / normalize caches
FRESH_WORKERS = True     # every shard starts in a newly forked worker: no parse cache carried over


def history_groups():
    """(description, [spellings]): all spellings of a group denote the same style. Groups come in
    families whose spellings collide after lower-casing / whitespace normalisation although they
    denote DIFFERENT styles (everything in a definition is case-insensitive except the URL)."""
    LA, La = "https://example.org/Docs/README", "https://example.org/docs/readme"
    groups = []
    for url in (LA, La, LA + "/"):
        groups.append((D([("bold", True)], link=url),
                       ["bold link " + url, "b link " + url, "  bold   link  " + url + " ", "link " + url + " bold",
                        "BOLD link " + url, "Bold LINK " + url]))
    for url in ("https://example.org/A", "https://example.org/a", "https://example.org/a/",
                "https://example.org/q?Key=V", "https://example.org/q?key=v", U1, U1C, U1S):
        groups.append((D(link=url), ["link " + url, " link  " + url, "LINK " + url]))
    for url in ("X://Y", "x://y"):
        groups.append((D([("italic", False)], "red", "blue", url),
                       ["not italic red on blue link " + url, "not i red on blue link " + url,
                        "link " + url + " on blue red not italic", "NOT Italic RED On Blue link " + url]))
    groups.append((D([("bold", True)], "red"), ["bold red", "b red", "red bold", " bold  red ", "BOLD RED", "Bold Red"]))
    groups.append((D([("bold", True)], "red", "white"), ["bold red on white", "b red on white", "BOLD Red ON White"]))
    groups.append((D([("bold", False)]), ["not bold", "not b", "not  bold", "NOT BOLD"]))
    groups.append((D([("underline2", True)]), ["underline2", "uu", "UU"]))
    groups.append((D([("underline", True)]), ["underline", "u", "U"]))
    groups.append((D(color="#af00ff"), ["#af00ff", " #af00ff", "#AF00FF"]))
    groups.append((D(color="rgb(175,0,255)"), ["rgb(175,0,255)", "RGB(175,0,255)"]))
    groups.append((D(bgcolor="default"), ["on default", "on  default", "ON DEFAULT"]))
    groups.append((NULLD, ["none", "", " none "]))
    return groups


def _nk(text):
    return " ".join(text.lower().split())


def _has_upper_outside_link(text):
    words = text.split()
    out, skip = [], False
    for w in words:
        if skip:
            skip = False
            continue
        if w.lower() == "link":
            skip = True
        out.append(w)
    return any(w != w.lower() for w in out)


def history_events():
    """event = [kind, text, description]; kinds: parse(text), normalize(text) then parse of the normal
    form, kwstr = parse(str(keyword-built style))"""
    ev = []
    for d, spellings in history_groups():
        for t in spellings:
            ev.append(["parse", t, d])
        ev.append(["normalize", spellings[0], d])
        ev.append(["normalize", spellings[-1], d])
        ev.append(["kwstr", spell(d), d])
    return ev


def _clear_caches():
    """-> True when every memo the definitions go through could be emptied"""
    from rich.style import Style
    from rich.color import Color
    ok = True
    for f in (Style.parse, Style.normalize, Color.parse):
        if hasattr(f, "cache_clear"):
            f.cache_clear()
        else:
            ok = False
    return ok


def _history_steps(events):
    """runs the events in order in THIS process; -> per step None | [clause, detail]"""
    from rich.style import Style
    out = []
    for kind, text, d in events:
        if kind.startswith("fault-"):
            out.append(_fault_step(kind, text))
            continue
        if kind in ("add", "color"):
            out.append(_valid_other_step(kind, text))
            continue
        d = dj(d)
        try:
            k = build(d)
            if kind == "get_style":
                p, how = _console().get_style(text), "Console.get_style(%r)" % text
            elif kind == "parse":
                p, how = Style.parse(text), "parse(%r)" % text
            elif kind == "normalize":
                n = Style.normalize(text)
                p, how = Style.parse(n), "parse(normalize(%r) = %r)" % (text, n)
            else:
                p, how = Style.parse(str(k)), "parse(str(Style(**%r)) = %r)" % (kwargs(d), str(k))
            got = RefStyle.from_rich(p)
            if got != ref(d):
                out.append(["value", "%s gave %r, the definition means %r" % (how, got, ref(d))])
            elif not _eq(p, k):
                out.append(["eq", "%s has the fields of Style(**%r) but is not == to it" % (how, kwargs(d))])
            elif not _hash_ok(p, k):
                out.append(["hash", "%s == Style(**%r) but hashes differently" % (how, kwargs(d))])
            else:
                out.append(None)
        except Exception as exc:
            out.append(["error-" + type(exc).__name__, "%s %r: %s" % (kind, text, exc)])
    return out


_CONSOLE = []


def _console():
    if not _CONSOLE:
        import io
        from rich.console import Console
        _CONSOLE.append(Console(file=io.StringIO(), width=80, height=25, force_terminal=False, color_system=None,
                                legacy_windows=False, _environ={}))
    return _CONSOLE[0]


def _fault_step(kind, text):
    """an operation that is expected to fail (raise, or swallow the error as documented). Never judged:
    what it may not do is leave something behind -- that is judged on the valid steps that follow."""
    from rich.style import Style
    from rich.color import Color
    try:
        if kind == "fault-parse":
            Style.parse(text)
        elif kind == "fault-normalize":
            Style.normalize(text)
        elif kind == "fault-get_style":
            _console().get_style(text, default="none")
        elif kind == "fault-color":
            Color.parse(text)
        elif kind == "fault-add":
            if text == "add-int":
                Style(bold=True, link="f://1") + 3
            elif text == "add-str":
                Style(color="red") + "bold"
            elif text == "combine-empty":
                Style.combine([])
            elif text == "combine-bad-tail":
                Style.combine([Style(italic=True, color="green", link="f://2"), Style(strike=False), "x"])
            elif text == "chain-bad-head":
                Style.chain(None, Style(dim=True))
    except BaseException as exc:       # StopIteration etc. included
        if isinstance(exc, (KeyboardInterrupt, SystemExit)):
            raise
    return None


def _valid_other_step(kind, text):
    from rich.style import Style
    from rich.color import Color
    try:
        if kind == "color":
            got, want = canon_color(Color.parse(text)), canon_spec(text)
            return None if got == want else ["value", "Color.parse(%r) means %r, reference %r" % (text, got, want)]
        da, db = D([("bold", True)], "red", None, "v://a"), D([("italic", False)], None, "blue", "v://b")
        x = Style.chain(build(da), build(db)) if text == "chain" else build(da) + build(db)
        got, want = RefStyle.from_rich(x), ref(da) + ref(db)
        if got != want:
            return ["value", "%s of two keyword-built styles gave %r, reference %r" % (text, got, want)]
        k = build(merge(da, db))
        if not _eq(x, k) or not _hash_ok(x, k):
            return ["eq", "%s result is not ==/hash-equal to the keyword-built style" % text]
        return None
    except Exception as exc:
        return ["error-" + type(exc).__name__, "%s %r: %s" % (kind, text, exc)]


def run_history(events, forked, warm=False):
    """Each history starts from empty caches: cleared in place when they are lru_caches, otherwise
    (forked=True) in a child forked from a process that has not parsed anything yet. warm=True: the
    valid probe definitions are parsed once before the history starts (memo filled)."""
    if not forked:
        _clear_caches()
        if warm:
            from rich.style import Style
            for k_, t_, d_ in probe_events():
                if d_ is not None:
                    Style.parse(t_)
        return _history_steps(events)
    if warm:
        events = probe_events() + list(events)
        return run_history(events, True)[len(probe_events()):]
    import json
    r, w = os.pipe()
    pid = os.fork()
    if pid == 0:
        try:
            os.close(r)
            data = json.dumps(_history_steps(events)).encode()
            with os.fdopen(w, "wb") as f:
                f.write(data)
        finally:
            os._exit(0)
    os.close(w)
    with os.fdopen(r, "rb") as f:
        data = f.read()
    os.waitpid(pid, 0)
    return json.loads(data.decode()) if data else [["error-child", "no report from the forked history"]] * len(events)


def check_history(events, res, forked=False, tolerated=()):
    """judge every step; the key names what the failing step follows"""
    outcomes = run_history(events, forked)
    res.evaluations += len(events)
    worst = "cold"
    for j, (ev, oc) in enumerate(zip(events, outcomes)):
        kind, text, d = ev
        rel = "cold"
        for pk, pt, pd in events[:j]:
            if _nk(pt) == _nk(text) and dj(pd) != dj(d):
                rel = "after-case-variant"
                break
            if dj(pd) == dj(d) and pt != text:
                rel = "after-other-spelling"
            elif rel == "cold":
                rel = "after-unrelated" if dj(pd) != dj(d) else "after-itself"
        worst = rel
        if oc is not None and text not in tolerated:
            res.violate("history/parse/%s/%s/%s" % (kind, rel, oc[0]), {"part": "history", "events": events},
                        "step %d of %d: %s" % (j + 1, len(events), oc[1]))
    res.sig(("history", len(events), events[-1][0], worst, all(o is None for o in outcomes)),
            nontrivial=len(events) > 1 and worst != "after-unrelated")
    return outcomes


def _part_history(sh, tier, res):
    ev = history_events()
    forked = not _clear_caches()
    res.counters["history_forked"] = 1 if forked else 0
    # upper-case words are accepted by the parser but not documented: a spelling that does not even
    # parse from empty caches is left out (counted); lower-case spellings are judged cold too
    tolerated = set()
    for e in ev:
        if _has_upper_outside_link(e[1]):
            if run_history([e], forked)[0] is not None:
                tolerated.add(e[1])
    res.counters["max_history_spellings_not_accepted_cold"] = len(tolerated)
    ev = [e for e in ev if e[1] not in tolerated]
    if sh["i"] == 0:
        for e in ev:
            check_history([e], res, forked)
    parse_ev = [e for e in ev if e[0] == "parse"]
    for i in range(sh["i"], len(ev), sh["n"]):
        if deadline_passed():
            res.capped = True
            break
        for e2 in ev:
            check_history([ev[i], e2], res, forked)
            res.count("histories")
        if tier != "quick" and ev[i][0] == "parse":
            # thorough: all triples of parse events whose last two or first and last are related
            for e2 in parse_ev:
                for e3 in parse_ev:
                    if _nk(e3[1]) in (_nk(ev[i][1]), _nk(e2[1])) or dj(e3[2]) in (dj(ev[i][2]), dj(e2[2])):
                        check_history([ev[i], e2, e3], res, forked)
                        res.count("histories")
    res.counters["max_history_events"] = len(ev)
    res.sample({"part": "history", "events": [ev[0], ev[len(ev) // 3]]}, limit=1)


# ------------------------------------------------------------------ (spell) spelling variants of colours
SPELL_CANON = COLORS + ["#abcdef", "#ff8800", "color(9)", "rgb(255,136,0)", "bright_black", "dark_olive_green3"]


def _form(c):
    return "hex" if c[0] == "#" else "rgb" if c.startswith("rgb") else "color-n" if c.startswith("color(") else \
        "default" if c == "default" else "name"


def spelling_variants(c):
    """raw strings every route that takes a colour string must read as the colour c: letter case and
    surrounding blanks for every form, blanks inside the parentheses of rgb()"""
    alt = "".join(ch.upper() if i % 2 else ch for i, ch in enumerate(c))
    cases = [c, c.upper(), c.capitalize(), c.title(), alt, alt.swapcase()]
    out = []
    for v in cases:
        for pre, post in (("", ""), (" ", ""), ("", " "), ("  ", "\t"), ("\n", "\n")):
            w = pre + v + post
            if w != c and w not in out:
                out.append(w)
    if c.startswith("rgb("):
        r, g, b = c[4:-1].split(",")
        for m in range(1, 64):
            sp = [" " if m >> i & 1 else "" for i in range(6)]
            for name in ("rgb", "RGB"):
                w = "%s(%s%s%s,%s%s%s,%s%s%s)" % (name, sp[0], r, sp[1], sp[2], g, sp[3], sp[4], b, sp[5])
                if w not in out:
                    out.append(w)
    return out


def check_spelling(c, v, res):
    """every route that accepts the raw string v (a spelling of the canonical c) must give the style of c"""
    from rich.style import Style
    from rich.color import Color
    form = _form(c)
    for pos in ("fg", "bg", "both"):
        for ctx in ((), (("bold", True),)):
            link = U1 if ctx else None
            kd = D(ctx, c if pos != "bg" else None, c if pos != "fg" else None, link)
            kwv = kwargs(D(ctx, v if pos != "bg" else None, v if pos != "fg" else None, link))
            routes = [("keyword", lambda: Style(**kwv)),
                      ("Color.parse", lambda: Style(**{k_: (Color.parse(x) if k_ in ("color", "bgcolor") else x) for k_, x in kwv.items()}))]
            if not ctx:
                routes.append(("from_color", lambda: Style.from_color(Color.parse(v) if pos != "bg" else None,
                                                                    Color.parse(v) if pos != "fg" else None)))
            for rname, make in routes:
                case = {"part": "spell", "c": c, "v": v}
                res.evaluations += 1
                try:
                    k, s = build(kd), make()
                    got = RefStyle.from_rich(s)
                    clause = None
                    if got != ref(kd):
                        clause, detail = "value", "means %r, the colour is %r" % (got, ref(kd))
                    elif not _eq(s, k):
                        clause, detail = "eq", "is not == to the style spelled %r (colour names %r / %r)" % (
                            c, (s.color or s.bgcolor).name, (k.color or k.bgcolor).name)
                    elif not _hash_ok(s, k):
                        clause, detail = "hash", "== the style spelled %r but hashes differently" % c
                    elif str(s) != str(k):
                        clause, detail = "str", "str() %r differs from %r of the equal style" % (str(s), str(k))
                    else:
                        rt = _roundtrip(s, res)
                        if rt and rt[0] != "hash":
                            clause, detail = "roundtrip-" + rt[0] + rt[1], rt[2]
                    if clause:
                        res.violate("spelling/%s/%s" % (form, clause), case,
                                    "%s route, %s=%r (%s): %s" % (rname, pos, v, "with bold+link" if ctx else "plain", detail))
                except Exception as exc:
                    res.violate("spelling/%s/error-%s" % (form, type(exc).__name__), case,
                                "%s route, %s=%r: %s" % (rname, pos, v, traceback.format_exc()[-500:]))
    res.sig(("spell", form, v != v.strip(), v.lower() != v, " " in v.strip()), nontrivial=True)


def _part_spell(res):
    n = 0
    for c in SPELL_CANON:
        for v in spelling_variants(c):
            check_spelling(c, v, res)
            n += 1
    res.counters["colour_spelling_variants"] = n
    res.sample({"part": "spell", "c": "#abcdef", "v": " #ABCDEF "}, limit=1)


# ------------------------------------------------------------------ (fault) error-path histories
def probe_events():
    """valid operations whose result is known from the description: one per entry point and kind of field"""
    X = "https://example.org/x"
    ev = [["parse", t, d] for t, d in (
        ("green on blue", D(color="green", bgcolor="blue")), ("underline", D([("underline", True)])),
        ("color(200)", D(color="color(200)")), ("not bold", D([("bold", False)])), ("link " + X, D(link=X)),
        ("bold red", D([("bold", True)], "red")), ("blink2 frame", D([("blink2", True), ("frame", True)])),
        ("on default", D(bgcolor="default")), ("none", NULLD))]
    ev.append(["kwstr", "#102030 link " + X, D(color="#102030", link=X)])
    ev.append(["normalize", "b  magenta", D([("bold", True)], "magenta")])
    ev.append(["get_style", "italic cyan", D([("italic", True)], "cyan")])
    ev.append(["add", "+", None])
    ev.append(["add", "chain", None])
    ev.append(["color", "bright_red", None])
    return ev


def junk_definitions():
    """definitions that are rejected at word group k, for every k of each base and every way of being
    rejected (unknown colour, missing / bad operand of on, not, link, malformed colour)"""
    bases = [["italic", "not bold", "red", "on blue", "link u://x"], ["strike", "frame"], ["blink2"]]
    tokens = ["nosuchcolour", "on", "on nosuchcolour", "not", "not nosuch", "link", "rgb(1,2)", "color(256)"]
    out = []
    for groups in bases:
        for k in range(len(groups) + 1):
            for t in tokens:
                j = " ".join(groups[:k] + [t])
                if j not in out:
                    out.append(j)
    return out


def fault_events(small=False):
    junk = junk_definitions()
    if small:
        junk = [j for j in junk if j.startswith("italic") and j.split()[-1] in ("nosuchcolour", "on", "link")
                and (small == "wide" or len(j.split()) in (2, 5))]
    ev = [[k, j, None] for j in junk for k in ("fault-parse", "fault-normalize", "fault-get_style")]
    ev += [["fault-color", c, None] for c in (["nosuchcolour"] if small else ["nosuchcolour", "rgb(1,2)", "color(256)", "rgb(300,0,0)", "#12345"])]
    ev += [["fault-add", a, None] for a in (["combine-bad-tail"] if small else ["add-int", "add-str", "combine-empty", "combine-bad-tail", "chain-bad-head"])]
    return ev


def fault_histories(tier):
    quick = tier == "quick"
    V, F, Fs = probe_events(), fault_events(), fault_events(small=True if quick else "wide")
    for f in F:
        for v in V:
            yield [f, v]
            yield [f, v, v]                      # the wrong result must not have been memoised either
    for v1 in ([v for v in V if v[1] in ("bold red", "+", "italic cyan") or v[0] == "kwstr"] if quick else V):
        for f in F:
            for v2 in V:
                yield [v1, f, v2]
    for f1 in (Fs if quick else F):
        for f2 in Fs:
            for v in V:
                yield [f1, f2, v]
    if tier != "quick":
        for f in F:
            for v1 in V:
                for v2 in V:
                    if v1 is not v2:
                        yield [f, v1, v2]


SENTINEL = ["parse", "dim on color(99) link s://sentinel", None]


def check_fault_history(events, res, forked=False, warm=False):
    """After any history with failing operations in it every valid operation must give the style of its
    own definition (which is what it gives in a fresh state). Every history is closed by a sentinel: a
    valid definition that no history parses before -- a fault whose trace only shows on the next memo
    miss is caught (and attributed) here, and state that no cache_clear() reaches is not carried into
    the next history of the shard."""
    if events[-1][1] != SENTINEL[1]:
        events = list(events) + [[SENTINEL[0], SENTINEL[1], D([("dim", True)], None, "color(99)", "s://sentinel")]]
    outcomes = run_history(events, forked, warm)
    res.evaluations += len(events)
    bad = [(j, oc) for j, oc in enumerate(outcomes) if oc is not None]
    case = {"part": "fault", "events": events, "warm": warm}
    for j, oc in bad:
        fidx = [i for i, e in enumerate(events[:j]) if e[0].startswith("fault-")]
        faults = [events[i][0] for i in fidx]
        if len(set(faults)) > 1:
            # several kinds of failing operation precede the step: name the one without which it passes
            for i in fidx:
                rest = events[:i] + events[i + 1:]
                if run_history(rest, forked, warm)[j - 1] is None:
                    faults = [events[i][0]]
                    break
        if faults:
            key = "history/fault/%s/%s" % (faults[-1][6:], oc[0])
        else:
            key = "history/parse/%s/cold/%s" % (events[j][0], oc[0])
        res.violate(key, case, "step %d of %d (%s %r)%s: %s" % (
            j + 1, len(events), events[j][0], events[j][1], " with a warm memo" if warm else "", oc[1]))
    shape = "".join("f" if e[0].startswith("fault-") else "v" for e in events[:-1])
    lastf = [e[0] for e in events if e[0].startswith("fault-")][-1][6:]
    res.sig(("fault", shape, lastf, events[-2][0], warm, not bad), nontrivial=True)


def _part_fault(sh, tier, res):
    forked = not _clear_caches()
    res.counters["history_forked"] = 1 if forked else 0
    n = 0
    for idx, h in enumerate(fault_histories(tier)):
        if idx % sh["n"] != sh["i"]:
            continue
        if n % 256 == 0 and deadline_passed():
            res.capped = True
            break
        n += 1
        for warm in (False, True):
            check_fault_history(h, res, forked, warm)
            res.count("fault_histories")
    if sh["i"] == 0:
        res.counters["max_fault_events"] = len(fault_events())
        res.counters["max_junk_definitions"] = len(junk_definitions())
        res.sample({"part": "fault", "events": [fault_events()[3], probe_events()[0]], "warm": False}, limit=1)


# ------------------------------------------------------------------ protocol
def plan(tier, seed):
    q = tier == "quick"
    shards = [{"part": "pairs", "i": i, "n": 32 if q else 64} for i in range(32 if q else 64)]
    shards += [{"part": "assoc", "i": i, "n": 8 if q else 30} for i in range(8 if q else 30)]
    shards += [{"part": "routes", "i": i, "n": 16 if q else 32} for i in range(16 if q else 32)]
    shards += [{"part": "vec", "i": i, "n": 4 if q else 64} for i in range(4 if q else 64)]
    shards += [{"part": "docs"}, {"part": "spell"}]
    shards += [{"part": "history", "i": i, "n": 6 if q else 16} for i in range(6 if q else 16)]
    shards += [{"part": "fault", "i": i, "n": 12 if q else 32} for i in range(12 if q else 32)]
    shards += [{"part": "grid", "i": i, "n": 6 if q else 16} for i in range(6 if q else 16)]
    return shards


def run_shard(sh, tier, seed):
    res = Result()
    p = sh["part"]
    if p == "pairs":
        _part_pairs(sh, tier, res)
    elif p == "assoc":
        _part_assoc(sh, tier, res)
    elif p == "routes":
        _part_routes(sh, tier, res)
    elif p == "vec":
        _part_vec(sh, tier, res)
    elif p == "docs":
        _part_docs(res)
    elif p == "history":
        _part_history(sh, tier, res)
    elif p == "fault":
        _part_fault(sh, tier, res)
    elif p == "spell":
        _part_spell(res)
    elif p == "grid":
        _part_grid(sh, tier, res)
    return res


def describe(tier, seed, res):
    nu = res.counters.get("max_universe", 0)
    nb = res.counters.get("max_basis", 0)
    return {
        "rule": "U = null, each of 13 attributes on/off, all attribute pairs in all 4 specified combinations, 12 colour "
                "spellings (named, bright, 256-name, color(n) n in {0,7,8,15,16,255}, #hex, rgb(), default) for fg, bg and "
                "fg x bg, 4 links (two differing from the first only in letter case / a trailing slash), single attribute x colour / link, a 6x8x3 mixed block%s: %d styles. (pairs) all %d^2 ordered "
                "pairs; (assoc) all triples of a %d-style basis + 13x27 per-attribute state triples; (routes) every s in U "
                "through every construction route, all 2^fields splits for +, every route-built style again as left and "
                "right operand of + with 6 keyword-built partners, all triples over 25 route-built + 6 keyword-built operands; "
                "(history) all ordered pairs%s of 140 parse/normalize/str-round-trip events over 22 groups of spellings that "
                "collide after lower-casing although the links differ in case, or differ although the style is the same, each from empty caches; "
                "(fault) all histories of shapes fv, fvv, vfv, ffv (thorough: + fv1v2, wide ff) over 15 valid probe operations and 226 failing "
                "ones (72 definitions rejected at word group k x parse/normalize/get_style(default=), Color.parse, +/combine/chain), cold and "
                "warm memo, each closed by a fresh sentinel definition; "
                "(spell) letter-case x blank-padding variants (and all inner-blank placements of rgb()) of 18 colour spellings through the "
                "keyword, Color.parse and from_color routes, fg/bg/both; "
                "(vec) %s attribute vectors; (docs) all "
                "documented attribute spellings, %d colour names, color(0..255), #hex and rgb() on a %d^3 grid plus each "
                "channel over 0..255. A case is non-trivial when both/all operands specify something (pairs, triples), "
                "when an attribute is specified (vec) or when the definition parsed (docs); distinct = distinct outcome signatures."
                % (" + thorough extension (bg per attribute, pairs with colours and link, attribute triples)" if tier != "quick" else "",
                   nu, nu, nb, " and related triples" if tier != "quick" else "", "all 3^13" if tier != "quick" else "all with <=3 specified attributes + all 2^13 fully specified",
                   res.counters.get("colour_names", 0), res.counters.get("max_grid_values_per_channel", 0)),
        "assumptions": [
            "equality demanded between route-built and keyword-built styles is rich's == (which includes the colour's spelling); "
            "where two spellings name the same colour only the canonical meaning (RefStyle) is compared",
            "links are URLs without whitespace; Style(link='') is outside the statement",
            "colour name -> number/rgb oracle is the table in docs/source/appendix/colors.rst",
            "bool() of a route-built style that specifies nothing (e.g. Style(color='red').without_color is truthy) is counted "
            "(bool_truthy_but_specifies_nothing), not judged: the statement is silent and + treats it correctly",
            "upper-case words are accepted by the parser only partly and are undocumented: an upper-case spelling that does not "
            "parse from empty caches (e.g. 'NOT BOLD') is left out of the histories (max_history_spellings_not_accepted_cold)",
            "failing operations themselves (which exception, whether swallowed) are not judged here (C14); only what valid "
            "operations return afterwards; state that cache_clear() cannot reach is flushed by the sentinel closing each history",
            "abbreviations 'd' and 'c' exist in the parser but are not documented in style.rst and are not judged",
        ],
        "coverage": {"universe": nu, "basis": nb},
    }


def replay(case):
    res = Result()
    p = case.get("part")
    if p == "pair":
        check_pair(dj(case["a"]), dj(case["b"]), res)
    elif p == "triple":
        check_triple(*[v if isinstance(v, str) else dj(v) for v in (case["a"], case["b"], case["c"])], res=res)
    elif p == "routes":
        check_routes(dj(case["d"]), res, only=case.get("route"), special=case.get("special"))
    elif p == "vec":
        check_vector(case["n"], res)
    elif p == "doc":
        check_definition(case["text"], dj(case["d"]), res, case["key"], case.get("strict", True))
    elif p == "docname":
        check_color_name(case["name"], res)
    elif p == "docattr":
        _part_docs(res)
    elif p == "history":
        check_history(case["events"], res)
    elif p == "spell":
        check_spelling(case["c"], case["v"], res)
    elif p == "fault":
        check_fault_history(case["events"], res, warm=case.get("warm", False))
    elif p == "rgb":
        check_rgb(case["rgb"][0], case["rgb"][1], case["rgb"][2], res)
    return [(k, v[2]) for k, v in sorted(res.violations.items())]
