"""C16 -- Pretty-printed data evaluates back to the data.

Values are enumerated as *descriptions* (nested tuples naming the container type
and its children; cyclic / shared structures as small object graphs), a fresh
object is built per case and handed to rich.pretty.pretty_repr with every
parameter vector in scope.  The output is judged by

  (1) eval-back: eval(out) has the same type and deep-equals the value
      (typed comparison, so [x] never passes for (x,) and True never for 1);
  (2) a structural walk of an independently lexed/parsed output tree against the
      object: localises (1) to the node that reads back wrong (finding key),
      and is the whole content oracle where eval is impossible (max_length /
      max_string markers, cycle markers): marker counts exact, "..." only at a
      genuine back edge;
  (3) repr-equality for values made only of list/tuple/dict/set/frozenset +
      literals whenever repr fits max_width and expand_all is off;
  (4) layout of every container that spans lines: brace alone on the opening
      line, one item per line, children indented by exactly indent_size more
      than the opening line, closing brace back at the opening indentation;
      every non-empty container left on one line sits on a line that fits
      max_width; expand_all leaves no non-empty container inline.

HISTORY part: one Pretty(obj) instance is measured / rendered at two widths /
its object mutated in place, all histories of length <=3 (quick) / <=4 (thorough);
every render must show the CURRENT object (keys history/pretty/...).  40 320
histories, ~66 k judged renders, ~50 CPU-s in quick; 178 560 histories in thorough.
max_length and max_string include the boundary value 0 (everything omitted and
reported) in the main part and in the history variants.

EQ-LEAVES stratum: leaves that are == but differ in type/repr (1, True, 1.0, 0, False,
0.0, -0.0, '', None) side by side as list / tuple elements and dict values of one object;
judged type-strictly.  FAULT part (E4): a traversal aborted by a leaf's __repr__ raising
(at every leaf position) or by exceeding the recursion limit, then the same containers and
sub-containers printed again (keys fault/after-abort/...).  THREAD part (E3, vf/sched.py):
two threads pretty-printing objects that share a sub-container, every interleaving of the
lines of rich.pretty with <=1 preemption (keys threads/...).

ESC-STRINGS stratum: all str / bytes of length <=4 (<=5 thorough) over characters whose repr is
an escape (newline, tab, backslash, both quotes, NUL, 0x80) x max_string 0..3, as root / element /
dict value / dict key.  KEYS stratum: mappings keyed by None, falsy keys, tuple keys holding None
and ==-but-different keys (1 / True / 1.0).

Cost: ~110-120 us CPU per evaluation (half of it Rich itself). quick = 2.44 M
evaluations (~215-270 CPU-s, ~15-20 s wall on 16 idle cores); thorough = 52.7 M
evaluations + 178 560 histories (~6 000 CPU-s estimated, ~7 min wall on 16 idle cores). The development machine
was shared (load average 40-100), so measured walls were several times longer.
"""
import ast
import itertools
import re
import sys
import traceback
from array import array
from collections import Counter, defaultdict, deque

from ..par import Result, deadline_passed, alarm, CaseTimeout
from ..width import sw

ID = "C16"
LEVEL = "exploration"
ENGINE = "E1+E2+E3+E4"
CAP_S = {"quick": 240, "thorough": 1500}
TECHNIQUE = ("bounded-exhaustive enumeration of value descriptions x printer parameters on the real "
             "pretty_repr, judged by eval-back with typed deep equality plus an independent "
             "lexer/parser walk of the output (markers, layout)")
LEVEL_TEXT = ("Every value of the stated grammar (all nine container types incl. empty / one-element forms, "
              "13+1 literal leaves, nesting to the stated depth, all small cyclic and shared object graphs) is "
              "printed with every parameter vector in scope on the real code; each output is evaluated back "
              "and compared with the value, and its layout is checked line by line against the rules of the "
              "statement. Exhaustive inside the stated bounds; nothing is sampled.")
LEVEL_NOTE = ("Trusted: CPython's eval/repr/ast.literal_eval, the ~250-line lexer/parser/walker in "
              "vf/checks/c16.py, vf/width.py (cell widths from Rich's table data). Bounds: see coverage.rule; "
              "deeper strata use reduced child menus (deviation style), stated there.")

# --------------------------------------------------------------------------- descriptions
# leaf:        ("L", "<python literal>")
# sequences:   (kind, (child, ...))            kind in list tuple set frozenset deque
# array:       ("array", typecode, (leaf, ...))
# mappings:    (kind, ((key, value), ...))     kind in dict Counter defaultdict  (defaultdict(int))
# graph:       ("G", (node, ...), root)  node = (kind, items); an item is a description or ("R", j)
#              (mapping nodes: items = ((key, item), ...)); kinds list dict deque defaultdict tuple

SEQ_KINDS = ("list", "tuple", "set", "frozenset", "deque")
MAP_KINDS = ("dict", "Counter", "defaultdict")
PLAIN_KINDS = ("list", "tuple", "dict", "set", "frozenset")
_SEQ_CTOR = {"list": list, "tuple": tuple, "set": set, "frozenset": frozenset, "deque": deque}
KIND_OF_TYPE = {list: "list", tuple: "tuple", set: "set", frozenset: "frozenset", deque: "deque",
                dict: "dict", Counter: "Counter", defaultdict: "defaultdict", array: "array"}
LEAF_TYPES = (int, float, bool, type(None), str, bytes)


class InjectedFault(BaseException):
    """what a leaf's __repr__ raises in the fault part: like KeyboardInterrupt, not an Exception"""


class InjectedError(Exception):
    pass


class FaultLeaf:
    """A leaf that prints like `value`; while `mode` is set its __repr__ raises instead
    ("base": InjectedFault propagates through Rich; "exc": an Exception, which Rich's to_repr
    turns into a <repr-error ...> text).  Identity hash, so it can sit in sets and be a key."""
    __slots__ = ("value", "mode", "calls")

    def __init__(self, value):
        self.value = value
        self.mode = None
        self.calls = 0

    def __repr__(self):
        self.calls += 1
        if self.mode == "base":
            raise InjectedFault()
        if self.mode == "exc":
            raise InjectedError("injected")
        return repr(self.value)


def L(v):
    return ("L", repr(v))


LEAF_VALUES = [0, -1, 10 ** 20, 1.5, True, None, "a", "あ", "it's", 'q"', "a\nb", b"x", "", b"wxyz"]
LEAVES = [L(v) for v in LEAF_VALUES]
L0, LWIDE, LQ = L(0), L("あ"), L("it's")

_leaf_cache = {}


def _leaf(src):
    try:
        return _leaf_cache[src]
    except KeyError:
        v = _leaf_cache[src] = ast.literal_eval(src)
        return v


def build(d):
    """description -> fresh object"""
    k = d[0]
    if k == "L":
        return _leaf(d[1])
    if k == "F":
        return FaultLeaf(_leaf(d[1]))
    if k == "deeplist":
        v = []
        for _ in range(d[1]):
            v = [v]
        return v
    if k in _SEQ_CTOR:
        return _SEQ_CTOR[k]([build(c) for c in d[1]])
    if k == "array":
        return array(d[1], [build(c) for c in d[2]])
    if k in MAP_KINDS:
        m = {}
        for kd, vd in d[1]:
            m[build(kd)] = build(vd)
        if k == "dict":
            return m
        if k == "Counter":
            return Counter(m)
        return defaultdict(int, m)
    if k == "G":
        return _build_graph(d[1], d[2])
    raise ValueError("bad description %r" % (d,))


def _build_graph(nodes, root):
    objs = [None] * len(nodes)
    for i, (kind, _items) in enumerate(nodes):
        if kind == "list":
            objs[i] = []
        elif kind == "dict":
            objs[i] = {}
        elif kind == "deque":
            objs[i] = deque()
        elif kind == "defaultdict":
            objs[i] = defaultdict(int)
        elif kind != "tuple":
            raise ValueError(kind)
    busy = set()

    def item(x):
        if x[0] == "R":
            j = x[1]
            if objs[j] is None:
                make_tuple(j)
            return objs[j]
        return build(x)

    def make_tuple(j):
        if j in busy:
            raise ValueError("tuple reaches itself through tuples only")
        busy.add(j)
        objs[j] = tuple(item(x) for x in nodes[j][1])
        busy.discard(j)

    for i, (kind, _items) in enumerate(nodes):
        if kind == "tuple" and objs[i] is None:
            make_tuple(i)
    for i, (kind, items) in enumerate(nodes):
        if kind in ("list", "deque"):
            for x in items:
                objs[i].append(item(x))
        elif kind in ("dict", "defaultdict"):
            for kd, x in items:
                objs[i][build(kd)] = item(x)
    return objs[root]


def is_plain(d):
    """built only from list/tuple/dict/set/frozenset and literal leaves"""
    k = d[0]
    if k in ("L", "F"):
        return True
    if k in ("list", "tuple", "set", "frozenset"):
        return all(is_plain(c) for c in d[1])
    if k == "dict":
        return all(is_plain(a) and is_plain(b) for a, b in d[1])
    return False


def hashable(d):
    k = d[0]
    if k in ("L", "F"):
        return True
    if k in ("tuple", "frozenset"):
        return all(hashable(c) for c in d[1])
    return False


# --------------------------------------------------------------------------- value strata
def _seqs(menu, lo, hi):
    for n in range(lo, hi + 1):
        for t in itertools.product(menu, repeat=n):
            yield t


def _combs(menu, lo, hi):
    for n in range(lo, hi + 1):
        for t in itertools.combinations(menu, n):
            yield t


def _maps(keys, vals, lo, hi):
    for n in range(lo, hi + 1):
        for ks in itertools.permutations(keys, n):
            for vs in itertools.product(vals, repeat=n):
                yield tuple(zip(ks, vs))


KEYS4 = [L("a"), L(0), L("あ"), ("tuple", (L0, L("a")))]
KEYS3 = KEYS4[:3]
KEYS2 = KEYS4[:2]
COUNTS = [L(1), L(2), L(-1)]
ARR_I = [L(0), L(-1)]
ARR_D = [L(1.5), L(-2.0)]


def _arrays(maxn):
    for t in _seqs(ARR_I, 0, maxn):
        yield ("array", "i", t)
    for t in _seqs(ARR_D, 0, min(maxn, 2)):
        yield ("array", "d", t)


def stratum_leaves():
    return iter(LEAVES)


def stratum_d1(maxn, lo=0):
    """depth 1: every kind x 0..maxn children over all leaves"""
    for kind in ("list", "tuple", "deque"):
        for t in _seqs(LEAVES, lo, maxn):
            yield (kind, t)
    for kind in ("set", "frozenset"):
        for t in _combs(LEAVES, lo, maxn):
            yield (kind, t)
    for t in _maps(KEYS4, LEAVES, lo, maxn):
        yield ("dict", t)
    for t in _maps(KEYS3, COUNTS, lo, maxn):
        yield ("Counter", t)
    for t in _maps(KEYS3 if maxn > 2 else KEYS2, [L0, LWIDE, LQ, L(None), L(b"x")], lo, maxn):
        yield ("defaultdict", t)
    if lo == 0:
        yield from _arrays(maxn)
    else:
        for a in _arrays(maxn):
            if len(a[2]) >= lo:
                yield a


def c1r(x=L0, y=LWIDE):
    """one representative per kind x arity 0/1/2"""
    out = []
    for kind in SEQ_KINDS:
        out += [(kind, ()), (kind, (x,)), (kind, (x, y))]
    ka, kb = L("a"), L0
    for kind in ("dict", "defaultdict"):
        out += [(kind, ()), (kind, ((ka, x),)), (kind, ((ka, x), (kb, y)))]
    out += [("Counter", ()), ("Counter", ((ka, L(1)),)), ("Counter", ((ka, L(2)), (LWIDE, L(1))))]
    out += [("array", "i", ()), ("array", "i", (L0,)), ("array", "i", (L0, L(-1))), ("array", "d", (L(1.5),))]
    return out


def menu_m():
    return [L0, LWIDE, LQ] + c1r()


def menu_m3():
    m = [L0, LWIDE]
    for d in c1r():
        kind = d[0]
        n = len(d[2]) if kind == "array" else len(d[1])
        if kind in ("list", "tuple", "dict", "frozenset", "deque") and n >= 1:
            m.append(d)
        elif kind in ("list", "tuple") and n == 0:
            m.append(d)
        elif (kind, n) in (("Counter", 2), ("defaultdict", 1), ("array", 1), ("set", 1)):
            m.append(d)
    return m


def _containers_over(menu, lo, hi, kinds=("list", "tuple", "deque", "set", "frozenset", "dict", "defaultdict"),
                     keys=KEYS2):
    hm = [d for d in menu if hashable(d)]
    for kind in kinds:
        if kind in ("list", "tuple", "deque"):
            for t in _seqs(menu, lo, hi):
                yield (kind, t)
        elif kind in ("set", "frozenset"):
            for t in _combs(hm, lo, hi):
                yield (kind, t)
        else:
            for t in _maps(keys, menu, lo, hi):
                yield (kind, t)


def stratum_d2_quick():
    """depth 2: every nesting kind x 1..2 children from M = 3 leaves + (kind x arity 0/1/2) representatives"""
    return _containers_over(menu_m(), 1, 2)


def stratum_d2_three():
    """depth 2, exactly 3 children from the reduced menu M3"""
    return _containers_over(menu_m3(), 3, 3, keys=KEYS3)


def c2r():
    """reduced depth-2 menu for the depth-3 stratum"""
    nz = []
    for d in c1r():
        kind = d[0]
        n = len(d[2]) if kind == "array" else len(d[1])
        if n == 0 or (kind, n) in (("set", 2), ("frozenset", 2), ("deque", 2), ("defaultdict", 2),
                                   ("Counter", 2), ("array", 2)):
            continue
        nz.append(d)
    out = []
    for c in nz:
        for shape in ((c,), (c, L0), (L0, c)):
            for kind in ("list", "tuple", "deque"):
                out.append((kind, shape))
            if all(hashable(s) for s in shape):
                out.append(("frozenset", shape))
                out.append(("set", shape))
            for kind in ("dict", "defaultdict"):
                out.append((kind, tuple(zip(KEYS2, shape))))
    return out


MS_SMALL = [L0, LWIDE, ("list", ()), ("tuple", (L0,)), ("dict", ((L("a"), L0),))]


def stratum_d3():
    """depth 3: outer kind x <=3 children, exactly one of them a depth-2 value from C2R,
    the others from a 5-element menu; plus two deep children from a reduced C2R"""
    deep = c2r()
    for kind in ("list", "tuple", "deque", "dict", "defaultdict", "frozenset"):
        for d in deep:
            shapes = [(d,)]
            for s in MS_SMALL:
                shapes += [(d, s), (s, d)]
            for s1 in MS_SMALL:
                for s2 in MS_SMALL:
                    shapes += [(d, s1, s2), (s1, d, s2), (s1, s2, d)]
            for shape in shapes:
                if kind in ("dict", "defaultdict"):
                    yield (kind, tuple(zip(KEYS3, shape)))
                elif kind == "frozenset":
                    if all(hashable(s) for s in shape) and len(set(shape)) == len(shape):
                        yield (kind, shape)
                else:
                    yield (kind, shape)
    deep2 = [d for i, d in enumerate(deep) if d[0] in ("list", "tuple", "dict") and len(d[1]) == 1]
    for kind in ("list", "tuple", "dict"):
        for a in deep2:
            for b in deep2:
                yield (kind, tuple(zip(KEYS2, (a, b)))) if kind == "dict" else (kind, (a, b))


# leaves that compare (and hash) equal but differ in type or repr, plus the other falsy leaves
EQ_VALUES = [1, True, 1.0, 0, False, 0.0, -0.0, "", None]
EQ_LEAVES = [L(v) for v in EQ_VALUES]


def stratum_eq(maxn):
    """every list / tuple / deque / dict-values / defaultdict-values of 2..maxn EQ leaves, sets and
    frozensets of 2, and two mixed shapes that put three EQ leaves as a list element, a tuple element
    and a dict value of ONE object"""
    ka, kb, kc, kd = L("a"), L("b"), L("c"), L("d")
    keys = (ka, kb, kc, kd)
    for n in range(2, maxn + 1):
        for t in itertools.product(EQ_LEAVES, repeat=n):
            for kind in ("list", "tuple", "deque"):
                if n <= 3 or kind != "deque":
                    yield (kind, t)
            yield ("dict", tuple(zip(keys, t)))
            if n <= 3:
                yield ("defaultdict", tuple(zip(keys, t)))
    for t in itertools.permutations(EQ_LEAVES, 2):
        yield ("set", t)
        yield ("frozenset", t)
    for x, y, z in itertools.product(EQ_LEAVES, repeat=3):
        yield ("list", (x, ("tuple", (y,)), ("dict", ((ka, z),))))
        yield ("dict", ((ka, x), (kb, ("list", (y,))), (kc, ("tuple", (z, x)))))


def params_eq():
    return [(80, 4, False, None, None), (6, 4, False, None, None), (1, 2, False, None, None),
            (80, 4, True, None, None), (80, 4, False, 1, 1), (80, 4, False, None, 0), (12, 1, False, 2, None)]


# strings / bytes whose repr is longer than the text (escapes), for the truncation options
ESC_CHARS = ["a", "\n", "\t", "\\", "'", '"', "\x00", "あ"]
ESC_BYTES = [b"a", b"\n", b"\\", b"'", b'"', b"\x80"]


def stratum_esc(maxlen):
    """every string over ESC_CHARS and every bytes over ESC_BYTES of length 1..maxlen, as the root, as a
    list element, as a dict value and as a dict key (so each escape sits at every position relative to
    every cut max_string = 0..3)"""
    for n in range(1, maxlen + 1):
        for alphabet, join in ((ESC_CHARS, "".join), (ESC_BYTES, b"".join)):
            for t in itertools.product(alphabet, repeat=n):
                leaf = L(join(t))
                yield leaf
                yield ("list", (leaf,))
                yield ("dict", ((L("k"), leaf),))
                yield ("dict", ((leaf, L0),))


def params_esc():
    return [(80, 4, False, None, ms) for ms in (None, 0, 1, 2, 3)] + [(80, 4, False, 1, 2), (3, 2, False, None, 1)]


# mapping keys: None, falsy keys, tuple keys holding None, keys that are == but differ in type
KEY_VALUES = [None, 0, "", False, (), (None,), (None, 0), 1, True, 1.0, 0.0, "a", b"", frozenset()]


def _key_desc(v):
    if type(v) is tuple:
        return ("tuple", tuple(_key_desc(x) for x in v))
    if type(v) is frozenset:
        return ("frozenset", ())
    return L(v)


def stratum_keys():
    """dict / defaultdict / Counter with 1..2 keys (every ordered pair) from KEY_VALUES, values from a
    leaf, None and a list; and the same dicts as a list element"""
    keys = [_key_desc(v) for v in KEY_VALUES]
    vals = [L0, L(None), ("list", (L0,))]
    for kind, vs in (("dict", vals), ("defaultdict", vals), ("Counter", [L(1), L(2)])):
        for t in _maps(keys, vs, 1, 2):
            yield (kind, t)
    for t in _maps(keys, [L0], 1, 2):
        yield ("list", (("dict", t), L0))


CHAIN_KINDS = ("list", "tuple", "dict", "deque", "frozenset", "defaultdict")


def stratum_chains(lo=4, hi=6):
    """single-child chains of depth lo..hi over 6 kinds, innermost child 0 or the pair (0, wide)"""
    def wrap(kind, child):
        if kind in ("dict", "defaultdict"):
            return (kind, ((L("a"), child),))
        return (kind, (child,))
    for depth in range(lo, hi + 1):
        for kinds in itertools.product(CHAIN_KINDS, repeat=depth):
            ok = True
            for i, k in enumerate(kinds):
                if k == "frozenset" and any(k2 not in ("tuple", "frozenset") for k2 in kinds[i + 1:]):
                    ok = False
                    break
            if not ok:
                continue
            for inner in ((L0,), (L0, LWIDE)):
                k_in = kinds[-1]
                if k_in in ("dict", "defaultdict"):
                    d = (k_in, tuple(zip(KEYS2, inner)))
                else:
                    d = (k_in, inner)
                for k in reversed(kinds[:-1]):
                    d = wrap(k, d)
                yield d


def stratum_graphs(nnodes, kinds, maxitems=2):
    """all object graphs with exactly `nnodes` container nodes (every node reachable from node 0),
    each node holding <=maxitems items drawn from {0, ref to any node}; these are exactly the
    cyclic / shared structures (trees with repeated *equal* children are in the tree strata)."""
    refs = [("R", j) for j in range(nnodes)]
    item_menu = [L0] + refs
    item_lists = list(_seqs(item_menu, 0, maxitems))
    keys = (L("a"), L("b"))
    for ks in itertools.product(kinds, repeat=nnodes):
        for ils in itertools.product(item_lists, repeat=nnodes):
            # reachability from node 0
            seen, todo = {0}, [0]
            while todo:
                i = todo.pop()
                for x in ils[i]:
                    if x[0] == "R" and x[1] not in seen:
                        seen.add(x[1])
                        todo.append(x[1])
            if len(seen) != nnodes:
                continue
            nrefs = sum(1 for il in ils for x in il if x[0] == "R")
            if nrefs < nnodes:        # a tree: nothing shared, no cycle
                continue
            # tuples must not reach themselves through tuples only
            bad = False
            for i in range(nnodes):
                if ks[i] != "tuple":
                    continue
                seen_t, todo = set(), [i]
                while todo and not bad:
                    a = todo.pop()
                    for x in ils[a]:
                        if x[0] == "R" and ks[x[1]] == "tuple":
                            if x[1] == i:
                                bad = True
                                break
                            if x[1] not in seen_t:
                                seen_t.add(x[1])
                                todo.append(x[1])
                if bad:
                    break
            if bad:
                continue
            nodes = []
            for k, il in zip(ks, ils):
                if k in ("dict", "defaultdict"):
                    nodes.append((k, tuple(zip(keys, il))))
                else:
                    nodes.append((k, il))
            yield ("G", tuple(nodes), 0)


# --------------------------------------------------------------------------- parameter sets
WIDTHS = list(range(1, 25)) + [40, 80, 200]
INDENTS = (4, 2, 1)
ML = (None, 0, 1, 2)
MS = (None, 0, 1, 3)


def params_base():
    """no truncation: every width x indent; expand_all at three widths x indent"""
    out = []
    for ind in INDENTS:
        for w in WIDTHS:
            out.append((w, ind, False, None, None))
        for w in (1, 12, 200):
            out.append((w, ind, True, None, None))
    return out


TRUNC_COMBOS = ((0, None), (None, 0), (1, None), (None, 1), (1, 1), (2, 3))
TRUNC_WIDTHS = (1, 4, 8, 10, 12, 16, 20, 24, 40, 80)


def params_trunc(combos=TRUNC_COMBOS, widths=TRUNC_WIDTHS, extra=True):
    out = []
    for ml, ms in combos:
        for w in widths:
            out.append((w, 4, False, ml, ms))
        if extra:
            for ind in (2, 1):
                for w in (8, 16):
                    out.append((w, ind, False, ml, ms))
            out.append((80, 4, True, ml, ms))
    return out


ALL_TRUNC_COMBOS = tuple((ml, ms) for ml in ML for ms in MS if (ml, ms) != (None, None))


def params_full():
    return [(w, ind, ea, ml, ms) for ml in ML for ms in MS for ea in (False, True)
            for ind in INDENTS for w in WIDTHS]


def params_graph():
    out = []
    for ml in (None, 0, 1):
        for ind in (4, 2):
            for w in (1, 4, 8, 12, 16, 24, 80):
                out.append((w, ind, False, ml, None))
        out.append((80, 4, True, ml, None))
    return out


_PARAMS = {}


def param_set(name):
    if name not in _PARAMS:
        _PARAMS[name] = {"base": params_base, "trunc": params_trunc, "full": params_full,
                         "graph": params_graph, "eq": params_eq, "esc": params_esc,
                         "base+trunc": lambda: params_base() + params_trunc(),
                         "base+trunc8": lambda: params_base() + params_trunc(ALL_TRUNC_COMBOS),
                         "base+trunc2": lambda: params_base() + params_trunc(((0, 0), (1, 1), (2, 3)), (4, 10, 16, 24, 80),
                                                                             extra=False)}[name]()
    return _PARAMS[name]


# --------------------------------------------------------------------------- output lexer / parser
_TOKEN = re.compile(
    r"""(?P<str>[bB]?'(?:[^'\\\n]|\\.)*'|[bB]?"(?:[^"\\\n]|\\.)*")"""
    r"""|(?P<open>[\[({])|(?P<close>[\])}])|(?P<comma>,)|(?P<colon>:)"""
    r"""|(?P<nl>\n)|(?P<ws>[ \t]+)|(?P<word>[^\s,:()\[\]{}'"]+)""")
_MATCH = {"(": ")", "[": "]", "{": "}"}


class ParseError(Exception):
    pass


def lex(out):
    """-> list of [type, text, line, first_on_line, last_on_line, start, end]"""
    toks = []
    pos, line, n = 0, 0, len(out)
    first = True
    while pos < n:
        m = _TOKEN.match(out, pos)
        if m is None:
            raise ParseError("cannot lex at offset %d: %r" % (pos, out[pos:pos + 12]))
        typ = m.lastgroup
        if typ == "nl":
            if toks and toks[-1][2] == line:
                toks[-1][4] = True
            line += 1
            first = True
        elif typ != "ws":
            toks.append([typ, m.group(), line, first, False, m.start(), m.end()])
            first = False
        pos = m.end()
    if toks:
        toks[-1][4] = True
    return toks


class PN:
    """parse node: kind 'atom' | '[' | '(' | '{' | 'call'"""
    __slots__ = ("kind", "name", "items", "trailing", "l0", "l1", "t0", "t1", "text", "words")

    def __init__(self, kind):
        self.kind = kind
        self.name = None
        self.items = []       # (key PN | None, value PN)
        self.trailing = False
        self.text = None
        self.words = None


def parse(out):
    toks = lex(out)
    if not toks:
        raise ParseError("empty output")
    node, i = _parse_expr(toks, 0, out)
    if i != len(toks):
        raise ParseError("trailing tokens after the expression: %r" % (toks[i][1],))
    return node, toks


def _parse_expr(toks, i, src):
    if i >= len(toks):
        raise ParseError("expression expected at end of output")
    t = toks[i]
    if t[0] == "open":
        return _parse_display(toks, i, src)
    if t[0] in ("close", "comma", "colon"):
        raise ParseError("expression expected, found %r" % t[1])
    j = i
    while j < len(toks) and toks[j][0] in ("word", "str"):
        j += 1
    if j < len(toks) and toks[j][0] == "open":
        if j == i + 1 and t[0] == "word" and t[1].isidentifier() and toks[j][1] == "(" and toks[j][5] == t[6]:
            disp, k = _parse_display(toks, j, src)
            node = PN("call")
            node.name = t[1]
            node.items = disp.items
            node.trailing = disp.trailing
            node.l0, node.l1, node.t0, node.t1 = t[2], disp.l1, i, disp.t1
            return node, k
        raise ParseError("bracket after %r" % (src[t[5]:toks[j - 1][6]],))
    node = PN("atom")
    node.l0, node.l1, node.t0, node.t1 = t[2], toks[j - 1][2], i, j - 1
    node.text = src[t[5]:toks[j - 1][6]]
    node.words = [(x[0], x[1]) for x in toks[i:j]]
    return node, j


def _parse_display(toks, i, src):
    op = toks[i]
    node = PN(op[1])
    node.l0, node.t0 = op[2], i
    want = _MATCH[op[1]]
    i += 1
    while True:
        if i >= len(toks):
            raise ParseError("unclosed %r" % op[1])
        t = toks[i]
        if t[0] == "close":
            if t[1] != want:
                raise ParseError("%r closed by %r" % (op[1], t[1]))
            node.l1, node.t1 = t[2], i
            return node, i + 1
        v, i = _parse_expr(toks, i, src)
        key = None
        if i < len(toks) and toks[i][0] == "colon":
            key = v
            v, i = _parse_expr(toks, i + 1, src)
        node.items.append((key, v))
        node.trailing = False
        if i < len(toks) and toks[i][0] == "comma":
            node.trailing = True
            i += 1
        elif i < len(toks) and toks[i][0] != "close":
            raise ParseError("missing comma before %r" % (toks[i][1],))


def _is_marker(pn):
    """'... +N' -> N, else None"""
    if pn.kind == "atom" and len(pn.words) == 2 and pn.words[0] == ("word", "...") \
            and pn.words[1][0] == "word" and re.fullmatch(r"\+\d+", pn.words[1][1]):
        return int(pn.words[1][1][1:])
    return None


def interp(pn):
    """Python's reading of a parse node -> (kind, items, payload display node | None)"""
    k = pn.kind
    if k == "atom":
        return ("atom", None, None)
    if k == "[":
        return ("list", pn.items, pn)
    if k == "(":
        if len(pn.items) == 1 and not pn.trailing:
            return ("group", pn.items, pn)
        return ("tuple", pn.items, pn)
    if k == "{":
        real = [(key, v) for key, v in pn.items if not (key is None and _is_marker(v) is not None)]
        if not pn.items:
            return ("dict", pn.items, pn)
        if not real:           # only a marker inside: cannot tell dict from set
            return ("dict-or-set", pn.items, pn)
        if all(key is not None for key, _v in real):
            return ("dict", pn.items, pn)
        if all(key is None for key, _v in real):
            return ("set", pn.items, pn)
        return ("malformed", None, None)
    # call
    name, args = pn.name, pn.items
    if any(key is not None for key, _v in args):
        return ("malformed", None, None)
    args = [v for _k, v in args]

    def disp(a, opener, want):
        r = interp(a)
        if a.kind == opener and (r[0] == want or r[0] == "dict-or-set" or (want == "dict" and not a.items)):
            return a
        return None

    if name == "set" and not args:
        return ("set", [], None)
    if name == "frozenset":
        if not args:
            return ("frozenset", [], None)
        if len(args) == 1 and disp(args[0], "{", "set") is not None and args[0].items:
            return ("frozenset", args[0].items, args[0])
    if name == "deque":
        if not args:
            return ("deque", [], None)
        if len(args) == 1 and args[0].kind == "[":
            return ("deque", args[0].items, args[0])
    if name == "Counter":
        if not args:
            return ("Counter", [], None)
        if len(args) == 1 and disp(args[0], "{", "dict") is not None:
            return ("Counter", args[0].items, args[0])
    if name == "defaultdict":
        if len(args) == 2 and args[0].kind == "atom" and disp(args[1], "{", "dict") is not None:
            return ("defaultdict", args[1].items, args[1])
    if name == "array":
        if len(args) == 1 and args[0].kind == "atom":
            return ("array", [], None)
        if len(args) == 2 and args[0].kind == "atom" and args[1].kind == "[":
            return ("array", args[1].items, args[1])
    return ("malformed", None, None)


# --------------------------------------------------------------------------- content walk
class Mismatch(Exception):
    def __init__(self, key, detail):
        Exception.__init__(self, key, detail)
        self.key = key
        self.detail = detail


def _arity(n):
    return "0" if n == 0 else "1" if n == 1 else "n"


_lit_cache = {}


def _literal(text):
    try:
        r = _lit_cache[text]
    except KeyError:
        try:
            r = (True, ast.literal_eval(text))
        except Exception as e:      # noqa
            r = (False, type(e).__name__)
        if len(_lit_cache) < 5000:
            _lit_cache[text] = r
    return r


def _same_leaf(a, b):
    return type(a) is type(b) and (repr(a) == repr(b) if type(a) is float else a == b)


class Walker:
    def __init__(self, ml, ms):
        self.ml, self.ms = ml, ms
        self.markers = 0       # cycle markers accepted
        self.ml_markers = 0
        self.ms_markers = 0

    def leaf(self, obj, pn, ms):
        tn = type(obj).__name__
        if pn.kind != "atom":
            raise Mismatch("evalback/leaf:%s/reads-as-container" % tn, "%r printed as a %s" % (obj, pn.kind))
        w = pn.words
        if len(w) == 2 and w[0][0] == "str" and w[1][0] == "word" and re.fullmatch(r"\+\d+", w[1][1]):
            # truncation form  'abc'+N
            n = int(w[1][1][1:])
            ok, p = _literal(w[0][1])
            if ms is None or not isinstance(obj, (str, bytes)) or len(obj) <= ms:
                raise Mismatch("max_string/spurious-marker",
                               "%r printed as %s although max_string=%r" % (obj, pn.text, ms))
            if not ok or type(p) is not type(obj) or not obj.startswith(p) or len(obj) - len(p) != n or n < 1:
                raise Mismatch("max_string/count", "%r printed as %s: +%d is not the number of omitted "
                                                   "characters" % (obj, pn.text, n))
            if len(p) != ms:
                raise Mismatch("max_string/shown", "%r printed as %s: %d characters shown, max_string=%d"
                               % (obj, pn.text, len(p), ms))
            self.ms_markers += 1
            return
        ok, v = _literal(pn.text)
        if not ok:
            raise Mismatch("evalback/leaf:%s/not-a-literal" % tn, "%r printed as %r" % (obj, pn.text))
        if not _same_leaf(v, obj):
            raise Mismatch("evalback/leaf:%s/value-changed" % tn, "%r printed as %r" % (obj, pn.text))
        if ms is not None and isinstance(obj, (str, bytes)) and len(obj) > ms:
            raise Mismatch("max_string/not-applied", "%r (len %d) printed in full with max_string=%d"
                           % (obj, len(obj), ms))

    def key(self, obj, pn, path):
        """dict keys: a container key is printed by repr(); truncation inside it is unspecified"""
        if type(obj) is FaultLeaf:
            obj = obj.value
        if type(obj) in LEAF_TYPES:
            return self.leaf(obj, pn, self.ms)
        saved = (self.ml, self.ms)
        try:
            self.ml, self.ms = None, None
            try:
                return self.node(obj, pn, path)
            except Mismatch:
                self.ml, self.ms = saved
                return self.node(obj, pn, path)
        finally:
            self.ml, self.ms = saved

    def node(self, obj, pn, path):
        t = type(obj)
        if t is FaultLeaf:
            obj = obj.value
            t = type(obj)
        if t in LEAF_TYPES:
            return self.leaf(obj, pn, self.ms)
        kind = KIND_OF_TYPE[t]
        is_ellipsis = pn.kind == "atom" and pn.words == [("word", "...")]
        if id(obj) in path:
            if is_ellipsis:
                self.markers += 1
                return
            if pn.kind == "atom":
                raise Mismatch("cycle/no-marker-at-back-edge",
                               "a %s inside itself is printed as %r instead of '...'" % (kind, pn.text))
            # deeper unrolling is accepted; the parse tree is finite, so this ends
        elif is_ellipsis:
            raise Mismatch("cycle/marker-where-no-cycle",
                           "a %s that is not inside itself is printed as '...'" % kind)
        mapping = isinstance(obj, dict)
        children = list(obj.items()) if mapping else list(obj)
        n = len(children)
        tag = "%s:%s" % (kind, _arity(n))
        if mapping:
            braces = pn if pn.kind == "{" else (pn.items[-1][1] if pn.kind == "call" and pn.items
                                                  and pn.items[-1][1].kind == "{" else None)
            if braces is not None:
                for kpn, vpn in braces.items:
                    if kpn is None and _is_marker(vpn) is None:
                        raise Mismatch("evalback/mapping/item-without-key",
                                       "a %s item is printed as the bare value %s, its key is missing"
                                       % (kind, vpn.text if vpn.kind == "atom" else vpn.kind + "..."))
        pk, items, _payload = interp(pn)
        if pk == "dict-or-set":
            pk = kind if kind in ("dict", "set") else ("set" if kind == "frozenset" else "dict")
        if pk != kind:
            raise Mismatch("evalback/%s/reads-as-%s" % (tag, pk),
                           "a %s with %d item(s) is printed as something Python reads as %s" % (kind, n, pk))
        if kind == "defaultdict":
            fa = pn.items[0][1].text
            if fa not in ("<class 'int'>", "int"):
                raise Mismatch("evalback/defaultdict/ctor-arg", "default_factory printed as %r" % fa)
        if kind == "array":
            ok, tc = _literal(pn.items[0][1].text)
            if not ok or tc != obj.typecode:
                raise Mismatch("evalback/array/ctor-arg", "typecode printed as %r" % pn.items[0][1].text)
        # truncation marker
        shown_items = list(items)
        omitted = None
        if shown_items and shown_items[-1][0] is None:
            omitted = _is_marker(shown_items[-1][1])
            if omitted is not None:
                shown_items.pop()
        ml = self.ml
        if ml is not None and n > ml:
            if omitted is None:
                raise Mismatch("max_length/no-marker", "%s of %d items, max_length=%d, no '... +N' marker"
                               % (kind, n, ml))
            if omitted != n - len(shown_items) or omitted < 1:
                raise Mismatch("max_length/count", "%s of %d items shows %d and says +%d"
                               % (kind, n, len(shown_items), omitted))
            if len(shown_items) != ml:
                raise Mismatch("max_length/shown", "%s of %d items shows %d with max_length=%d"
                               % (kind, n, len(shown_items), ml))
            self.ml_markers += 1
            children = children[:len(shown_items)] if kind not in ("set", "frozenset") else children
        else:
            if omitted is not None:
                raise Mismatch("max_length/spurious-marker", "%s of %d items, max_length=%r, but '... +%d' printed"
                               % (kind, n, ml, omitted))
            if len(shown_items) != n:
                raise Mismatch("evalback/%s/item-count" % tag, "%s of %d items printed with %d"
                               % (kind, n, len(shown_items)))
        path.add(id(obj))
        try:
            self._children(kind, tag, mapping, children, shown_items, path)
        finally:
            path.discard(id(obj))

    def _children(self, kind, tag, mapping, children, items, path):
        if mapping:
            for key, _v in items:
                if key is None:
                    raise Mismatch("evalback/%s/item-without-key" % tag, "mapping item printed without a key")
        else:
            for key, _v in items:
                if key is not None:
                    raise Mismatch("evalback/%s/item-with-key" % tag, "sequence item printed as key: value")
        ordered = kind in ("list", "tuple", "deque", "array")
        if len(children) == len(items):
            first = None
            snap = (self.markers, self.ml_markers, self.ms_markers)
            try:
                self._match(mapping, children, items, path)
                return
            except Mismatch as e:
                first = e
            if ordered or len(children) > 4:
                raise first
            for perm in itertools.permutations(range(len(children))):
                self.markers, self.ml_markers, self.ms_markers = snap
                try:
                    self._match(mapping, [children[i] for i in perm], items, path)
                    return
                except Mismatch:
                    pass
            raise first
        # truncated unordered container: each shown item must be a distinct member
        # (iteration-order prefix first: its mismatch is the one reported)
        first = None
        if len(items) > len(children):
            raise Mismatch("evalback/%s/item-count" % tag, "more items printed than the container holds")
        snap = (self.markers, self.ml_markers, self.ms_markers)
        for sub in itertools.permutations(range(len(children)), len(items)):
            self.markers, self.ml_markers, self.ms_markers = snap
            try:
                self._match(mapping, [children[i] for i in sub], items, path)
                return
            except Mismatch as e:
                if first is None:
                    first = e
        raise first

    def _match(self, mapping, children, items, path):
        for child, (kpn, vpn) in zip(children, items):
            if mapping:
                self.key(child[0], kpn, path)
                self.node(child[1], vpn, path)
            else:
                self.node(child, vpn, path)


# --------------------------------------------------------------------------- typed deep equality
def same(a, b):
    if type(a) is FaultLeaf:
        a = a.value
    if type(b) is FaultLeaf:
        b = b.value
    ta = type(a)
    if ta is not type(b):
        return False
    if ta in LEAF_TYPES:
        return _same_leaf(a, b)
    if ta in (list, tuple, deque):
        return len(a) == len(b) and all(same(x, y) for x, y in zip(a, b))
    if ta is array:
        return a.typecode == b.typecode and len(a) == len(b) and all(_same_leaf(x, y) for x, y in zip(a, b))
    if ta in (set, frozenset):
        if len(a) != len(b):
            return False
        rest = list(b)
        for x in a:
            for i, y in enumerate(rest):
                if same(x, y):
                    del rest[i]
                    break
            else:
                return False
        return True
    if isinstance(a, dict):
        if len(a) != len(b):
            return False
        if ta is defaultdict and a.default_factory is not b.default_factory:
            return False
        rest = list(b.items())
        for k, v in a.items():
            for i, (k2, v2) in enumerate(rest):
                if same(k, k2) and same(v, v2):
                    del rest[i]
                    break
            else:
                return False
        return True
    return False


_EVAL_ENV = {"__builtins__": {}, "set": set, "frozenset": frozenset, "deque": deque, "Counter": Counter,
             "defaultdict": defaultdict, "array": array, "int": int, "True": True, "False": False, "None": None}


def eval_back(out):
    src = out.replace("<class 'int'>", "int")
    return eval(src, dict(_EVAL_ENV))      # noqa: S307 -- the point of the property


# --------------------------------------------------------------------------- truncation / cycle applicability
def truncation_applies(obj, ml, ms, _seen=None):
    """does max_length / max_string have to abbreviate anything Rich traverses?"""
    if ml is None and ms is None:
        return False
    t = type(obj)
    if t is FaultLeaf:
        return False
    if t in LEAF_TYPES:
        return ms is not None and t in (str, bytes) and len(obj) > ms
    if _seen is None:
        _seen = set()
    if id(obj) in _seen:
        return False
    _seen.add(id(obj))
    try:
        if ml is not None and len(obj) > ml:
            return True
        if isinstance(obj, dict):
            for k, v in obj.items():
                if type(k) in (str, bytes) and ms is not None and len(k) > ms:
                    return True
                if truncation_applies(v, ml, ms, _seen):
                    return True
            return False
        return any(truncation_applies(c, ml, ms, _seen) for c in obj)
    finally:
        _seen.discard(id(obj))


# --------------------------------------------------------------------------- layout
class LayoutFacts:
    """Everything the layout rules need from one output, independent of the parameters:
    fixed problems, the lines holding an inline non-empty container (with their cell width),
    and (line, indent, indent of the opening line) for every item of an expanded container."""
    __slots__ = ("fixed", "inline", "indents", "n_inline", "n_expanded")


def layout_facts(root, toks, lines):
    lf = LayoutFacts()
    probs = lf.fixed = []
    inline = {}
    lf.indents = indents = []
    lf.n_inline = lf.n_expanded = 0
    indent_of = [len(s) - len(s.lstrip(" ")) for s in lines]

    def visit(pn):
        if pn.kind == "atom":
            return
        kind, _items, payload = interp(pn)
        if kind == "malformed" and pn.l0 == pn.l1:
            return          # not a container Python would build: the content walk reports it
        below = pn
        if pn.kind == "call" and payload is not None:
            below = payload
        if pn.l0 == pn.l1:
            nonempty = bool(payload is not None and payload.items)
            if nonempty:
                lf.n_inline += 1
                if pn.l0 not in inline:
                    inline[pn.l0] = sw(lines[pn.l0])
        else:
            lf.n_expanded += 1
            disp = pn
            if pn.kind == "call":
                disp = pn.items[-1][1] if pn.items else None
                if disp is None or disp.kind == "atom" or disp.kind == "call" or disp.l0 != pn.l0 \
                        or disp.l1 != pn.l1 or disp.t1 != pn.t1 - 1 \
                        or any(v.l1 != pn.l0 for _k, v in pn.items[:-1]):
                    probs.append(("layout/call-wrapper-split",
                                  "%s(...) spans lines %d-%d but its braces are not on its first and last line"
                                  % (pn.name, pn.l0 + 1, pn.l1 + 1)))
                    disp = None
                else:
                    below = disp
            if disp is not None:
                base = indent_of[pn.l0]
                if not toks[disp.t0][4]:
                    probs.append(("layout/item-on-opening-line",
                                  "line %d %r continues after the opening brace" % (pn.l0 + 1, lines[pn.l0])))
                for key, v in disp.items:
                    head = key if key is not None else v
                    if not toks[head.t0][3]:
                        probs.append(("layout/items-share-line",
                                      "line %d %r holds more than one item of an expanded container"
                                      % (head.l0 + 1, lines[head.l0])))
                    else:
                        indents.append((head.l0, indent_of[head.l0], base))
                    if key is not None and (v.l0 != key.l1 or key.l0 != key.l1):
                        probs.append(("layout/value-not-on-key-line",
                                      "value of key %s starts on another line" % key.text))
                close = toks[disp.t1]
                if not close[3]:
                    probs.append(("layout/closing-brace-not-on-own-line",
                                  "line %d %r" % (close[2] + 1, lines[close[2]])))
                elif indent_of[close[2]] != base:
                    probs.append(("layout/closing-brace-indent",
                                  "line %d %r is indented %d, the container opens at indent %d"
                                  % (close[2] + 1, lines[close[2]], indent_of[close[2]], base)))
        for _key, v in below.items:
            visit(v)      # keys are printed through repr(): atoms for the layout rules

    visit(root)
    lf.inline = sorted(inline.items())
    return lf


def check_layout(lf, lines, w, ind, ea):
    """-> list of (key, detail) for one parameter vector"""
    probs = list(lf.fixed)
    for ln, width in lf.inline:
        if width > w:
            probs.append(("layout/inline-container-exceeds-width",
                          "line %d %r holds a non-empty container on one line but is %d cells wide, "
                          "max_width=%d" % (ln + 1, lines[ln], width, w)))
            break
    if ea and lf.inline:
        ln = lf.inline[0][0]
        probs.append(("layout/expand-all-left-inline",
                      "expand_all=True but line %d %r holds a non-empty container" % (ln + 1, lines[ln])))
    for ln, got, base in lf.indents:
        if got != base + ind:
            probs.append(("layout/child-indent",
                          "line %d %r is indented %d, the container opens at indent %d, indent_size=%d"
                          % (ln + 1, lines[ln], got, base, ind)))
            break
    return probs


# --------------------------------------------------------------------------- one case
def _crash_key(exc):
    tb = traceback.extract_tb(exc.__traceback__)
    where = "?"
    for fr in reversed(tb):
        if "/rich/" in fr.filename.replace("\\", "/"):
            where = "%s:%s" % (fr.filename.replace("\\", "/").rsplit("/", 1)[-1], fr.name)
            break
    return "crash/%s/%s" % (type(exc).__name__, where)


def is_cyclic(obj, _path=None):
    t = type(obj)
    if t in LEAF_TYPES or t is array or t is FaultLeaf:
        return False
    if _path is None:
        _path = set()
    if id(obj) in _path:
        return True
    _path.add(id(obj))
    try:
        it = obj.values() if isinstance(obj, dict) else obj
        return any(is_cyclic(c, _path) for c in it)
    finally:
        _path.discard(id(obj))


def judge_content(desc, obj, out, ml, ms):
    """-> (violations [(key, detail)], info dict, parse root | None, toks)"""
    info = {"mode": "eval", "markers": 0, "mlm": 0, "msm": 0}
    viol = []
    cyc = desc[0] == "G" and is_cyclic(obj)
    trunc = truncation_applies(obj, ml, ms)
    # structural walk
    root = toks = None
    walk_err = None
    try:
        root, toks = parse(out)
    except ParseError as e:
        if not out.strip():
            walk_err = Mismatch("evalback/empty-output", "the output is empty / blank")
        else:
            walk_err = Mismatch("evalback/unparseable", str(e))
    if root is not None:
        wk = Walker(ml, ms)
        try:
            wk.node(obj, root, set())
        except Mismatch as e:
            walk_err = e
        info["markers"], info["mlm"], info["msm"] = wk.markers, wk.ml_markers, wk.ms_markers
    if cyc or trunc:
        info["mode"] = "cycle" if cyc else "trunc"
        if walk_err is not None:
            viol.append((walk_err.key, walk_err.detail))
        elif cyc and not trunc and "..." not in out:
            viol.append(("cycle/no-marker", "cyclic value printed without '...'"))
        return viol, info, root, toks
    # eval-back: the statement's oracle
    fail = None
    try:
        back = eval_back(out)
    except Exception as e:      # noqa
        fail = ("not-evaluable:%s" % type(e).__name__, "eval raised %s: %s" % (type(e).__name__, e))
    else:
        if type(back) is not type(obj):
            fail = ("type-changed", "evaluates to %s %r" % (type(back).__name__, back))
        elif not same(back, obj):
            fail = ("value-changed", "evaluates to %r" % (back,))
    if fail is not None:
        if walk_err is not None:
            viol.append((walk_err.key, "%s; %s" % (walk_err.detail, fail[1])))
        else:
            viol.append(("evalback/%s/unlocalized" % fail[0], fail[1]))
    elif walk_err is not None:
        info["localizer_stricter_than_eval"] = 1
    return viol, info, root, toks


def run_value(desc, params, res, sample_every=0, idx=0):
    """all parameter vectors for one value description"""
    state = {"case": None}
    try:
        with alarm(30):
            _run_value(desc, params, res, state)
    except CaseTimeout:
        res.violate("hang/no-termination", state["case"], "pretty_repr did not return (30 s budget for %d "
                    "parameter vectors of this value)" % len(params))
        res.sig(("hang", desc[0]))
    if sample_every and idx % sample_every == 0:
        res.sample({"v": desc, "params": len(params)})


def _run_value(desc, params, res, state):
    from rich.pretty import pretty_repr
    plain = desc[0] != "G" and is_plain(desc)
    rootkind = desc[0] if desc[0] != "G" else "G:" + desc[1][desc[2]][0]
    content_memo = {}
    layout_memo = {}
    rep = None
    for (w, ind, ea, ml, ms) in params:
        obj = build(desc)
        case = state["case"] = {"v": desc, "w": w, "ind": ind, "ea": ea, "ml": ml, "ms": ms}
        res.evaluations += 1
        try:
            out = pretty_repr(obj, max_width=w, indent_size=ind, max_length=ml, max_string=ms, expand_all=ea)
        except Exception as e:      # noqa
            res.violate(_crash_key(e), case, "%s: %s" % (type(e).__name__, e))
            res.sig(("crash", rootkind, type(e).__name__))
            continue
        if not isinstance(out, str):
            res.violate("evalback/not-a-string", case, repr(out))
            continue
        mk = (out, ml, ms)
        got = content_memo.get(mk)
        if got is None:
            got = content_memo[mk] = judge_content(desc, obj, out, ml, ms)
        viol, info, root, toks = got
        for key, detail in viol:
            res.violate(key, case, "%s\noutput:\n%s" % (detail, out))
        if info.get("localizer_stricter_than_eval"):
            res.count("localizer_stricter_than_eval")
        # (3) repr equality
        repr_branch = False
        if plain and not ea and info["mode"] == "eval":
            if rep is None:
                rep = repr(obj)
                rep = (rep, sw(rep))
            if rep[1] <= w:
                repr_branch = True
                if out != rep[0]:
                    res.violate("layout/repr-mismatch-when-it-fits", case,
                                "repr is %r (%d cells <= max_width %d) but the output is %r" % (rep[0], rep[1], w, out))
        # (4) layout
        n_inline = n_expanded = 0
        nl = 1
        if root is not None:
            lm = layout_memo.get(out)
            if lm is None:
                lines = out.split("\n")
                lm = layout_memo[out] = (layout_facts(root, toks, lines), lines)
            lf, lines = lm
            nl = len(lines)
            n_inline, n_expanded = lf.n_inline, lf.n_expanded
            for key, detail in check_layout(lf, lines, w, ind, ea):
                res.violate(key, case, "%s\noutput:\n%s" % (detail, out))
        sig = (rootkind, info["mode"], 1 if nl == 1 else 2 if nl <= 3 else 3 if nl <= 8 else 4,
               min(n_inline, 2), min(n_expanded, 3), repr_branch, ea,
               info["markers"] > 0, info["mlm"] > 0, info["msm"] > 0, bool(viol))
        res.sig(sig, nontrivial=(n_inline + n_expanded) > 0)


# --------------------------------------------------------------------------- HISTORY part
# One Pretty(obj, **variant) instance lives through a history of events; the wrapped object is
# mutated in place in between.  Every render must show the CURRENT object.
H_VALUES = [
    ("list2", ("list", (L0, L(1)))),
    ("list3", ("list", (L0, L(1), L("a")))),
    ("dict1", ("dict", ((L("a"), L0),))),
    ("dict2", ("dict", ((L("a"), L0), (L("b"), L("あ"))))),
    ("set1", ("set", (L0,))),
    ("deque2", ("deque", (L0, L(1)))),
    ("ddict1", ("defaultdict", ((L("a"), L0),))),
    ("list-in-list", ("list", (("list", (L0,)), L("a")))),
    ("list-in-dict", ("dict", ((L("a"), ("list", (L0, L(1)))), (L("b"), ("tuple", ()))))),
    ("dict-in-list", ("list", (("dict", ((L("a"), L0),)), L0))),
    ("list-in-tuple", ("tuple", (("list", (L0,)),))),
    ("set-in-dict", ("dict", ((L("a"), ("set", (L0,))),))),
]
H_MUTATIONS = ("append", "pop", "setitem", "clear", "grow", "nested-append", "nested-clear")
H_EVENTS = ("M", "R1", "R2", "X")
H_W1, H_W2 = 40, 16
H_VARIANTS = [
    {},
    {"max_length": 1},
    {"max_string": 2},
    {"max_length": 0},
    {"max_string": 0},
    {"expand_all": True},
    {"indent_guides": True},
    {"indent_size": 2},
    {"max_length": 2, "max_string": 2, "indent_guides": True},
]


def _first_container_child(obj):
    it = obj.values() if isinstance(obj, dict) else obj
    for c in it:
        if type(c) in (list, dict, set, deque, defaultdict):
            return c
    return None


def h_applicable(obj, mut):
    t = type(obj)
    if mut in ("nested-append", "nested-clear"):
        return _first_container_child(obj) is not None
    if t is tuple:
        return False
    if mut == "setitem":
        return t is not set
    return True


def h_mutate(obj, mut, step):
    """in-place, total (a no-op where it cannot apply, e.g. pop on empty); `step` makes repeated
    applications distinguishable"""
    if mut.startswith("nested-"):
        obj = _first_container_child(obj)
        if obj is None:
            return
        mut = mut[7:]
    t = type(obj)
    new = 7 + step
    if mut == "append":
        if t in (list, deque):
            obj.append(new)
        elif t is set:
            obj.add(new)
        else:
            obj["k%d" % step] = new
    elif mut == "pop":
        if len(obj):
            if t in (dict, defaultdict):
                obj.popitem()
            else:
                obj.pop()
    elif mut == "setitem":
        if len(obj) and t is not set:
            if t in (dict, defaultdict):
                obj[next(iter(obj))] = "wxyz%d" % step
            else:
                obj[0] = "wxyz%d" % step
    elif mut == "clear":
        obj.clear()
    elif mut == "grow":
        more = [10 + step, 11, 12, 13, 14, 15, 16, 17, 18]
        if t in (list, deque):
            obj.extend(more)
        elif t is set:
            obj.update(more)
        else:
            for m in more:
                obj["g%d" % m] = m


def h_histories(maxlen):
    for n in range(1, maxlen + 1):
        for h in itertools.product(H_EVENTS, repeat=n):
            if any(e in ("R1", "R2") for e in h):      # without a render nothing is observed
                yield h


def _h_console():
    import io
    from rich.console import Console
    return Console(file=io.StringIO(), width=80, height=25, force_terminal=False, color_system=None,
                   legacy_windows=False, _environ={})


def run_history(vname, desc, mut, variant, hist, res):
    from rich.pretty import Pretty, pretty_repr
    from rich.measure import Measurement
    obj = build(desc)
    console = _h_console()
    pretty = Pretty(obj, **variant)
    ind = variant.get("indent_size", 4)
    ml, ms, ea = variant.get("max_length"), variant.get("max_string"), variant.get("expand_all", False)
    case = {"part": "hist", "value": vname, "mut": mut, "variant": variant, "hist": list(hist)}
    mutated = 0
    seen_before = False      # a measure or render happened before the latest mutation
    touched = False
    for pos, ev in enumerate(hist):
        try:
            if ev == "X":
                h_mutate(obj, mut, mutated)
                mutated += 1
                seen_before = seen_before or touched
                continue
            touched = True
            if ev == "M":
                Measurement.get(console, pretty, H_W1)
                continue
            W = H_W1 if ev == "R1" else H_W2
            segs = list(console.render(pretty, console.options.update(width=W)))
        except Exception as e:      # noqa
            res.violate("history/pretty/" + _crash_key(e), dict(case, at=pos), "%s: %s" % (type(e).__name__, e))
            res.sig(("hist-crash", type(e).__name__))
            return
        text = "".join(sg.text for sg in segs if not sg.is_control)
        if text.endswith("\n"):
            text = text[:-1]
        if variant.get("indent_guides"):
            text = text.replace("│", " ")
        res.evaluations += 1
        stale_possible = mutated > 0 and seen_before
        phase = "after-mutation" if mutated else "before-mutation"
        # the statement is about the representation, not about cropping: judge only where the
        # representation of the current object fits the render width line by line
        want = pretty_repr(obj, max_width=W, indent_size=ind, max_length=ml, max_string=ms, expand_all=ea)
        fits = all(sw(line) <= W for line in want.split("\n"))
        res.sig(("hist", type(obj).__name__, ev, min(mutated, 2), stale_possible, fits,
                 tuple(sorted(variant))), nontrivial=stale_possible and fits)
        if not fits:
            res.count("history_renders_not_judged_line_wider_than_width")
            continue
        # (b) the rendered text is the current value (independent of pretty_repr) ...
        viol, _info, _root, _toks = judge_content(("H",), obj, text, ml, ms)
        if viol:
            key, detail = viol[0]
            res.violate("history/pretty/not-the-current-value/" + phase, dict(case, at=pos),
                        "event %d (%s, width %d): current object %r, rendered\n%s\n[%s] %s"
                        % (pos, ev, W, obj, text, key, detail))
        # (a) ... and it is laid out like pretty_repr of the current object (reported on its own
        # only when the content is right, so that one stale-content defect has one key)
        elif text != want:
            res.violate("history/pretty/render-differs-from-pretty_repr/" + phase, dict(case, at=pos),
                        "event %d (%s, width %d) rendered\n%s\nbut pretty_repr of the current object %r is\n%s"
                        % (pos, ev, W, text, obj, want))
    res.count("histories")


def h_cases(tier):
    maxlen = 3 if tier == "quick" else 4
    hists = list(h_histories(maxlen))
    for vname, desc in H_VALUES:
        probe = build(desc)
        for mut in H_MUTATIONS:
            if not h_applicable(probe, mut):
                continue
            for variant in H_VARIANTS:
                for hist in hists:
                    yield vname, desc, mut, variant, hist


# --------------------------------------------------------------------------- FAULT part (E4)
# A traversal is cut short by an exception (a leaf's __repr__ raises at leaf position k; or the
# value is nested deeper than the recursion limit); afterwards the same containers and their
# sub-containers are printed again and must read back as the data -- exactly as in a fresh process.
def _leaf_slots(d, path=()):
    """paths of all leaf slots of a tree description (values and dict keys)"""
    k = d[0]
    if k == "L":
        yield path
    elif k in SEQ_KINDS:
        for i, c in enumerate(d[1]):
            yield from _leaf_slots(c, path + (i,))
    elif k in MAP_KINDS:
        for i, (kd, vd) in enumerate(d[1]):
            yield from _leaf_slots(kd, path + (i, 0))
            yield from _leaf_slots(vd, path + (i, 1))


def _replace_leaf(d, path):
    if not path:
        return ("F", d[1])
    k = d[0]
    i = path[0]
    if k in SEQ_KINDS:
        return (k, d[1][:i] + (_replace_leaf(d[1][i], path[1:]),) + d[1][i + 1:])
    pair = list(d[1][i])
    pair[path[1]] = _replace_leaf(pair[path[1]], path[2:])
    return (k, d[1][:i] + (tuple(pair),) + d[1][i + 1:])


def _containers_of(obj, out=None):
    """root and all sub-containers (values only), pre-order"""
    if out is None:
        out = []
    if type(obj) in KIND_OF_TYPE and type(obj) is not array:
        out.append(obj)
        for c in (obj.values() if isinstance(obj, dict) else obj):
            _containers_of(c, out)
    return out


def _fault_leaves(obj, out=None):
    if out is None:
        out = []
    if type(obj) is FaultLeaf:
        out.append(obj)
    elif type(obj) in KIND_OF_TYPE and type(obj) is not array:
        if isinstance(obj, dict):
            for k, v in obj.items():
                _fault_leaves(k, out)
                _fault_leaves(v, out)
        else:
            for c in obj:
                _fault_leaves(c, out)
    return out


def f_values(tier):
    small = [L0, L("a")]
    kinds = ("list", "tuple", "deque", "set", "frozenset", "dict", "defaultdict")
    yield from _containers_over(small, 1, 2, kinds=kinds)
    yield ("Counter", ((L("a"), L(1)),))
    inner = [L0, ("list", (L0,)), ("list", (L0, L("a"))), ("tuple", (L0,)), ("dict", ((L("a"), L0),)),
             ("set", (L0,)), ("frozenset", (L0,)), ("deque", (L0,)), ("defaultdict", ((L("a"), L0),)),
             ("list", ())]
    yield from _containers_over(inner, 1, 2, kinds=kinds)
    deep = [("list", (("list", (L0,)),)), ("dict", ((L("a"), ("tuple", (L0, ("list", (L0,))))),)),
            ("tuple", (("dict", ((L("a"), ("list", (L0,))),)),))]
    yield from _containers_over(deep + [L0], 1, 2, kinds=("list", "tuple", "dict", "deque"))
    if tier != "quick":
        yield from _containers_over(inner, 3, 3, kinds=("list", "tuple", "dict"), keys=KEYS3)


F_WIDTHS = (80, 1)
DEEP = 3500     # > 3 x the default recursion limit


def f_cases(tier):
    """(description with F leaves, fault modes in call order)"""
    for d in f_values(tier):
        slots = list(_leaf_slots(d))
        for sl in slots:
            fd = _replace_leaf(d, sl)
            yield ("leaf", fd, ("base",))
            yield ("leaf", fd, ("exc",))
            if tier != "quick":
                yield ("leaf", fd, ("base", "base"))
        if tier != "quick":
            for a, b in itertools.combinations(slots, 2):
                yield ("leaf2", _replace_leaf(_replace_leaf(d, a), b), ("base",))
    # recursion: [c, deep] in a mutable holder; the over-deep part is removed afterwards
    cs = [("list", (L0, L(1))), ("dict", ((L("k"), ("tuple", (L0,))),)), ("set", (L0,)), L0]
    for c in cs:
        for holder in ("list", "dict", "deque", "list-in-list", "list-in-tuple", "dict-in-list"):
            yield ("recursion", (holder, c), ("recursion",))


def _judge_plain_call(obj, w, res, case, keyprefix, what):
    """pretty_repr(obj) at width w in the current process state must read back as obj"""
    from rich.pretty import pretty_repr
    res.evaluations += 1
    try:
        out = pretty_repr(obj, max_width=w)
    except Exception as e:      # noqa
        res.violate(keyprefix + _crash_key(e), case, "%s: %s: %s" % (what, type(e).__name__, e))
        return False
    viol, _info, _root, _toks = judge_content(("H",), obj, out, None, None)
    if viol:
        key, detail = viol[0]
        res.violate(keyprefix + key, case, "%s at width %d printed\n%s\n%s" % (what, w, out, detail))
        return False
    return True


def run_fault(kind, fd, modes, res):
    from rich.pretty import pretty_repr
    case = {"part": "fault", "kind": kind, "v": fd, "modes": list(modes)}
    outcomes = []
    if kind == "recursion":
        holder, cdesc = fd
        c = build(cdesc)
        deep = build(("deeplist", DEEP))
        if holder == "list":
            root = inner = [c, deep]
        elif holder == "dict":
            root = inner = {"a": c, "b": deep}
        elif holder == "deque":
            root = inner = deque([c, deep])
        elif holder == "list-in-list":
            inner = [c, deep]
            root = [inner, 0]
        elif holder == "list-in-tuple":
            inner = [c, deep]
            root = (inner,)
        else:
            inner = {"a": c, "b": deep}
            root = [inner]
        try:
            with alarm(30):
                pretty_repr(root, max_width=80)
            outcomes.append("returned")
        except RecursionError:
            outcomes.append("RecursionError")
        except CaseTimeout:
            res.violate("fault/hang", case, "pretty_repr of an over-deep value did not return")
            return
        except Exception as e:      # noqa
            outcomes.append(type(e).__name__)
        if isinstance(inner, dict):
            del inner["b"]
        else:
            inner.pop()
        del deep
    else:
        root = build(fd)
        leaves = _fault_leaves(root)
        for mode in modes:
            for fl in leaves:
                fl.mode = mode
                fl.calls = 0
            try:
                pretty_repr(root, max_width=80)
                outcomes.append("returned")
            except InjectedFault:
                outcomes.append("raised")
            except Exception as e:      # noqa
                res.violate("fault/first-call/" + _crash_key(e), case, "%s: %s" % (type(e).__name__, e))
                outcomes.append("crash")
            finally:
                for fl in leaves:
                    fl.mode = None
    ok = True
    for cont in _containers_of(root):
        for w in F_WIDTHS:
            ok = _judge_plain_call(cont, w, res, case, "fault/after-abort/",
                                   "%s %r after the aborted traversal" % (type(cont).__name__, cont)) and ok
    # an unrelated, newly built value must be unaffected too
    ok = _judge_plain_call(build(("dict", ((L("x"), ("list", (L0, ("tuple", (L(1),))))),))), 80, res, case,
                           "fault/after-abort/", "a new unrelated value") and ok
    res.sig(("fault", kind, tuple(modes), tuple(outcomes), type(root).__name__, ok),
            nontrivial="raised" in outcomes or "RecursionError" in outcomes)
    res.count("fault_histories")


def _in_child(fn):
    """run fn() -> Result in a forked child (module state the part may leave behind, monitoring
    events, cooperative primitives never reach the other shards of this worker)"""
    import os
    import pickle
    r, w = os.pipe()
    pid = os.fork()
    if pid == 0:
        code = 0
        try:
            os.close(r)
            try:
                data = pickle.dumps(("ok", fn()))
            except BaseException:      # noqa
                data = pickle.dumps(("err", traceback.format_exc()))
            with os.fdopen(w, "wb") as f:
                f.write(data)
        except BaseException:      # noqa
            code = 1
        finally:
            os._exit(code)
    os.close(w)
    with os.fdopen(r, "rb") as f:
        data = f.read()
    os.waitpid(pid, 0)
    if not data:
        raise RuntimeError("child process died without an answer")
    st, out = pickle.loads(data)
    if st != "ok":
        raise RuntimeError("child failed: %s" % out)
    return out


def _part_fault(sh, tier):
    res = Result()
    for idx, (kind, fd, modes) in enumerate(f_cases(tier)):
        if idx % sh["n"] != sh["i"]:
            continue
        if deadline_passed():
            res.capped = True
            break
        run_fault(kind, fd, modes, res)
        if idx % 997 == 0:
            res.sample({"part": "fault", "kind": kind, "v": fd, "modes": list(modes)})
    return res


# --------------------------------------------------------------------------- THREAD part (E3)
# Two real threads run pretty_repr at the same time on objects that share a sub-container;
# vf/sched.py enumerates every interleaving of the executed lines of rich.pretty with <= 1
# preemption.  Each thread's text must read back as its own object (the sequential result).
T_SHARED = {
    "list": ("list", (L0, L(1))),
    "dict": ("dict", ((L("a"), ("list", (L0,))),)),
    "nested": ("list", (("tuple", (L0,)), ("list", (L(1),)))),
}
T_HARNESSES = [
    # id, shared sub-container, how thread A wraps it, how thread B wraps it, width A, width B
    ("same-object", "list", "self", "self", 80, 80),
    ("dict-holder-vs-member", "list", "dict", "self", 80, 80),
    ("two-holders", "dict", "list", "tuple", 80, 4),
    ("holder-twice-vs-member", "list", "twice", "self", 4, 80),
    ("nested-vs-list-holder", "nested", "self", "list", 80, 80),
]
T_MAX_EXECS = 6000
T_STOP_AFTER_VIOLATIONS = 10


def _t_wrap(how, shared):
    if how == "self":
        return shared
    if how == "dict":
        return {"k": shared, "z": 0}
    if how == "list":
        return [0, shared]
    if how == "tuple":
        return (shared,)
    if how == "twice":
        return [shared, shared]
    raise ValueError(how)


_T_READY = []


def _t_events():
    from .. import sched
    sched.install()
    if not _T_READY:
        import rich.pretty
        for co in sched._code_objects(rich.pretty):
            sys.monitoring.set_local_events(sched.TOOL, co, sys.monitoring.events.LINE)
        sched.SKIP_CODES = frozenset()
        _T_READY.append(True)


def _t_make(hid):
    from rich.pretty import pretty_repr
    _hid, sh, ha, hb, wa, wb = [h for h in T_HARNESSES if h[0] == hid][0]

    def make(s):
        shared = build(T_SHARED[sh])
        a, b = _t_wrap(ha, shared), _t_wrap(hb, shared)
        out = {}

        def A():
            out["A"] = pretty_repr(a, max_width=wa)

        def B():
            out["B"] = pretty_repr(b, max_width=wb)

        def observe():
            after = {}
            for tid, obj, w in (("A", a, wa), ("B", b, wb)):
                try:
                    after[tid] = pretty_repr(obj, max_width=w)
                except Exception as e:      # noqa
                    after[tid] = e
            return {"got": dict(out), "after": after, "objs": {"A": a, "B": b}}
        return {"A": A, "B": B}, observe
    return make


def _t_judge(hid, s, obs):
    vio = []
    if s.problem:
        vio.append(("threads/%s" % s.problem.split(":")[0], s.problem))
    for tid, e in s.errors:
        vio.append(("threads/exception/%s" % type(e).__name__, "thread %s raised %r" % (tid, e)))
    for tid in ("A", "B"):
        obj = obs["objs"][tid]
        if tid not in obs["got"]:
            if not s.problem and not any(t == tid for t, _ in s.errors):
                vio.append(("threads/no-result", "thread %s stored no result" % tid))
        else:
            viol, _i, _r, _t = judge_content(("H",), obj, obs["got"][tid], None, None)
            if viol:
                vio.append(("threads/not-the-value/" + viol[0][0],
                            "thread %s printed %r as\n%s\n%s" % (tid, obj, obs["got"][tid], viol[0][1])))
        aft = obs["after"][tid]
        if isinstance(aft, Exception):
            vio.append(("threads/afterwards/exception/%s" % type(aft).__name__, "printing %r after the threads: %r"
                        % (obj, aft)))
        else:
            viol, _i, _r, _t = judge_content(("H",), obj, aft, None, None)
            if viol:
                vio.append(("threads/afterwards/not-the-value/" + viol[0][0],
                            "after both threads finished %r prints as\n%s\n%s" % (obj, aft, viol[0][1])))
    dev = s.deviations_before(len(s.choices))
    return ("threads", hid, min(dev, 2), bool(vio)), vio


def _part_threads(sh, tier):
    from .. import sched
    res = Result()
    hid = sh["h"]
    bound = 1      # bound 2 is ~40 k schedules per harness (~10 CPU-min); not needed for shared-state slips
    _t_events()
    bad = [0]

    def judge(s, obs):
        sig, vio = _t_judge(hid, s, obs)
        res.evaluations += 4
        res.sig(sig, nontrivial=sig[2] > 0)
        if vio:
            bad[0] += 1
            ch = list(s.choices)
            while ch and ch[-1] == 0:
                ch.pop()
            for key, detail in vio:
                res.violate(key, {"part": "threads", "h": hid, "choices": ch}, detail)

    st = sched.explore(_t_make(hid), bound, judge, granularity="line", timeout_budget=0,
                       max_execs=T_MAX_EXECS,
                       stop=lambda: deadline_passed() or bad[0] >= T_STOP_AFTER_VIOLATIONS)
    res.count("schedules", st["executions"])
    res.counters["max_choice_points_per_schedule"] = st["max_choice_points"]
    if st["complete"]:
        res.count("threads_complete:%s:b%d" % (hid, bound))
    elif bad[0] < T_STOP_AFTER_VIOLATIONS:
        res.capped = True
        res.count("threads_incomplete:%s:b%d" % (hid, bound))
    res.sample({"part": "threads", "harness": hid, "bound": bound}, limit=1)
    return res


def _replay_threads(case):
    from .. import sched
    res = Result()
    _t_events()
    s, obs = sched.run_once(_t_make(case["h"]), list(case["choices"]), "line", 0)
    _sig, vio = _t_judge(case["h"], s, obs)
    for key, detail in vio:
        res.violate(key, case, detail)
    return res


# --------------------------------------------------------------------------- plan
# stratum name -> (generator, parameter-set name quick, parameter-set name thorough, tiers)
ROT_K = 64


def _strata(tier):
    if tier == "quick":
        return [
            ("leaves", stratum_leaves, "base+trunc"),
            ("d1<=2", lambda: stratum_d1(2), "base+trunc"),
            ("d2<=2", stratum_d2_quick, "base+trunc"),
            ("eq-leaves<=3", lambda: stratum_eq(3), "eq"),
            ("esc-strings<=4", lambda: stratum_esc(4), "esc"),
            ("keys", stratum_keys, "eq"),
            ("graphs1", lambda: stratum_graphs(1, ("list", "dict", "deque", "defaultdict", "tuple")), "graph"),
            ("graphs2", lambda: stratum_graphs(2, ("list", "dict", "tuple", "deque")), "graph"),
        ]
    return [
        ("leaves", stratum_leaves, "full"),
        ("d1<=2", lambda: stratum_d1(2), "full"),
        ("d2<=2", stratum_d2_quick, "base+trunc8"),
        ("d1=3", lambda: stratum_d1(3, lo=3), "base+trunc"),
        ("d2=3", stratum_d2_three, "base+trunc2"),
        ("d3", stratum_d3, "base+trunc2"),
        ("chains4-6", stratum_chains, "base"),
        ("eq-leaves<=4", lambda: stratum_eq(4), "eq"),
        ("esc-strings<=5", lambda: stratum_esc(5), "esc"),
        ("keys", stratum_keys, "eq"),
        ("graphs1", lambda: stratum_graphs(1, ("list", "dict", "deque", "defaultdict", "tuple")), "graph"),
        ("graphs2", lambda: stratum_graphs(2, ("list", "dict", "tuple", "deque", "defaultdict")), "graph"),
        ("graphs3", lambda: stratum_graphs(3, ("list", "dict", "tuple")), "graph"),
    ]


def _rot_strata():
    """thorough-only value space of which the quick tier explores slice seed % ROT_K"""
    return [
        ("d1=3", lambda: stratum_d1(3, lo=3), "base"),
        ("d2=3", stratum_d2_three, "base"),
        ("d3", stratum_d3, "base"),
        ("chains4-6", stratum_chains, "base"),
    ]


def plan(tier, seed):
    n = 48 if tier == "quick" else 192
    shards = [{"part": "core", "i": i, "n": n} for i in range(n)]
    if tier == "quick":
        shards += [{"part": "rot", "i": i, "n": 16, "slice": seed % ROT_K} for i in range(16)]
    nh = 8 if tier == "quick" else 32
    shards += [{"part": "hist", "i": i, "n": nh} for i in range(nh)]
    nf = 4 if tier == "quick" else 16
    shards += [{"part": "fault", "i": i, "n": nf} for i in range(nf)]
    shards += [{"part": "threads", "h": h[0]} for h in T_HARNESSES]
    return shards


def run_shard(sh, tier, seed):
    res = Result()
    if sh["part"] == "core":
        strata = _strata(tier)
        idx = 0
        for name, gen, pname in strata:
            params = param_set(pname)
            cnt = 0
            for desc in gen():
                mine = idx % sh["n"] == sh["i"]
                idx += 1
                cnt += 1
                if not mine:
                    continue
                if deadline_passed():
                    res.capped = True
                    res.counters["capped_in_stratum"] = name
                    return res
                run_value(desc, params, res, sample_every=4001, idx=idx)
            if sh["i"] == 0:
                res.count("values/" + name, cnt)
    elif sh["part"] == "fault":
        return _in_child(lambda: _part_fault(sh, tier))
    elif sh["part"] == "threads":
        return _in_child(lambda: _part_threads(sh, tier))
    elif sh["part"] == "hist":
        for idx, (vname, desc, mut, variant, hist) in enumerate(h_cases(tier)):
            if idx % sh["n"] != sh["i"]:
                continue
            if deadline_passed():
                res.capped = True
                return res
            run_history(vname, desc, mut, variant, hist, res)
            if idx % 7919 == 0:
                res.sample({"part": "hist", "value": vname, "mut": mut, "variant": variant, "hist": list(hist)})
    else:
        k = sh["slice"]
        idx = 0
        for name, gen, pname in _rot_strata():
            params = param_set(pname)
            for desc in gen():
                j = idx
                idx += 1
                if j % ROT_K != k or (j // ROT_K) % sh["n"] != sh["i"]:
                    continue
                if deadline_passed():
                    res.capped = True
                    return res
                run_value(desc, params, res)
                res.count("values/rotating-slice")
    return res


def describe(tier, seed, res):
    vals = {k[7:]: v for k, v in res.counters.items() if k.startswith("values/")}
    if tier == "quick":
        rule = ("VALUES: 14 leaves {0,-1,10**20,1.5,True,None,'a','あ',\"it's\",'q\"','a\\nb',b'x','',b'wxyz'}; "
                "depth 1: each of list/tuple/deque/set/frozenset/dict/Counter/defaultdict(int)/array('i','d') with 0..2 "
                "children over all leaves (dict keys from 4 incl. a tuple key); depth 2: list/tuple/deque/set/frozenset/"
                "dict/defaultdict with 1..2 children from M = 3 leaves + one representative per kind x arity 0/1/2 (31); "
                "all object graphs (cycles, shared children) with 1 node (5 kinds) or 2 nodes (4 kinds), <=2 items per node "
                "over {0, ref}. PARAMETERS per tree value: max_width 1..24,40,80,200 x indent 4,2,1 (expand_all off) + "
                "expand_all x 3 widths x indent; + (max_length,max_string) in {(0,None),(None,0),(1,None),(None,1),(1,1),(2,3)} x 10 widths "
                "(+2 indents x 2 widths, + expand_all) = 180 vectors; graphs: 7 widths x 2 indents (+expand_all) x "
                "max_length None/0/1 = 45 vectors. "
                "Plus slice seed%%%d of the thorough-only value space (3 children, depth 3, chains to depth 6) at the "
                "no-truncation parameters. Non-trivial = output contains a non-empty container (inline or expanded); "
                "distinct = outcome signatures (root kind, oracle branch, line-count class, inline/expanded counts, "
                "repr branch, expand_all, marker kinds)." % ROT_K)
    else:
        rule = ("VALUES and PARAMETERS: leaves and depth 1 (<=2 children over 14 leaves) with the FULL product max_width "
                "1..24,40,80,200 x indent 4,2,1 x expand_all x max_length None,0,1,2 x max_string None,0,1,3 (2592 vectors); "
                "depth 2 (<=2 children over M=31) with all widths x indents (+expand_all at 3 widths) and all 15 truncation "
                "combinations x 10 widths (+2 indents x 2 widths, +expand_all) = 315 vectors; depth 1 with 3 children over all "
                "leaves (180 vectors as in quick); depth 2 with 3 children over a 19-element menu and depth 3 (outer kind x <=3 "
                "children, one child a depth-2 value from a 213-element menu, the others from a 5-element menu; pairs of deep "
                "children) with all widths x indents (+expand_all) and (max_length,max_string) in {(0,0),(1,1),(2,3)} x 5 widths = 105 "
                "vectors; single-child chains of depth 4..6 over 6 kinds (90 no-truncation vectors); all object graphs with <=2 "
                "nodes (5 kinds) and 3 nodes (list/dict/tuple), <=2 items per node (45 vectors). Non-trivial / distinct as in quick: "
                "non-trivial = output contains a non-empty container (inline or expanded); distinct = outcome signatures.")
    rule += (" HISTORY part: %d mutable values (list, dict, set, deque, defaultdict, nested) x applicable in-place mutations "
             "%s x %d Pretty variants (default, max_length, max_string, expand_all, indent_guides, indent_size, combined) x "
             "all histories of length <=%d over {measure at %d, render at %d, render at %d, mutate} containing a render, on ONE "
             "Pretty instance; every render whose current representation fits the width line by line is judged: it must "
             "evaluate back to (walk-match) the CURRENT object and equal pretty_repr of it."
             % (len(H_VALUES), list(H_MUTATIONS), len(H_VARIANTS), 3 if tier == "quick" else 4, H_W1, H_W1, H_W2))
    rule += (" ESC-STRINGS stratum: every str over {a, newline, tab, backslash, ', \", NUL, wide char} and every bytes over "
             "{a, newline, backslash, ', \", 0x80} of length 1..%d, as root / list element / dict value / dict key, x max_string "
             "None,0,1,2,3 (+ two combined vectors): the shown literal must evaluate to value[:max_string] and '+N' == len - "
             "max_string. KEYS stratum: dict/defaultdict/Counter with 1..2 keys (all ordered pairs) from {None, 0, '', False, (), "
             "(None,), (None,0), 1, True, 1.0, 0.0, 'a', b'', frozenset()} x 3 values, also nested in a list, x 7 vectors: every "
             "item must be printed as key: value with a key that evaluates (type-strictly) to the key." % (4 if tier == "quick" else 5))
    rule += (" EQ-LEAVES stratum: every list/tuple/deque/dict-values/defaultdict-values of 2..%d leaves from {1, True, 1.0, 0, "
             "False, 0.0, -0.0, '', None} (leaves that are == but differ in type or repr), sets/frozensets of 2, and two mixed "
             "shapes holding three of them as list element, tuple element and dict value of one object, x 7 parameter vectors; "
             "judged type-strictly (typed deep equality of the eval'd value, -0.0 != 0.0, token-wise literal comparison in the walk, "
             "repr equality). FAULT part (E4): %d fault histories -- containers of depth <=3 (7 kinds), a leaf at EVERY leaf "
             "position (values and dict keys) whose __repr__ raises a BaseException (propagates) or an Exception (Rich prints "
             "<repr-error>)%s; and values nested deeper than the recursion limit inside 6 holders -- then the root, every "
             "sub-container (widths 80 and 1) and a new unrelated value are printed in the same process and must read back as the "
             "data. THREAD part (E3, vf/sched.py): %d harnesses of two real threads running pretty_repr on objects that share a "
             "sub-container (same object, holder vs member, two holders, holder-twice, nested); every interleaving of the executed "
             "lines of rich.pretty with <=1 preemption (%d schedules) -- each thread's text, and the text printed after both "
             "finished, must read back as the object."
             % (3 if tier == "quick" else 4, res.counters.get("fault_histories", 0),
                "" if tier == "quick" else ", two faults in a row, two faulty leaves", len(T_HARNESSES),
                res.counters.get("schedules", 0)))
    return {
        "rule": rule,
        "assumptions": [
            "FAULT / THREAD parts run in forked children of the worker; the first (aborted) call of a fault history is not judged (raising, or <repr-error ...> for an Exception, is Rich's documented behaviour), only the calls after it",
            "THREAD part: scheduling points are the executed lines of rich.pretty (not bytecodes, not C code such as repr() of builtins); two threads, preemption bound 1",
            "HISTORY part: clause (a) compares with pretty_repr of the current object, which is itself decided by the main part of this check; clause (b) (eval-back / structural walk against the current object) is independent of it; renders in which some line of the representation is wider than the render width are not judged (cropping/wrapping is Text's business); indent guide characters are read as spaces",
            "eval environment = collections + array; \"<class 'int'>\" (repr's spelling of the default factory) is rewritten to int before eval",
            "repr equality is demanded only for values built solely from list/tuple/dict/set/frozenset and literal leaves (repr(Counter) orders by count)",
            "empty containers (e.g. frozenset(), array('i')) and dict keys (a tuple key is printed through repr) are atoms for the layout rules",
            "expand_all=True must leave no non-empty container on one line; max_length/max_string show exactly that many items/characters and print a marker only when something is omitted (parameter documentation)",
            "inside a container used as a dict key (printed via repr by design) truncation is unspecified: both forms are accepted",
            "for cyclic values any finite unrolling is accepted as long as '...' appears only at a genuine back edge",
            "deeper strata use reduced child menus (stated in rule); they are exhaustive within those menus, not over the full grammar",
        ],
        "coverage": {"values_by_stratum": vals,
                     "histories": res.counters.get("histories", 0),
                     "fault_histories": res.counters.get("fault_histories", 0),
                     "thread_schedules": res.counters.get("schedules", 0),
                     "completed_thread_harness_bounds": sorted(k[17:] for k in res.counters if k.startswith("threads_complete:")),
                     "rotating_slice": (seed % ROT_K) if tier == "quick" else None},
    }


def _tuplify(x):
    if isinstance(x, list):
        return tuple(_tuplify(i) for i in x)
    return x


def replay(case):
    res = Result()
    if case.get("part") == "fault":
        run_fault(case["kind"], _tuplify(case["v"]), tuple(case["modes"]), res)
        return [(k, v[2]) for k, v in sorted(res.violations.items())]
    if case.get("part") == "threads":
        res = _in_child(lambda: _replay_threads(case))
        return [(k, v[2]) for k, v in sorted(res.violations.items())]
    if case.get("part") == "hist":
        desc = dict(H_VALUES)[case["value"]]
        run_history(case["value"], desc, case["mut"], case["variant"], tuple(case["hist"]), res)
        return [(k, v[2]) for k, v in sorted(res.violations.items())]
    desc = _tuplify(case["v"])
    run_value(desc, [(case["w"], case["ind"], case["ea"], case["ml"], case["ms"])], res)
    return [(k, v[2]) for k, v in sorted(res.violations.items())]
