"""C17 -- Syntax and tracebacks show the source line for line under the right numbers.

Part "syn": every source of <=3 (quick) / <=4 (thorough) lines over a 6-line
    alphabet x 3 endings x 5 lexers is rendered through Console.render(Syntax(..))
    (P1) with every line_range (a,b), -1 <= a <= b <= n+2, and without a range,
         under the base options (line numbers on),
    (P2) with every line_range under every single option deviation (shorter sources),
    (P3) under every pair (thorough: triple) of option deviations x {no range, (2,3)},
    (P4) the longest sources under every single deviation x {no range, (2,3)}.
    The rendered characters are split into gutter (marker, number) and code and
    compared with code.expandtabs(tab).split("\\n").
Part "tb": generated modules (3 shapes: module-level raise, nested call, tabs +
    wide characters + three frames) x leading blank lines x lines before the raise x
    lines after x trailing blank lines x final newline x extra_lines are executed
    from a scratch directory, the exception is rendered through Traceback and, per
    frame, the line carrying the marker is compared with the generated source.

Part "tbh": rewrite histories of ONE path: module A is written to path P, executed and
    rendered, then P is REWRITTEN with module B (and C), executed and rendered again
    (an edit / re-run cycle in a long-lived process); all ordered pairs over a menu of
    8 (thorough 12) module shapes and all ordered triples over every second shape;
    every rendering is judged by the same oracle against the file as it is on disk at
    that moment. Keys traceback/history/...: a failure of a later step that does not
    occur for the same module at a path never used before.

Part "synh": Syntax histories inside ONE process: events P = Syntax.from_path(file with
    extension e) and S = Syntax(code, lexer alias e), e in {json, html, py, xml}, code
    with and without leading blank lines; all ordered pairs of events (thorough: also
    with a line_range, and triples); each history runs in a forked child of a worker
    that has imported rich and rendered nothing (FRESH_WORKERS), every rendering is
    judged by the numbered oracle. Keys syntax/history/...: a failure of a later event
    that does not occur when the event is the first one of a fresh process.
Part "tbk": frame KINDS x position in the chain: every calling level of module -> f1 -> f2
    wraps its call in {plain, try/finally, except + bare raise, except + raise from,
    with-block, generator}, the leaf wraps its raise in {plain, try/finally, with}; the
    exception either leaves the module or is caught there and the Traceback is built two
    lines later in the catching frame. Expected frames = tb_lineno of the entries of the
    exception's __traceback__ / __cause__ / __context__ chain, walked by the harness.
Part "synr": ONE Syntax object rendered three times (same console; consoles of different
    width and encoding in between); each rendering is judged by the oracle and compared
    with a fresh equal object. Keys syntax/rerender/...
Console dimension: option slots enc (ascii, latin-1: ascii_only consoles) and
    legacy_windows; P5 = full product indent_guides x enc x line_numbers x word_wrap x
    every range on the shorter sources; every traceback module on utf-8 and ascii
    consoles (latin-1 / legacy_windows on a sub-product).
Part "ws": third source stratum: lines with U+00A0 / U+3000 / U+2003 / U+200B / FF / VT
    leading, after spaces, in the middle and alone, and a tab after spaces, x indent_guides
    x line_numbers x word_wrap x {python, unknown lexer}; code points compared exactly
    (only ASCII-space padding is stripped).
The source alphabet has a second stratum: sequences over {blank, plain, a line with a
form feed in a string literal, a line with U+2028 and U+0085 in a comment} that contain
a special line (ONE line for Python and split("\n"), several for str.splitlines); the
generated traceback modules have variants with such a line before the raising line.

Finding keys are chosen by diagnosis of the failing rendering (is it the rendering of
the source without its leading blank lines? does the stray line vanish without indent
guides?), never by the input alone, so one defect keeps one key.

Measured (tree 815383d, idle-ish machine, 16 workers): quick 806,064 evaluations
(747,888 Syntax renders, 14,000 + 2,064 + 640 tracebacks, 40,320 re-renders, 1,152
Syntax-history renders), 1,675 distinct outcomes, 515 CPU-s, 65 s wall at load 12.
Thorough (counted): 9.3 M Syntax renders, ~220 k + 56 k tracebacks, ~590 k re-renders:
~8,500 CPU-s, ~9 min on 16 idle cores.
"""
import io
import itertools
import json
import linecache
import os
import re
import shutil
import sys
import tempfile
import traceback as _pytraceback

from ..par import Result, deadline_passed
from ..width import sw

ID = "C17"
LEVEL = "exploration"
ENGINE = "E1"
CAP_S = {"quick": 240, "thorough": 1800}
FRESH_WORKERS = True   # every shard in a fresh worker: module-level state of rich is part of what is checked
TECHNIQUE = ("bounded-exhaustive enumeration of sources x lexers x line ranges x option deviations on the real "
             "Syntax/Traceback renderers, judged by splitting the rendered characters into gutter and code and "
             "comparing them with the source lines")
LEVEL_TEXT = ("Every source string in scope is rendered under every lexer, every line range around and beyond the code "
              "and every option vector within the deviation bound; every generated module shape in scope is executed and "
              "its traceback rendered. Each rendering is compared line by line with the source text computed by plain "
              "string operations. Exhaustive inside the stated bounds; nothing is sampled.")
LEVEL_NOTE = ("Trusted: CPython (str.expandtabs/split, compile/exec line numbers), Pygments as the tokenizer Rich calls, "
              "the gutter parser and matcher in vf/checks/c17.py, vf/width.py. Bounds: sources <=3 (quick) / <=4 (thorough) "
              "lines over 6 line kinds, <=2 / <=3 option deviations, modules of <=17 / <=23 lines.")

MARK = "❱"          # the failing-line pointer
GUIDE = "│"         # indent guide (and panel border)

# ------------------------------------------------------------------ alphabets
LINES = ["", "x = 1", "\tif a:", "あ = 'z'", "  y", "{\"k\": [1]}"]
# Lines that Python and code.split("\n") count as ONE line although they contain characters at which
# str.splitlines() breaks: a form feed inside a string literal, U+2028 and U+0085 inside a comment.
FF_LINE = "s = 'a\x0cb'"
LS_LINE = "# c\u2028d\x85e"
SPECIAL_LINES = [FF_LINE, LS_LINE]
SPECIAL_MENU = ["", "x = 1", FF_LINE, LS_LINE]
# control characters every rich Text drops by design (rich.control: backspace, VT, FF, CR)
DROPPED_CONTROLS = {8: None, 11: None, 12: None, 13: None}
# Third stratum: non-ASCII white space and look-alikes, LEADING, in the MIDDLE and ALONE on a line
WS_CHARS = ["\u00a0", "\u3000", "\u2003", "\u200b", "\x0c", "\x0b"]
WS_LINES = [form % ch for ch in WS_CHARS for form in ("%sy", "  %sy", "a%sb", "%s")] + \
           ["  \ty", "a \tb", " \t"]          # a tab after spaces
WS_FILL = ["", "    y"]                       # neighbours: a blank line and an indented line (so that guides exist)
WS_PRODUCT = [("ig", [False, True]), ("ln", [True, False]), ("ww", [False, True])]
WS_LEXERS = ("python", "nolexer")
LEXERS = ["python", "json", "html", "text", "nolexer"]
BASE = {"ln": True, "start": 1, "hl": False, "ww": False, "cw": None, "ig": False,
        "theme": "monokai", "W": 60, "tab": 4, "enc": "utf-8", "lw": False}
# enc = encoding of the console's file (anything not utf-* makes the console ascii_only), lw = legacy_windows
SLOTS = [("ln", [False]), ("start", [5, 99]), ("hl", [True]), ("ww", [True]), ("cw", [10, 6]),
         ("ig", [True]), ("theme", ["ansi_dark"]), ("W", [20]), ("tab", [2]),
         ("enc", ["ascii", "latin-1"]), ("lw", [True])]
# P5: the full product of these slots (x every range) on the shorter sources for a known and the unknown lexer
PRODUCT_SLOTS = [("ig", [False, True]), ("enc", ["utf-8", "ascii"]), ("ln", [True, False]), ("ww", [False, True])]
PRODUCT_LEXERS = ("python", "nolexer")


def _sources(maxn):
    """-> list of (code, nseq): all line sequences of <= maxn lines x final newline
    {none, one, two}; duplicates (same string) are kept once, under the smallest n."""
    seen = set()
    out = []
    for n in range(maxn + 1):
        seqs = itertools.chain(
            itertools.product(LINES, repeat=n),
            # second stratum: every sequence over {blank, plain, form-feed line, U+2028/U+0085 line}
            # that contains at least one of the two special lines
            (q for q in itertools.product(SPECIAL_MENU, repeat=n) if FF_LINE in q or LS_LINE in q))
        for seq in seqs:
            for final in (1, 0, 2):
                code = "\n".join(seq) + "\n" * final
                if code not in seen:
                    seen.add(code)
                    out.append((code, n))
    return out


def _opt_vectors(k):
    """Option vectors with exactly k deviations from BASE (as dicts of the deviating slots)."""
    out = []
    for slots in itertools.combinations(range(len(SLOTS)), k):
        for vals in itertools.product(*[SLOTS[s][1] for s in slots]):
            out.append({SLOTS[s][0]: v for s, v in zip(slots, vals)})
    return out


def _ranges(code):
    n = len(code.split("\n"))
    if code.endswith("\n"):
        n -= 1
    return [None] + [(a, b) for a in range(-1, n + 3) for b in range(a, n + 3)]


TWO_RANGES = [None, (2, 3)]


def _maxn(tier):
    return 3 if tier == "quick" else 4


def _ws_sources(maxn=3):
    """Every sequence of <= maxn lines with exactly one WS_LINES line, the others from WS_FILL; final newline."""
    out = []
    for n in range(1, maxn + 1):
        for pos in range(n):
            for fill in itertools.product(WS_FILL, repeat=n - 1):
                for special in WS_LINES:
                    seq = list(fill[:pos]) + [special] + list(fill[pos:])
                    out.append("\n".join(seq) + "\n")
    return out


def _ws_cases(tier):
    for code in _ws_sources():
        for lexer in WS_LEXERS:
            for vals in itertools.product(*[v for _n, v in WS_PRODUCT]):
                dev = {n: v for (n, _v), v in zip(WS_PRODUCT, vals) if BASE[n] != v}
                for r in (TWO_RANGES if tier == "quick" else _ranges(code)):
                    yield code, lexer, dev, r


def _product_vectors():
    out = []
    for vals in itertools.product(*[v for _n, v in PRODUCT_SLOTS]):
        dev = {n: v for (n, _v), v in zip(PRODUCT_SLOTS, vals) if BASE[n] != v}
        if len(dev) >= 2:            # 0 and 1 deviations x every range are P1 / P2
            out.append(dev)
    return out


def _unit_cases(code, nseq, tier, lexer=None):
    """All (option-deviation dict, range) pairs for one (source, lexer) unit."""
    top = _maxn(tier)
    allr = _ranges(code)
    if nseq < top and lexer in PRODUCT_LEXERS:       # P5
        for dev in _product_vectors():
            for r in allr:
                yield dev, r
    for r in allr:                                   # P1
        yield {}, r
    if nseq < top:                                   # P2
        for dev in _opt_vectors(1):
            for r in allr:
                yield dev, r
        for dev in _opt_vectors(2):                  # P3
            for r in (allr if (tier != "quick" and nseq < top - 1) else TWO_RANGES):
                yield dev, r
        if tier != "quick":
            for dev in _opt_vectors(3):
                for r in TWO_RANGES:
                    yield dev, r
    else:                                            # P4
        for dev in _opt_vectors(1):
            for r in TWO_RANGES + [(1, 2)]:          # (1,2): a selection that can consist of blank lines only
                yield dev, r


# ------------------------------------------------------------------ helpers
def _crash_key(prefix, exc):
    loc = "?"
    tb = exc.__traceback__
    while tb is not None:
        fn = tb.tb_frame.f_code.co_filename.replace("\\", "/")
        if "/rich/" in fn:
            loc = "%s:%s" % (os.path.basename(fn), tb.tb_frame.f_code.co_name)
        tb = tb.tb_next
    return "%s/crash/%s/%s" % (prefix, type(exc).__name__, loc)


_CONSOLES = {}


class _EncFile(io.StringIO):
    """An in-memory text file that reports an encoding (Console derives ascii_only from it)."""

    def __init__(self, encoding):
        io.StringIO.__init__(self)
        self._enc = encoding

    @property
    def encoding(self):
        return self._enc


def _console(width, enc="utf-8", lw=False):
    from rich.console import Console
    key = (width, enc, lw)
    c = _CONSOLES.get(key)
    if c is None:
        c = _CONSOLES[key] = Console(file=_EncFile(enc), width=width, height=25, force_terminal=True,
                                     color_system="truecolor", legacy_windows=lw, _environ={})
        assert c.options.ascii_only == (not enc.startswith("utf")), (enc, c.encoding)
    return c


def _blank(s):
    return s.strip(" ") == ""       # only ASCII spaces (tabs are expanded): U+3000 etc. are characters of the code


def _src_lines(code, tab):
    """-> (L, T): L = the source split at newlines (a final newline leaves one empty
    last entry: the only place where 'is there a line' is debatable), T = number of
    lines up to the last non-blank one. Everything after T is 'blank lines at the
    very end', which a rendering may show or not."""
    L = [s.translate(DROPPED_CONTROLS) for s in code.expandtabs(tab).split("\n")]
    T = len(L)
    while T and _blank(L[T - 1]):
        T -= 1
    return L, T


def _leading_blank(L, T):
    k = 0
    while k < T and L[k] == "":
        k += 1
    return k


_LOOSE = [False]


def _only_whitespace_differs(problem):
    """Diagnosis (chooses the finding key): does the failing rendering pass once white-space characters
    (of any kind) are left out of the comparison of each displayed line with its source line?"""
    _LOOSE[0] = True
    try:
        return problem() is None
    finally:
        _LOOSE[0] = False


def _piece_ok(pieces, src, avail, ww, guides):
    """Does the rendered piece list show source line `src`?  avail = a lower bound of
    the cells available for code: only a line wider than that may be cropped/wrapped."""
    if guides:
        pieces = [p.replace(GUIDE, " ") for p in pieces]
    if _LOOSE[0]:      # diagnosis mode: compare the non-white-space characters only
        return "".join("".join(pieces).split()) == "".join(src.split())
    if len(pieces) == 1 and pieces[0].rstrip(" ") == src.rstrip(" "):      # padding is ASCII spaces
        return True
    if sw(src) <= avail:
        return False
    if ww:
        return "".join("".join(pieces).split()) == "".join(src.split())
    return len(pieces) == 1 and src.startswith(pieces[0].rstrip(" "))


_RE_HEAD = re.compile(r"(  |%s |> )( *)(\d+) " % MARK)    # "> " is the pointer under legacy_windows


def _parse_numbered(out_lines):
    """-> list of [number, marked, pieces] or None when a line has no well-formed gutter."""
    if not out_lines:
        return [], 0
    m = _RE_HEAD.match(out_lines[0])
    if not m:
        return None, 0
    g = m.end()
    rows = []
    for line in out_lines:
        head, rest = line[:g], line[g:]
        if head.strip(" ") == "":
            if not rows:
                return None, g
            rows[-1][2].append(rest)
            continue
        m = _RE_HEAD.fullmatch(head)
        if not m:
            return None, g
        rows.append([int(m.group(3)), m.group(1) != "  ", [rest]])
    return rows, g


_RE_BLANK_ROW = re.compile(r"(  |%s |> ) *\d+ *" % MARK)


def _extra_blank_row(out_lines, problem):
    """Diagnosis: is the rendering right once its last row -- a numbered row without text -- is taken away?
    problem(rows, gutter width) -> None when the rows pass the oracle."""
    if len(out_lines) < 2 or not _RE_BLANK_ROW.fullmatch(out_lines[-1]):
        return False
    rows, g = _parse_numbered(out_lines[:-1])
    return rows is not None and problem(rows, g) is None


def _numbered_problem(rows, L, T, rng, start, avail, ww, guides):
    """Judge parsed numbered rows against source lines L. -> None | (clause, message)"""
    a, b = rng if rng else (1, len(L) + 1)
    lo = max(a, 1)
    cmin = max(0, min(b, T) - lo + 1)
    cmax = max(0, min(b, len(L)) - lo + 1)
    if rows and cmax == 0:
        return ("range/empty-selection-shows-line", "range %r selects none of the %d source lines, shown: %r" % (
            rng, len(L), [(r[0], r[2]) for r in rows]))
    for j, (num, _mk, pieces) in enumerate(rows):
        idx = num - start + 1
        if not (1 <= idx <= len(L)) or not _piece_ok(pieces, L[idx - 1], avail, ww, guides):
            texts_in_order = False
            for s in range(0, len(L) - len(rows) + 1):
                if all(_piece_ok(r[2], L[s + i], avail, ww, guides) for i, r in enumerate(rows)):
                    texts_in_order = True
                    break
            want = L[idx - 1] if 1 <= idx <= len(L) else None
            if texts_in_order:
                return ("number-wrong", "number %d stands before %r; line %d of the source (counted from start_line=%d) "
                                        "is %r" % (num, pieces, idx, start, want))
            return ("line-text-changed", "number %d stands before %r; line %d of the source is %r" % (num, pieces, idx, want))
        if j and num != rows[j - 1][0] + 1:
            return ("number-sequence", "numbers %d then %d" % (rows[j - 1][0], num))
    shown_lo = rows[0][0] - start + 1 if rows else None
    kind = "range/" if rng else ""
    if rows and shown_lo < lo:
        return (kind + "extra-lines", "first shown line is %d, range starts at %d" % (shown_lo, lo))
    if len(rows) > cmax:
        return (kind + "extra-lines", "%d lines shown, at most %d are in range %r" % (len(rows), cmax, rng))
    if (not rows or shown_lo == lo) and len(rows) < cmin and rng and \
            all(_blank(x) for x in L[lo - 1 + len(rows):lo - 1 + cmin]):
        return ("range/blank-lines-at-range-end-dropped",
                "range %r: source lines %d..%d are blank, lie inside the range and before the last non-blank source line "
                "(%d), but are not shown" % (rng, lo + len(rows), lo + cmin - 1, T))
    if (rows and shown_lo > lo) or len(rows) < cmin:
        return (kind + "missing-lines", "shown source lines %r; range %r of %d lines (non-blank up to %d) needs %d..%d "
                                        "lines from line %d" % ([r[0] - start + 1 for r in rows], rng, len(L), T, cmin, cmax, lo))
    return None


def _plain_problem(out_lines, L, T, rng, avail, ww):
    """Judge a rendering without gutter. -> None | (clause, message)"""
    overflow = any(sw(s) > avail for s in L)
    if ww and overflow:
        got = "".join("".join(out_lines).split())
        want = "".join("".join(L).split())
        if (got in want) if rng else (got == want):
            return None
        return ("nonumbers/lines-changed", "wrapped characters %r, source characters %r" % (got, want))
    rows = [[s] for s in out_lines]
    if rng is None:
        if T <= len(rows) <= len(L) and all(_piece_ok(r, L[i], avail, ww, False) for i, r in enumerate(rows)):
            return None
        return ("nonumbers/lines-changed", "rendered %r, source lines %r" % (out_lines, L))
    # with a range and no numbers the statement only promises source lines in order
    for s in range(0, len(L) - len(rows) + 1):
        if all(_piece_ok(r, L[s + i], avail, ww, False) for i, r in enumerate(rows)):
            return None
    return ("nonumbers/lines-changed", "rendered %r is no run of the source lines %r" % (out_lines, L))


_RANGE_CLASSES = ("range/empty-selection-shows-line", "range/indent-guides-phantom-line",
                  "range/blank-lines-at-range-end-dropped")


def _range_class(rng, T, n):
    if rng is None:
        return "none"
    a, b = rng
    if b < 1:
        return "before"
    if a > n:
        return "beyond"
    if a > T:
        return "in-trailing-blank"
    if a < 1 and b > n:
        return "covers"
    if a < 1:
        return "straddle-start"
    if b > T:
        return "straddle-end"
    return "inside"


# ------------------------------------------------------------------ part syn
def _opts(dev):
    o = dict(BASE)
    o.update(dev)
    return o


def make_syntax(code, lexer, o, rng):
    from rich.syntax import Syntax
    return Syntax(code, lexer, theme=o["theme"], line_numbers=o["ln"], start_line=o["start"],
                  line_range=tuple(rng) if rng else None,
                  highlight_lines={o["start"] + 1} if o["hl"] else None,
                  code_width=o["cw"], tab_size=o["tab"], word_wrap=o["ww"], indent_guides=o["ig"])


def render_on(syn, o):
    console = _console(o["W"], o["enc"], o["lw"])
    segs = list(console.render(syn, console.options))
    return "".join(seg.text for seg in segs if not seg.is_control)


def render_syntax(code, lexer, o, rng):
    return render_on(make_syntax(code, lexer, o, rng), o)


def _drops_leading_blank(code, lexer, o, L, T, k):
    try:
        out = render_syntax(code, lexer, o, None).split("\n")
        rows, g = _parse_numbered(out[:-1] if out[-1] == "" else out)
        if rows is None:
            return False
        avail = o["cw"] if o["cw"] is not None else o["W"] - g - 1
        return _numbered_problem(rows, L, T, None, o["start"], avail, o["ww"], o["ig"]) is not None and \
            _numbered_problem(rows, L[k:], T - k, None, o["start"], avail, o["ww"], o["ig"]) is None
    except Exception:   # noqa: BLE001
        return False


def judge_syntax(code, lexer, o, rng, out):
    """The Syntax oracle on one rendering `out` (plain characters). -> (None | (clause, message), shown, overflow)"""
    L, T = _src_lines(code, o["tab"])
    out_lines = out.split("\n")
    if out_lines[-1] == "":
        out_lines.pop()
    k = _leading_blank(L, T)
    overflow = any(sw(s) > (o["cw"] if o["cw"] is not None else o["W"] - 8) for s in L)
    if o["ln"]:
        rows, g = _parse_numbered(out_lines)
        if rows is None:
            if _extra_blank_row(out_lines, lambda rr, gg: _numbered_problem(
                    rr, L, T, rng, o["start"], o["cw"] if o["cw"] is not None else o["W"] - gg - 1, o["ww"], o["ig"])):
                return ("extra-blank-line-after-last", "one more numbered blank line follows the shown lines: %r | "
                        "source lines %r" % (out_lines, L)), len(out_lines), overflow
            return ("gutter-malformed", "cannot split %r into marker, number, code" % out_lines), 0, overflow
        avail = o["cw"] if o["cw"] is not None else o["W"] - g - 1
        prob = _numbered_problem(rows, L, T, rng, o["start"], avail, o["ww"], o["ig"])
        if prob and prob[0] not in _RANGE_CLASSES and _only_whitespace_differs(
                lambda: _numbered_problem(rows, L, T, rng, o["start"], avail, o["ww"], o["ig"])):
            return ("whitespace-characters-changed", "%s | source lines %r | rendered %r" % (prob[1], L, out_lines)), \
                len(rows), overflow
        if prob and prob[0] not in _RANGE_CLASSES and _extra_blank_row(out_lines, lambda rr, gg: _numbered_problem(
                rr, L, T, rng, o["start"], avail, o["ww"], o["ig"])):
            # diagnosis only (chooses the finding key): everything but a last, blank, numbered row is right
            return ("extra-blank-line-after-last", "one more numbered blank line follows the shown lines: %r | "
                    "source lines %r" % (out_lines, L)), len(rows), overflow
        if prob and k:
            # diagnosis only (chooses the finding key): is this the rendering of the source without its
            # leading blank lines -- exactly, or up to one of the separately keyed range deviations?
            p2 = _numbered_problem(rows, L[k:], T - k, rng, o["start"], avail, o["ww"], o["ig"])
            if prob[0] not in _RANGE_CLASSES:
                relabel = p2 is None or p2[0] in _RANGE_CLASSES
            else:
                # both readings explain the rows: look whether the unranged rendering drops the blank lines
                relabel = p2 is None and _drops_leading_blank(code, lexer, o, L, T, k)
            if relabel:
                prob = ("leading-blank-lines-dropped",
                        "the rendering is that of the source without its %d leading blank line(s): %r" % (k, out_lines))
        if prob and prob[0] == "range/empty-selection-shows-line" and o["ig"]:
            # diagnosis only: does the line disappear when the indent guides are switched off?
            try:
                o2 = dict(o, ig=False)
                out2 = render_syntax(code, lexer, o2, rng).split("\n")
                rows2, _g2 = _parse_numbered(out2[:-1] if out2[-1] == "" else out2)
                if rows2 == []:
                    prob = ("range/indent-guides-phantom-line", prob[1] + " (nothing is shown without indent_guides)")
            except Exception:   # noqa: BLE001
                pass
        shown = len(rows)
    else:
        avail = o["cw"] if o["cw"] is not None else o["W"] - 2
        stripped = [s.rstrip(" ") for s in out_lines]
        prob = _plain_problem(stripped, L, T, rng, avail, o["ww"])
        if prob and _only_whitespace_differs(lambda: _plain_problem(stripped, L, T, rng, avail, o["ww"])):
            prob = ("whitespace-characters-changed", prob[1])
        if prob and prob[0] != "whitespace-characters-changed" and k and \
                _plain_problem(stripped, L[k:], T - k, rng, avail, o["ww"]) is None:
            prob = ("leading-blank-lines-dropped",
                    "the rendering is that of the source without its %d leading blank line(s): %r" % (k, out_lines))
        shown = len(out_lines)
    if prob:
        prob = (prob[0], "%s | source lines %r | rendered %r" % (prob[1], L, out_lines))
    return prob, shown, overflow


def check_syntax(code, lexer, dev, rng, res):
    o = _opts(dev)
    case = {"part": "syn", "code": code, "lexer": lexer, "dev": dev, "range": list(rng) if rng else None}
    res.evaluations += 1
    L, T = _src_lines(code, o["tab"])
    rcls = _range_class(rng, T, len(L) - 1 if code.endswith("\n") else len(L))
    known = lexer != "nolexer"
    base_sig = ("syn", known, o["ln"], rcls, _leading_blank(L, T) > 0, o["start"] != 1,
                o["enc"] != "utf-8", o["lw"])
    try:
        out = render_syntax(code, lexer, o, rng)
    except Exception as e:   # noqa: BLE001 -- any exception of the code under test is a verdict
        key = _crash_key("syntax", e)
        res.violate(key, case, "%s: %s" % (type(e).__name__, e))
        res.sig(base_sig + ("crash",))
        return
    prob, shown, overflow = judge_syntax(code, lexer, o, rng, out)
    if prob:
        res.violate("syntax/" + prob[0], case, prob[1])
    res.sig(base_sig + (min(shown, 3), overflow and (o["ww"] and "wrap" or "crop"), prob[0] if prob else "ok"),
            nontrivial=shown > 0)


def _part_syn(sh, tier, res):
    srcs = _sources(_maxn(tier))
    idx = -1
    for code, nseq in srcs:
        for lexer in LEXERS:
            idx += 1
            if idx % sh["n"] != sh["i"]:
                continue
            if deadline_passed():
                res.capped = True
                return
            for dev, rng in _unit_cases(code, nseq, tier, lexer):
                check_syntax(code, lexer, dev, rng, res)
            res.count("syn_units")
            if idx % 1777 == 0:
                res.sample({"part": "syn", "code": code, "lexer": lexer, "cases": sum(1 for _ in _unit_cases(code, nseq, tier, lexer))})


# ------------------------------------------------------------------ part synr (one Syntax object rendered again)
# The SAME Syntax object is rendered three times: on one console, and on consoles of different width and
# encoding in between (Live / Layout refresh, print to two consoles, reuse after a resize). Every rendering is
# judged by the normal oracle and must equal the rendering of a fresh, equal object on that console.
R_DEVS = [{}, {"ig": True}, {"ww": True}, {"ln": False}]
R_SEQS = [[(60, "utf-8"), (60, "utf-8"), (60, "utf-8")],
          [(60, "utf-8"), (20, "ascii"), (60, "utf-8")]]


def _rr_sources(tier):
    menu = ["", "x = 1"] if tier == "quick" else ["", "x = 1", "\tif a:"]
    seen, out = set(), []
    for n in range(3 + 1):
        for seq in itertools.product(menu, repeat=n):
            for final in (1, 0, 2):
                code = "\n".join(seq) + "\n" * final
                if code not in seen:
                    seen.add(code)
                    out.append(code)
    return out


def _rr_lexers(tier):
    return ["python", "nolexer"] if tier == "quick" else LEXERS


def check_rerender(code, lexer, dev, rng, seq, res):
    case = {"part": "synr", "code": code, "lexer": lexer, "dev": dev, "range": list(rng) if rng else None, "seq": seq}
    o0 = _opts(dev)
    try:
        syn = make_syntax(code, lexer, o0, rng)
    except Exception as e:   # noqa: BLE001
        res.violate(_crash_key("syntax", e), case, "%s: %s" % (type(e).__name__, e))
        return
    for i, (width, enc) in enumerate(seq):
        o = dict(o0, W=width, enc=enc)
        res.evaluations += 1
        prob = None
        try:
            out = render_on(syn, o)
        except Exception as e:   # noqa: BLE001
            out = None
            prob = (_crash_key("", e).lstrip("/"), "%s: %s" % (type(e).__name__, e))
        if out is not None:
            prob = judge_syntax(code, lexer, o, rng, out)[0]
        again = False
        if i:
            # the same object again: compare with an equal object that was never rendered
            try:
                fresh = render_syntax(code, lexer, o, rng)
            except Exception:   # noqa: BLE001
                fresh = None
            if out != fresh:
                again = True
                prob = ("differs-from-fresh-object", "render %d of the same object gives %r, a fresh equal object %r%s" % (
                    i + 1, out, fresh, " | oracle on the re-rendering: %s" % (prob[1],) if prob else ""))
        res.sig(("synr", lexer != "nolexer", tuple(sorted(dev)), i, seq[i] != seq[0], prob[0] if prob else "ok"),
                nontrivial=i > 0)
        if prob:
            # a later rendering that equals the fresh object's but fails the oracle is an ordinary Syntax defect
            res.violate(("syntax/rerender/" if again else "syntax/") + prob[0], case,
                        "render %d of %d on consoles (width, encoding) %r: %s" % (i + 1, len(seq), seq, prob[1]))
            return


def _rr_cases(tier):
    for code in _rr_sources(tier):
        for lexer in _rr_lexers(tier):
            for dev in R_DEVS:
                for rng in _ranges(code):
                    for seq in R_SEQS:
                        yield code, lexer, dev, rng, seq


def _part_synr(sh, tier, res):
    for idx, (code, lexer, dev, rng, seq) in enumerate(_rr_cases(tier)):
        if idx % sh["n"] != sh["i"]:
            continue
        if idx % 64 == sh["i"] and deadline_passed():
            res.capped = True
            break
        check_rerender(code, lexer, dev, rng, [list(x) for x in seq], res)
        res.count("rerender_histories")
        if idx % 4999 == 0:
            res.sample({"part": "synr", "code": code, "lexer": lexer, "dev": dev, "range": rng, "seq": seq})


# ------------------------------------------------------------------ part synh (Syntax histories in one process)
# Events: P = Syntax.from_path(a file with extension e), S = Syntax(code, lexer alias e); both rendered with
# line numbers and judged by the normal numbered oracle. A history is run in a forked child of a process
# that has imported rich but rendered nothing (FRESH_WORKERS: every shard starts in a fresh worker), so the
# module-level state of rich is exactly what the events of this history left behind.
H_ALIASES = ["json", "html", "py", "xml"]
H_CODES = ["\n\n{\"k\": [1]}\n", "\nx = 1\n\n  y\n", "x = 1\n"]


def _synh_events(tier):
    rngs = [None] if tier == "quick" else [None, (2, 3)]
    return [[kind, alias, ci, list(r) if r else None]
            for kind in "PS" for alias in H_ALIASES for ci in range(len(H_CODES)) for r in rngs]


def _synh_cases(tier):
    evs = _synh_events(tier)
    for pair in itertools.product(evs, repeat=2):
        yield {"part": "synh", "events": [list(e) for e in pair]}
    if tier != "quick":
        small = [e for e in evs if e[2] == 0 and e[3] is None]
        for triple in itertools.product(small, repeat=3):
            yield {"part": "synh", "events": [list(e) for e in triple]}


def _run_syn_event(ev, directory, tag):
    """Executes one event on the real code and judges it. -> None | [clause, message]"""
    from rich.syntax import Syntax
    kind, alias, ci, rng = ev
    code = H_CODES[ci]
    rng = tuple(rng) if rng else None
    path = None
    try:
        try:
            if kind == "P":
                path = os.path.join(directory, "%s.%s" % (tag, alias))
                with open(path, "w", encoding="utf-8") as f:
                    f.write(code)
                syn = Syntax.from_path(path, line_numbers=True, line_range=rng)
            else:
                syn = Syntax(code, alias, line_numbers=True, line_range=rng)
            console = _console(BASE["W"])
            out = "".join(seg.text for seg in console.render(syn, console.options) if not seg.is_control)
        except Exception as e:   # noqa: BLE001
            return [_crash_key("", e).lstrip("/"), "%s: %s" % (type(e).__name__, e)]
    finally:
        if path:
            try:
                os.remove(path)
            except OSError:
                pass
    out_lines = out.split("\n")
    if out_lines[-1] == "":
        out_lines.pop()
    rows, g = _parse_numbered(out_lines)
    if rows is None:
        return ["gutter-malformed", "cannot split %r into marker, number, code" % out_lines]
    L, T = _src_lines(code, 4)
    k = _leading_blank(L, T)
    avail = BASE["W"] - g - 1
    prob = _numbered_problem(rows, L, T, rng, 1, avail, False, False)
    if prob and k and prob[0] not in _RANGE_CLASSES and \
            _numbered_problem(rows, L[k:], T - k, rng, 1, avail, False, False) is None:
        prob = ("leading-blank-lines-dropped",
                "the rendering is that of the source without its %d leading blank line(s)" % k)
    if prob:
        return [prob[0], "%s | source lines %r | rendered %r" % (prob[1], L, out_lines)]
    return None


def _run_syn_history(events, directory, tag):
    """-> {"step": index of the first failing event or None, "prob": [clause, message] | None}"""
    for i, ev in enumerate(events):
        prob = _run_syn_event(ev, directory, "%s_%d" % (tag, i))
        if prob:
            return {"step": i, "prob": prob}
    return {"step": None, "prob": None}


def _in_child(fn):
    """Runs fn() in a forked child (fresh copy of this process' state) and returns its JSON-able result."""
    r, w = os.pipe()
    pid = os.fork()
    if pid == 0:
        try:
            os.close(r)
            try:
                data = json.dumps(fn())
            except BaseException:   # noqa: BLE001
                data = json.dumps({"harness_error": _pytraceback.format_exc()})
            with os.fdopen(w, "wb") as f:
                f.write(data.encode("utf-8"))
        finally:
            os._exit(0)
    os.close(w)
    with os.fdopen(r, "rb") as f:
        data = f.read()
    os.waitpid(pid, 0)
    got = json.loads(data.decode("utf-8"))
    assert "harness_error" not in got, got.get("harness_error")
    return got


def check_syn_history(case, directory, tag, res):
    import rich.console   # noqa: F401 -- imported (not used) before the fork
    import rich.syntax    # noqa: F401
    events = case["events"]
    got = _in_child(lambda: _run_syn_history(events, directory, tag))
    step, prob = got["step"], got["prob"]
    res.evaluations += len(events) if step is None else step + 1
    kinds = "".join(e[0] for e in events)
    same_alias = len({e[1] for e in events}) == 1
    res.sig(("synh", kinds, same_alias, any(e[3] for e in events), step, prob[0] if prob else "ok"),
            nontrivial="P" in kinds and "S" in kinds)
    if not prob:
        return
    key = "syntax/" + prob[0]
    if step:
        # diagnosis (chooses the key): the failing event as the first event of a fresh process
        alone = _in_child(lambda: _run_syn_history([events[step]], directory, tag + "_alone"))
        if alone["prob"] is None:
            key = "syntax/history/" + prob[0]
    res.violate(key, case, "event %d of %r (P = Syntax.from_path of a file with that extension, S = Syntax(code, that "
                           "lexer alias); code menu %r): %s" % (step + 1, events, H_CODES, prob[1]))


def _part_ws(sh, tier, res):
    for idx, (code, lexer, dev, rng) in enumerate(_ws_cases(tier)):
        if idx % sh["n"] != sh["i"]:
            continue
        if idx % 256 == sh["i"] and deadline_passed():
            res.capped = True
            break
        check_syntax(code, lexer, dev, rng, res)
        res.count("whitespace_cases")
        if idx % 3001 == 0:
            res.sample({"part": "syn", "code": code, "lexer": lexer, "dev": dev, "range": rng})


def _part_synh(sh, tier, res):
    directory = tempfile.mkdtemp(prefix="vf_c17_")
    try:
        for idx, case in enumerate(_synh_cases(tier)):
            if idx % sh["n"] != sh["i"]:
                continue
            if deadline_passed():
                res.capped = True
                break
            check_syn_history(case, directory, "c17s_%d_%d" % (sh["i"], idx), res)
            res.count("syn_histories")
            if idx % 997 == 0:
                res.sample(case)
    finally:
        shutil.rmtree(directory, ignore_errors=True)


# ------------------------------------------------------------------ part tb
SHAPES = ["flat", "nested", "tabs"]


def gen_module(shape, b, pre, post, trail, final_nl):
    """-> (text, frames) ; frames = [(lineno, function name)] outermost first."""
    lines = [""] * b
    shape, _plus, special = shape.partition("+")
    # "ws": a triple-quoted string whose continuation lines start with U+3000 / consist of U+00A0 only
    sp = {"": None, "ff": [FF_LINE], "ls": [LS_LINE], "ws": ['t = """', "\u3000y", "\u00a0", '"""']}[special]
    if shape == "flat":
        if sp:
            lines += sp
        lines += ["v%d = %d" % (i, i) for i in range(pre)]
        lines.append("raise ValueError('boom')")
        frames = [(len(lines), "<module>")]
    elif shape == "nested":
        lines.append("def f():")
        if sp:
            lines += ["    " + sp[0]] + sp[1:]
        for i in range(pre):
            lines.append("" if i == 1 else "    a%d = %d" % (i, i))
        lines.append("    raise ValueError('boom')")
        raise_at = len(lines)
        lines.append("f()")
        frames = [(len(lines), "<module>"), (raise_at, "f")]
    else:
        lines.append("def f():")
        for i in range(pre):
            lines.append("\tz%d = 'あ'" % i)
        lines.append("\tif True:")
        lines.append("\t\traise ValueError('あ')")
        raise_at = len(lines)
        lines += ["", "def g():", "\tf()"]
        call_f = len(lines)
        lines.append("g()")
        frames = [(len(lines), "<module>"), (call_f, "g"), (raise_at, "f")]
    lines += ["w%d = %d" % (i, i) for i in range(post)]
    lines += [""] * trail
    return "\n".join(lines) + ("\n" if final_nl else ""), frames


SPECIAL_SHAPES = ["flat+ff", "flat+ls", "nested+ff", "nested+ls", "flat+ws", "nested+ws"]


TB_CONSOLES = {"utf-8": ("utf-8", False), "ascii": ("ascii", False), "latin-1": ("latin-1", False),
               "lw": ("utf-8", True)}


def _tb_console(name):
    from rich.console import Console
    enc, lw = TB_CONSOLES[name or "utf-8"]
    c = Console(file=_EncFile(enc), width=100, height=25, force_terminal=False, color_system=None,
                legacy_windows=lw, _environ={})
    assert c.options.ascii_only == (not enc.startswith("utf"))
    return c


def _tb_cases(tier):
    """Every module shape (word_wrap off) on a utf-8 and on an ascii console; the latin-1 and the legacy_windows console
    on the sub-product without trailing blank lines."""
    for case in itertools.chain(_tb_cases_plain(tier), _tb_cases_special(tier)):
        yield case
        if not case["ww"]:
            yield dict(case, con="ascii")
        if case["trail"] == 0 and case["final_nl"] and not case["ww"]:
            yield dict(case, con="latin-1")
            yield dict(case, con="lw")


def _tb_cases_special(tier):
    quick = tier == "quick"
    # a line with a form feed / U+2028 + U+0085 before the raising line (one line for Python and for split("\n"))
    for shape in SPECIAL_SHAPES:
        for b in range(0, 5 if quick else 7):
            for pre in range(0, 4 if quick else 6):
                for post in range(0, 5 if quick else 7):
                    for extra in ((0, 3) if quick else (0, 1, 3, 5)):
                        for ig in ((True,) if quick else (True, False)):
                            yield {"part": "tb", "shape": shape, "b": b, "pre": pre, "post": post, "trail": 0,
                                   "final_nl": True, "extra": extra, "ig": ig, "ww": False}


def _tb_cases_plain(tier):
    quick = tier == "quick"
    for shape in SHAPES:
        for b in range(0, 5 if quick else 7):
            for pre in range(0, 4 if quick else 6):
                for post in range(0, 5 if quick else 7):
                    for trail in range(0, 4):
                        for final_nl in (True, False):
                            for extra in ((0, 3) if quick else (0, 1, 3, 5)):
                                for ig in ((True,) if quick else (True, False)):
                                    for ww in ((False,) if quick else (False, True)):
                                        yield {"part": "tb", "shape": shape, "b": b, "pre": pre, "post": post,
                                               "trail": trail, "final_nl": final_nl, "extra": extra, "ig": ig, "ww": ww}


_RE_FRAME = re.compile(r"^(\S+\.py):(\d+) in (\S+)$")


def render_traceback(case, directory, modname, keep=False):
    """Writes the module, executes it, renders the traceback. -> (text, frames, path, output | exception).
    keep=True leaves the file in place (history steps rewrite one path)."""
    from rich.traceback import Traceback
    text, frames = gen_module(case["shape"], case["b"], case["pre"], case["post"], case["trail"], case["final_nl"])
    path = os.path.join(directory, modname + ".py")
    assert len(path) < 70, "scratch path too long for a one-line frame header at width 100: %r" % path
    with open(path, "w", encoding="utf-8") as f:
        f.write(text)
    linecache.clearcache()
    try:
        tb = None
        try:
            exec(compile(text, path, "exec"), {"__name__": modname, "__file__": path})
        except ValueError:
            et, ev, tb = sys.exc_info()
            tb = tb.tb_next          # drop the harness frame
        assert tb is not None, "generated module did not raise"
        walked = []
        t = tb
        while t is not None:
            walked.append((t.tb_frame.f_code.co_filename, t.tb_lineno, t.tb_frame.f_code.co_name))
            t = t.tb_next
        assert walked == [(path, ln, fn) for ln, fn in frames], "generator/interpreter disagree: %r %r" % (walked, frames)
        src = text.expandtabs(4).split("\n")
        for ln, _fn in frames:       # harness sanity: linecache sees the file the way the generator does
            assert linecache.getline(path, ln).rstrip("\n").expandtabs(4) == src[ln - 1], (path, ln)
        console = _tb_console(case.get("con"))
        try:
            console.print(Traceback.from_exception(et, ev, tb, extra_lines=case["extra"], word_wrap=case["ww"],
                                                   indent_guides=case["ig"]))
            out = console.file.getvalue()
        except Exception as e:   # noqa: BLE001
            out = e
        finally:
            del tb, t, ev
        return text, frames, path, out
    finally:
        if not keep:
            try:
                os.remove(path)
            except OSError:
                pass
        linecache.clearcache()


def _tb_blocks(out, path):
    """-> list of (header lineno, function, [inner lines of the block])"""
    blocks = []
    for line in out.split("\n"):
        # panel border: U+2502, or "|" on an ascii-only console
        if not ((line.startswith(GUIDE + " ") and line.endswith(" " + GUIDE)) or
                (line.startswith("| ") and line.endswith(" |"))):
            continue
        inner = line[2:-2]
        m = _RE_FRAME.match(inner.rstrip())
        if m and m.group(1) == path:
            blocks.append((int(m.group(2)), m.group(3), []))
        elif blocks and inner.strip(" "):
            blocks[-1][2].append(inner)
    return blocks


def _judge_traceback(case, text, frames, path, out):
    """The traceback oracle on one rendering. -> (None | (clause, message), clipped, blocks as parsed rows)"""
    L, T = _src_lines(text, 4)
    k = _leading_blank(L, T)
    blocks = _tb_blocks(out, path)
    prob = None
    if [b[1] for b in blocks] == [f[1] for f in frames] and [b[0] for b in blocks] != [f[0] for f in frames]:
        prob = ("header-lineno", "frame headers %r; the traceback entries of the exception (tb_lineno) are %r" % (
            [(b[0], b[1]) for b in blocks], frames))
    elif [(b[0], b[1]) for b in blocks] != frames:
        prob = ("frames", "frame headers %r, frames of the exception %r" % ([(b[0], b[1]) for b in blocks], frames))
    clipped = False
    parsed = [_parse_numbered(blk[2])[0] for blk in blocks]
    for (lineno, fn), blk, rows in zip(frames, blocks, parsed):
        if prob:
            break
        clipped = clipped or lineno - case["extra"] < 1 or lineno + case["extra"] > len(L)

        def judge(LL, rows=rows):
            marked = [r for r in rows if r[1]]
            if not marked:
                return ("marker-missing", "frame %s:%d: no line carries the marker" % (fn, lineno))
            if len(marked) > 1:
                return ("marker-multiple", "frame %s:%d: marked numbers %r" % (fn, lineno, [r[0] for r in marked]))
            if marked[0][0] != lineno:
                return ("marker-on-wrong-number", "frame %s:%d: marker stands at number %d" % (fn, lineno, marked[0][0]))
            for num, mk, pieces in rows:
                if not (1 <= num <= len(LL)) or not _piece_ok(pieces, LL[num - 1], 87, case["ww"], case["ig"]):
                    want = LL[num - 1] if 1 <= num <= len(LL) else None
                    return ("marked-line-text" if mk else "context-number-text",
                            "frame %s:%d: number %d stands before %r, line %d of the file is %r" % (
                                fn, lineno, num, pieces, num, want))
            return None

        prob = judge(L) if rows is not None else (
            "block-malformed", "frame %s:%d: cannot split %r into marker, number, code" % (fn, lineno, blk[2]))
        if prob and rows is not None and _only_whitespace_differs(lambda: judge(L)):
            prob = ("whitespace-characters-changed", prob[1])
        elif prob and _extra_blank_row(blk[2], lambda rr, _g: judge(L, rr)):
            # diagnosis only (chooses the finding key): everything but a last, blank, numbered row is right
            prob = ("extra-blank-line-after-last", "frame %s:%d: one more numbered blank line follows the shown "
                                                   "lines: %r" % (fn, lineno, blk[2]))
        if rows is None:
            break
        if prob and k and prob[0] not in ("extra-blank-line-after-last", "whitespace-characters-changed"):
            # diagnosis: is this the rendering of the file without its leading blank lines?
            LL = L[k:]
            # (a blank row numbered beyond the end of the shortened file is what an empty selection looks like)
            if all((1 <= num <= len(LL) and _piece_ok(pieces, LL[num - 1], 87, case["ww"], case["ig"])) or
                   (num > len(LL) - 1 and _piece_ok(pieces, "", 87, case["ww"], case["ig"]))
                   for num, _mk, pieces in rows) and all(r[0] == lineno for r in rows if r[1]):
                prob = ("leading-blank-lines-shift",
                        "frame %s:%d: the block is that of the file without its %d leading blank line(s): %r; line %d "
                        "of the file is %r" % (fn, lineno, k, blk[2], lineno, L[lineno - 1]))
    return prob, clipped, parsed


def check_traceback(case, directory, modname, res):
    res.evaluations += 1
    text, frames, path, out = render_traceback(case, directory, modname)
    L, T = _src_lines(text, 4)
    k = _leading_blank(L, T)
    base_sig = ("tb", case["shape"], k > 0, case["extra"], case["trail"] > 0, case["ig"], case["ww"],
                case.get("con", "utf-8"))
    if isinstance(out, Exception):
        res.violate(_crash_key("traceback", out), case, "%s: %s | module %r" % (type(out).__name__, out, text))
        res.sig(base_sig + ("crash",))
        return
    prob, clipped, _parsed = _judge_traceback(case, text, frames, path, out)
    if prob:
        res.violate("traceback/" + prob[0], case, "%s | module %r" % (prob[1], text))
    res.sig(base_sig + (clipped, prob[0] if prob else "ok"))


# ------------------------------------------------------------------ part tbk (frame kinds x position in the chain)
# A chain module -> f1 -> .. -> fd; the leaf raises. Every calling level wraps its call in one of K_KINDS, the
# leaf wraps its raise in one of LEAF_KINDS: frames that only propagate, frames that run more code while the
# exception unwinds (finally body, except + bare raise, except + raise .. from, __exit__ of a with block),
# generator frames, and (catch="module") extraction inside the frame that caught the exception, on a later line.
# Oracle: the entries of the exception's __traceback__ chain, walked here (tb_lineno), and the file's lines.
K_KINDS = ["plain", "finally", "reraise", "raisefrom", "with", "gen"]
LEAF_KINDS = ["plain", "finally", "with"]


def _wrap(kind, stmt, ind, lvl):
    """-> (lines of the wrapped statement at indentation `ind`, helper definitions at module level)"""
    if kind == "plain":
        return [ind + "a%d = 1" % lvl, ind + stmt, ind + "b%d = 2" % lvl], []
    if kind == "finally":
        return [ind + "try:", ind + "    " + stmt, ind + "finally:", ind + "    c%d = 1" % lvl, ind + "    d%d = 2" % lvl], []
    if kind == "reraise":
        return [ind + "try:", ind + "    " + stmt, ind + "except Exception:", ind + "    c%d = 1" % lvl, ind + "    raise"], []
    if kind == "raisefrom":
        return [ind + "try:", ind + "    " + stmt, ind + "except Exception as e%d:" % lvl, ind + "    c%d = 1" % lvl,
                ind + "    raise KeyError('k%d') from e%d" % (lvl, lvl)], []
    if kind == "with":
        return [ind + "with CM():", ind + "    " + stmt, ind + "z%d = 1" % lvl], []
    if kind == "gen":
        return [ind + "for _ in g%d():" % lvl, ind + "    pass"], ["def g%d():" % lvl, "    yield 1", "    " + stmt, ""]
    raise AssertionError(kind)


def gen_kinds_module(b, kinds, leaf, catch):
    """kinds[i] wraps the call made by level i (level 0 = module level); `leaf` wraps the raise of the deepest
    level. catch: "harness" (the exception leaves the module) | "module" (the module catches it and calls
    HOOK() two lines later, where the Traceback is built)."""
    d = len(kinds)
    lines = [""] * b
    lines += ["class CM:", "    def __enter__(self):", "        return self", "    def __exit__(self, *exc):",
              "        done = 1", "        return False", ""]
    raise_stmt = "raise ValueError('boom')"
    defs = []                      # deepest function first
    for lvl in range(d, 0, -1):
        stmt = raise_stmt if lvl == d else "f%d()" % (lvl + 1)
        body, helpers = _wrap(leaf if lvl == d else kinds[lvl], stmt, "    ", lvl)
        defs += helpers + ["def f%d():" % lvl] + body + [""]
    lines += defs
    body, helpers = _wrap(kinds[0] if d else leaf, "f1()" if d else raise_stmt, "    " if catch == "module" else "", 0)
    lines += helpers
    if catch == "module":
        lines += ["try:"] + body + ["except Exception:", "    p = 1", "    q = 2", "    HOOK()"]
    else:
        lines += body
    return "\n".join(lines) + "\n"


def _kinds_cases(tier):
    quick = tier == "quick"
    for d in range(0, 3 if quick else 4):
        for kinds in itertools.product(K_KINDS, repeat=d):
            for leaf in LEAF_KINDS:
                for catch in ("harness", "module"):
                    for b in ((0, 2) if quick else (0, 1, 3)):
                        for extra in ((0, 3) if quick else (0, 1, 3)):
                            for con in (("utf-8", "ascii") if quick else ("utf-8", "ascii", "latin-1", "lw")):
                                yield {"part": "tbk", "kinds": list(kinds), "leaf": leaf, "catch": catch, "b": b,
                                       "extra": extra, "con": con, "ig": True, "ww": False}


def _walk_chain(ev, tb):
    """The stacks of an exception, outermost exception first, each a list of (file, tb_lineno, function)."""
    stacks = []
    while True:
        frames = []
        t = tb
        while t is not None:
            frames.append((t.tb_frame.f_code.co_filename, t.tb_lineno, t.tb_frame.f_code.co_name))
            t = t.tb_next
        stacks.append(frames)
        nxt = ev.__cause__ if ev.__cause__ is not None else (None if ev.__suppress_context__ else ev.__context__)
        if nxt is None or nxt.__traceback__ is None:
            return stacks
        ev, tb = nxt, nxt.__traceback__


def check_kinds(case, directory, modname, res):
    from rich.traceback import Traceback
    res.evaluations += 1
    text = gen_kinds_module(case["b"], case["kinds"], case["leaf"], case["catch"])
    path = os.path.join(directory, modname + ".py")
    assert len(path) < 70, path
    with open(path, "w", encoding="utf-8") as f:
        f.write(text)
    linecache.clearcache()
    holder = {}

    def build(et, ev, tb):
        # the independent walk comes first; then the code under test extracts from the same live frames
        holder["stacks"] = _walk_chain(ev, tb)
        try:
            holder["tb"] = Traceback.from_exception(et, ev, tb, extra_lines=case["extra"], word_wrap=case["ww"],
                                                    indent_guides=case["ig"])
        except Exception as e:   # noqa: BLE001
            holder["tb"] = e

    def hook():
        build(*sys.exc_info())

    try:
        try:
            exec(compile(text, path, "exec"), {"__name__": modname, "__file__": path, "HOOK": hook})
        except Exception:   # noqa: BLE001 -- the generated module's own exception
            et, ev, tb = sys.exc_info()
            assert case["catch"] == "harness", "module was to catch its exception: %r" % (ev,)
            build(et, ev, tb.tb_next)        # drop the harness frame
            del tb, ev
        assert "stacks" in holder, "generated module did not raise"
        stacks = holder["stacks"]
        assert all(fn == path for st in stacks for fn, _ln, _name in st), stacks
        frames = [(ln, name) for st in reversed(stacks) for _fn, ln, name in st]   # rich shows the cause first
        out = holder["tb"]
        if not isinstance(out, Exception):
            console = _tb_console(case["con"])
            try:
                console.print(out)
                out = console.file.getvalue()
            except Exception as e:   # noqa: BLE001
                out = e
    finally:
        holder.clear()
        try:
            os.remove(path)
        except OSError:
            pass
        linecache.clearcache()
    sig = ("tbk", len(case["kinds"]), tuple(sorted(set(case["kinds"]))), case["leaf"], case["catch"], len(stacks),
           case["con"], case["extra"])
    if isinstance(out, Exception):
        res.violate(_crash_key("traceback", out), case, "%s: %s | module %r" % (type(out).__name__, out, text))
        res.sig(sig + ("crash",))
        return
    prob, _clipped, _parsed = _judge_traceback(case, text, frames, path, out)
    if prob:
        res.violate("traceback/" + prob[0], case, "%s | module %r" % (prob[1], text))
    res.sig(sig + (prob[0] if prob else "ok",),
            nontrivial=bool(set(case["kinds"] + [case["leaf"]]) - {"plain"}) or case["catch"] == "module")


def _part_tbk(sh, tier, res):
    directory = tempfile.mkdtemp(prefix="vf_c17_")
    try:
        for idx, case in enumerate(_kinds_cases(tier)):
            if idx % sh["n"] != sh["i"]:
                continue
            if deadline_passed():
                res.capped = True
                break
            check_kinds(case, directory, "c17k_%d_%d" % (sh["i"], idx), res)
            res.count("tb_frame_kind_cases")
            if idx % 911 == 0:
                res.sample(case)
    finally:
        shutil.rmtree(directory, ignore_errors=True)
        linecache.clearcache()


# ------------------------------------------------------------------ part tbh (rewrite histories of one path)
def _mod(shape, b, pre, post, trail=0, final_nl=True):
    return {"shape": shape, "b": b, "pre": pre, "post": post, "trail": trail, "final_nl": final_nl}


# module menu, simplest first: leading blank lines, length and raise line all vary
H_MENU = [
    _mod("flat", 0, 0, 0),                       # 1 line, raises at 1
    _mod("flat", 0, 2, 2),                       # raises at 3 of 5
    _mod("flat", 3, 0, 0),                       # 3 leading blank lines, raises at 4
    _mod("nested", 0, 0, 1),                     # frames 3 / 2
    _mod("nested", 2, 3, 0),                     # frames 8 / 7, interior blank line
    _mod("nested", 1, 1, 4, trail=2),            # frames 5 / 4, long tail
    _mod("tabs", 0, 1, 0),                       # three frames, tabs, wide characters
    _mod("tabs", 4, 0, 2, final_nl=False),       # three frames behind 4 blank lines, no final newline
    _mod("flat", 1, 5, 6, trail=3),              # (thorough) 16 lines
    _mod("nested", 6, 0, 0),
    _mod("nested", 0, 5, 6),
    _mod("tabs", 2, 5, 0, trail=1),
]


def _hist_cases(tier):
    quick = tier == "quick"
    menu = range(8 if quick else 12)
    sub = range(0, 8, 2) if quick else range(0, 12, 2)
    for ig in ((True,) if quick else (True, False)):
        for extra in ((0, 3) if quick else (0, 1, 3, 5)):
            for pair in itertools.product(menu, repeat=2):
                yield {"part": "tbh", "mods": list(pair), "extra": extra, "ig": ig, "ww": False}
    for extra in (0, 3):
        for triple in itertools.product(sub, repeat=3):
            yield {"part": "tbh", "mods": list(triple), "extra": extra, "ig": True, "ww": False}


def _rows_show(parsed, frames, text, case):
    """Is every block what the file content `text` would give for that frame: all numbered rows stand
    before the equally numbered lines of `text`, and a block is empty only where `text` has no line in range?"""
    L, T = _src_lines(text, 4)
    if not parsed or len(parsed) != len(frames) or any(rows is None for rows in parsed):
        return False
    for (lineno, _fn), rows in zip(frames, parsed):
        if not rows and lineno - case["extra"] <= T:
            return False
        if not all(1 <= num <= len(L) and _piece_ok(pieces, L[num - 1], 87, case["ww"], case["ig"])
                   for num, _mk, pieces in rows):
            return False
    return True


def check_history(case, directory, modname, res):
    """Write module 1 to a path, run + render; REWRITE the same path with module 2, run + render; ...
    Every rendering is judged by the normal oracle against the file as it is on disk at that moment."""
    earlier = []
    path = None
    try:
        for step, mi in enumerate(case["mods"]):
            sub = dict(H_MENU[mi], extra=case["extra"], ig=case["ig"], ww=case["ww"], part="tb")
            res.evaluations += 1
            text, frames, path, out = render_traceback(sub, directory, modname, keep=True)
            crash = isinstance(out, Exception)
            if crash:
                prob, clipped, parsed = ("crash", "%s: %s" % (type(out).__name__, out)), False, []
            else:
                prob, clipped, parsed = _judge_traceback(sub, text, frames, path, out)
            changed = bool(earlier) and earlier[-1] != text
            res.sig(("tbh", len(case["mods"]), step, changed, bool(earlier) and text in earlier[:-1],
                     case["extra"], clipped, prob[0] if prob else "ok"), nontrivial=changed)
            if prob:
                key = None
                if step:
                    # diagnosis (chooses the key): the same module at a path never used before
                    fresh = render_traceback(sub, directory, modname + "_fresh")
                    fresh_bad = isinstance(fresh[3], Exception) or \
                        _judge_traceback(sub, fresh[0], fresh[1], fresh[2], fresh[3])[0] is not None
                    if not fresh_bad:
                        stale = [j for j, old in enumerate(earlier) if old != text and _rows_show(parsed, frames, old, sub)]
                        if stale:
                            key = "traceback/history/shows-earlier-version-of-file"
                            prob = (prob[0], "%s; every shown line is the equally numbered line of the file as written "
                                             "in step %d" % (prob[1], stale[-1] + 1))
                        elif crash:
                            key = _crash_key("traceback/history", out)
                        else:
                            key = "traceback/history/" + prob[0]
                if key is None:
                    key = _crash_key("traceback", out) if crash else "traceback/" + prob[0]
                res.violate(key, case, "step %d of %d, path rewritten %d time(s): %s | file now %r | written before %r" % (
                    step + 1, len(case["mods"]), step, prob[1], text, earlier))
                return
            earlier.append(text)
    finally:
        if path:
            try:
                os.remove(path)
            except OSError:
                pass
        linecache.clearcache()


def _part_tbh(sh, tier, res):
    directory = tempfile.mkdtemp(prefix="vf_c17_")
    try:
        for idx, case in enumerate(_hist_cases(tier)):
            if idx % sh["n"] != sh["i"]:
                continue
            if deadline_passed():
                res.capped = True
                break
            check_history(case, directory, "c17h_%d_%d" % (sh["i"], idx), res)
            res.count("tb_histories")
            if idx % 211 == 0:
                res.sample(case)
    finally:
        shutil.rmtree(directory, ignore_errors=True)
        linecache.clearcache()


def _part_tb(sh, tier, res):
    directory = tempfile.mkdtemp(prefix="vf_c17_")
    try:
        for idx, case in enumerate(_tb_cases(tier)):
            if idx % sh["n"] != sh["i"]:
                continue
            if deadline_passed():
                res.capped = True
                break
            check_traceback(case, directory, "c17m_%d_%d" % (sh["i"], idx), res)
            if idx % 1201 == 0:
                res.sample(case)
    finally:
        shutil.rmtree(directory, ignore_errors=True)
        linecache.clearcache()


# ------------------------------------------------------------------ protocol
def plan(tier, seed):
    ns = 64 if tier == "quick" else 256
    nt = 16 if tier == "quick" else 48
    # traceback shards first: they are the cheap part and must not be the one a wall cap cuts off
    nh = 8 if tier == "quick" else 16
    nsh = 4 if tier == "quick" else 16
    nk = 8 if tier == "quick" else 32
    nr = 16 if tier == "quick" else 64
    nw = 4 if tier == "quick" else 16
    return [{"part": "ws", "i": i, "n": nw} for i in range(nw)] + \
           [{"part": "tbk", "i": i, "n": nk} for i in range(nk)] + \
           [{"part": "synr", "i": i, "n": nr} for i in range(nr)] + \
           [{"part": "synh", "i": i, "n": nsh} for i in range(nsh)] + \
           [{"part": "tbh", "i": i, "n": nh} for i in range(nh)] + \
           [{"part": "tb", "i": i, "n": nt} for i in range(nt)] + \
           [{"part": "syn", "i": i, "n": ns} for i in range(ns)]


def run_shard(sh, tier, seed):
    res = Result()
    if sh["part"] == "syn":
        _part_syn(sh, tier, res)
    elif sh["part"] == "tbh":
        _part_tbh(sh, tier, res)
    elif sh["part"] == "synh":
        _part_synh(sh, tier, res)
    elif sh["part"] == "synr":
        _part_synr(sh, tier, res)
    elif sh["part"] == "ws":
        _part_ws(sh, tier, res)
    elif sh["part"] == "tbk":
        _part_tbk(sh, tier, res)
    else:
        _part_tb(sh, tier, res)
    return res


def describe(tier, seed, res):
    top = _maxn(tier)
    nsrc = len(_sources(top))
    return {
        "rule": "Syntax: all %d distinct sources of <=%d lines over %d line kinds (blank, assignment, tab-indented, wide "
                "character, space-indented, JSON) x final newline {one, none, two} x lexers %s; per (source, lexer): every "
                "line_range (a,b) with -1<=a<=b<=n+2 and no range under the base options (line numbers, start_line 1, "
                "monokai, width 60); sources of <%d lines additionally every range x each of the %d single option "
                "deviations (line_numbers off, start_line 5/99, highlight_lines, word_wrap, code_width 10/6, indent_guides, "
                "theme ansi_dark, width 20, tab_size 2, console encoding ascii/latin-1 = ascii_only, legacy_windows) and every %s of deviations x {no range, (2,3)}; sources of %d lines "
                "every single deviation x {no range, (2,3), (1,2)}. Traceback: %d generated modules = 3 shapes x leading blank "
                "lines x statements before the raise x lines after the call x trailing blank lines 0..3 x final newline x "
                "extra_lines%s, executed and rendered at width 100, each under a path of its own; plus %d rewrite histories "
                "of ONE path: all ordered pairs over a menu of %d module shapes (leading blank lines, length and raise line "
                "vary) x extra_lines%s and all ordered triples over every second shape x extra_lines {0,3}: module 1 is "
                "written, run and rendered, the same path is rewritten with module 2 (3), run and rendered again, and every "
                "rendering is judged against the file as it is on disk then. The sources have a second stratum: sequences over "
                "{blank, plain, form-feed-in-string line, U+2028/U+0085-in-comment line} containing a special line; the "
                "traceback modules have 4 variants with such a line before the raise. Syntax histories: %d histories "
                "of events {Syntax.from_path(file .e), Syntax(code, alias e)} x e in %s x %d codes%s, all ordered pairs%s, each "
                "in a forked child of a fresh worker that has rendered nothing. "
                "Whitespace stratum: %d sources = every sequence of <=3 lines with exactly one of %d lines that carry "
                "U+00A0, U+3000, U+2003, U+200B, form feed, VT (leading, after two spaces, in the middle, alone) or a tab after "
                "spaces, the other lines blank or indented, x lexers %s x indent_guides x line_numbers x word_wrap x %s; the "
                "displayed code points must be those of the source line (tabs expanded; only ASCII-space padding is stripped); "
                "traceback modules also with a triple-quoted string whose lines start with U+3000 / are U+00A0 only. "
                "Option product (P5): for those shorter sources and lexers %s the full product indent_guides x console "
                "encoding {utf-8, ascii} x line_numbers x word_wrap x every range. Every traceback module is rendered on a "
                "utf-8 and on an ascii console (latin-1 and legacy_windows consoles on the sub-product without trailing blank "
                "lines). Frame kinds: %d modules = chains module -> f1 -> .. of depth <=%d where every calling level wraps its "
                "call in one of %s and the leaf wraps its raise in one of %s, x {exception leaves the module, module catches "
                "it and builds the Traceback two lines later} x leading blank lines x extra_lines x consoles; expected frames "
                "= the tb_lineno entries of the exception's __traceback__/__cause__/__context__ chain walked by the harness. "
                "Re-rendering: %d histories = sources over %d line kinds x lexers %s x %d option sets x every range x "
                "{same console three times, width 60 utf-8 / width 20 ascii / width 60 utf-8}: ONE Syntax object rendered "
                "three times, each rendering judged by the oracle and compared with a fresh equal object. "
                "A case is non-trivial when at least one source line "
                "is shown (Syntax); every traceback case is (a history step when the file content changed). distinct = distinct outcome signatures. This is not the full "
                "product of the options (deviation bound %d)." % (
                    nsrc, top, len(LINES), LEXERS, top, len(_opt_vectors(1)),
                    "pair" if tier == "quick" else "pair (all ranges for <%d lines) and triple" % (top - 1), top,
                    sum(1 for _ in _tb_cases(tier)),
                    "" if tier == "quick" else " x indent_guides x word_wrap",
                    sum(1 for _ in _hist_cases(tier)), 8 if tier == "quick" else 12,
                    " {0,3}" if tier == "quick" else " {0,1,3,5} x indent_guides",
                    sum(1 for _ in _synh_cases(tier)), H_ALIASES, len(H_CODES),
                    "" if tier == "quick" else " x {no range, (2,3)}",
                    "" if tier == "quick" else " and triples over the first code",
                    len(_ws_sources()), len(WS_LINES), list(WS_LEXERS),
                    "{no range, (2,3)}" if tier == "quick" else "every range",
                    list(PRODUCT_LEXERS), sum(1 for _ in _kinds_cases(tier)), 2 if tier == "quick" else 3, K_KINDS,
                    LEAF_KINDS, sum(1 for _ in _rr_cases(tier)), 2 if tier == "quick" else 3, _rr_lexers(tier), len(R_DEVS),
                    2 if tier == "quick" else 3),
        "assumptions": [
            "source lines = code.expandtabs(tab_size).split('\\n'); blank lines after the last non-blank line may be shown or not; "
            "blank = empty or ASCII spaces only -- every other white space (U+00A0, U+3000, ...) is a character of the code",
            "with indent_guides the guide character U+2502 may stand where the source has a space",
            "a line may be cropped (or wrapped, non-space characters kept in order) only when it is wider than code_width / "
            "the width left of the console",
            "without line numbers a line_range only has to leave a run of source lines in order (the statement speaks of "
            "ranges with numbers shown)",
            "backspace, VT, form feed and CR are dropped by every rich Text by design (rich.control) and are ignored "
            "in the comparison; U+2028, U+0085 and a form feed do not end a source line (only \\n does)",
            "Pygments is trusted as the tokenizer; frame line numbers are CPython's (tb_lineno of the traceback entries, "
            "walked by the harness before rich extracts), cross-checked against the generator for the plain shapes",
            "on an ascii-only console the panel border is '|' and no indent guides are drawn; under legacy_windows the "
            "failing-line pointer is '> '",
        ],
        "coverage": {"sources": nsrc, "source_lexer_units": res.counters.get("syn_units", 0),
                     "traceback_rewrite_histories": res.counters.get("tb_histories", 0),
                     "syntax_histories": res.counters.get("syn_histories", 0),
                     "whitespace_cases": res.counters.get("whitespace_cases", 0),
                     "rerender_histories": res.counters.get("rerender_histories", 0),
                     "traceback_frame_kind_cases": res.counters.get("tb_frame_kind_cases", 0)},
    }


def replay(case):
    res = Result()
    if case.get("part") == "syn":
        check_syntax(case["code"], case["lexer"], case.get("dev") or {}, case.get("range"), res)
    elif case.get("part") == "synr":
        check_rerender(case["code"], case["lexer"], case.get("dev") or {}, case.get("range"), case["seq"], res)
    elif case.get("part") == "tbk":
        directory = tempfile.mkdtemp(prefix="vf_c17_")
        try:
            check_kinds(case, directory, "c17k_replay", res)
        finally:
            shutil.rmtree(directory, ignore_errors=True)
    else:
        directory = tempfile.mkdtemp(prefix="vf_c17_")
        try:
            if case.get("part") == "synh":
                check_syn_history(case, directory, "c17s_replay", res)
            elif case.get("part") == "tbh":
                check_history(case, directory, "c17h_replay", res)
            else:
                check_traceback(case, directory, "c17m_replay", res)
        finally:
            shutil.rmtree(directory, ignore_errors=True)
    return [(k, v[2]) for k, v in sorted(res.violations.items())]
